//! C12 — instancing a variable font evaluates the OpenType variation model.
//!
//! Forward construction: a *variation model* (axes, glyph outlines, per-glyph tuple variations
//! with regions / point sets / deltas, hmtx, optional HVAR / MVAR / avar) is serialised by my own
//! encoders (`fontgen::gvar`, `fontgen::var`, `fontgen::basic`) into a complete TrueType variable
//! font; `allsorts::variations::instance` is called at several user coordinates; the output font
//! is read by my own glyf/hmtx/OS2/hhea/post readers (`refmodel::varmodel`) and compared with an
//! f64 evaluation of the model at the normalised location that `instance` returned.
//! A second section evaluates the repository's fixture variable fonts, decoded by my own
//! gvar/HVAR/MVAR decoders, with the same reference.

use crate::engine::util::{mix64, pick};
use crate::engine::{fixtures, CaseResult, Ctx, Fail, Property, Rec};
use crate::fontgen::basic::{glyf_simple, BasicFont, SimpleGlyph};
use crate::fontgen::gvar::{
    delta_set_index_map, glyf_composite, gvar_table, hvar_table, item_variation_store, min_map_format, mvar_table,
    cvar_table, region_is_implied, Choices, CompArgs, ComponentEnc, EncStats, GlyphVarEnc, IvdEnc, TupleEnc,
};
use crate::fontgen::sfnt::find_table;
use crate::fontgen::var::{avar_table, fvar_table, AxisModel, InstanceModel};
use crate::fontgen::varext::{gasp_table, hhea_with, name_table_records, or_component_flag, os2_table, post_v3_with, stat_table, vhea_table, vvar_from_hvar, Os2Values, StatValue, StatValueEnc};
use crate::refmodel::varext::{check_name_table, gasp_ranges, read_vertical, vhea_fields};
use crate::refmodel::varmodel::{
    bbox_of, composed_points, decode_cvar, decode_gvar, eval_cvt, decode_hvar, decode_mvar, eval_glyph, implied_axis_region, metric_fields,
    axis_region_invalid, read_font, AxisRegion, HvarModel, IvsModel, OutShape, ParsedFont, Region, TupleVar,
};
use crate::fontgen::cff::build_otf;
use crate::fontgen::type2::{diff_commands, Cmd};
use crate::props::c18;
use crate::refmodel::type2::{Deviations, T2Font};
use crate::refmodel::varmodel::{read_hmtx, region_scalar};
use allsorts::binary::read::ReadScope;
use allsorts::cff::cff2::CFF2;
use allsorts::cff::outline::CFF2Outlines;
use allsorts::outline::{OutlineBuilder, OutlineSink};
use allsorts::pathfinder_geometry::line_segment::LineSegment2F;
use allsorts::pathfinder_geometry::vector::Vector2F;
use allsorts::font::Font;
use allsorts::font_data::FontData;
use allsorts::tables::Fixed;
use proptest::prelude::*;
use std::collections::BTreeMap;

pub struct C12;

/// One font unit of rounding plus the slack of arithmetic that keeps "at least 16 fractional
/// bits" (what the specification asks for): scalars accurate to 2⁻¹⁶ times deltas below 2¹⁰,
/// a handful of tuples.
const TOL: f64 = 1.0 + 1.0 / 16.0;

// ------------------------------------------------------------------ case model (generated)

type Pt = (i16, i16, bool);

#[derive(Clone, Debug)]
pub enum AxisRegSpec {
    /// peak 0: the axis does not take part (with explicit start/end tuples: 0,0 or -1,+1)
    Zero(bool),
    /// region implied by the peak
    Peak(i16),
    /// explicit start ≤ peak ≤ end on one side of zero
    Inter(i16, i16, i16),
    /// a (start, peak, end) triple the specification calls invalid and for which it prescribes
    /// an axis scalar of 1: start > peak, peak > end, or start < 0 < end with peak ≠ 0.
    /// Only used when the case allows invalid regions.
    Invalid(i16, i16, i16),
}

#[derive(Clone, Debug, PartialEq)]
pub enum PointMode {
    All,
    Private,
    Shared,
}

#[derive(Clone, Debug)]
pub struct TupleSpec {
    pub axes: Vec<AxisRegSpec>,
    pub mode: PointMode,
    pub mask: Vec<bool>,
    pub phantom_mask: Vec<bool>,
    pub deltas: Vec<(i16, i16)>,
    pub phantom_deltas: Vec<(i16, i16)>,
    pub share_peak: bool,
    pub explicit_inter: bool,
    pub seed: u32,
}

#[derive(Clone, Debug)]
pub struct CompSpec {
    pub target: u32,
    pub dx: i16,
    pub dy: i16,
    pub anchor: Option<(u32, u32)>,
    pub force_words: bool,
    pub round: bool,
    /// refer to a glyph without contours (if the font has one and the composite keeps at least
    /// one component with points)
    pub empty: bool,
    /// 2.14 transform of the component (not on point-matched components)
    pub transform: Option<TransformSpec>,
    /// SCALED_COMPONENT_OFFSET; only used with positive diagonal scales, for which every
    /// reading of that flag gives offset' = (xscale * dx, yscale * dy)
    pub scaled_offset: bool,
}

/// Component transforms in quarters (so that transformed integer coordinates are exact multiples
/// of 1/4 in any binary floating point arithmetic): -8 ..= 7 quarters is the 2.14 range [-2, 2).
#[derive(Clone, Debug)]
pub enum TransformSpec {
    /// WE_HAVE_A_SCALE
    Scale(i8),
    /// WE_HAVE_AN_X_AND_Y_SCALE
    XY(i8, i8),
    /// WE_HAVE_A_TWO_BY_TWO: xscale, scale01, scale10, yscale
    Matrix(i8, i8, i8, i8),
}

impl TransformSpec {
    fn words(&self) -> Vec<i16> {
        let w = |q: i8| (q as i16) * 4096;
        match *self {
            TransformSpec::Scale(a) => vec![w(a)],
            TransformSpec::XY(a, d) => vec![w(a), w(d)],
            TransformSpec::Matrix(a, b, c, d) => vec![w(a), w(b), w(c), w(d)],
        }
    }
    /// a diagonal transform with positive entries
    fn positive_diagonal(&self) -> bool {
        match *self {
            TransformSpec::Scale(a) => a > 0,
            TransformSpec::XY(a, d) => a > 0 && d > 0,
            TransformSpec::Matrix(a, b, c, d) => a > 0 && d > 0 && b == 0 && c == 0,
        }
    }
}

#[derive(Clone, Debug)]
pub enum ShapeSpec {
    Empty,
    Simple(Vec<Vec<Pt>>),
    Big { n: u16, contours: u8, seed: u32 },
    Composite(Vec<CompSpec>),
}

#[derive(Clone, Debug)]
pub struct SharedSpec {
    pub all: bool,
    pub mask: Vec<bool>,
    pub phantom_mask: Vec<bool>,
}

#[derive(Clone, Debug)]
pub struct GlyphSpec {
    pub shape: ShapeSpec,
    pub advance: u16,
    /// x of phantom point 1 in the default master (0 = lsb equals xMin, as the spec requires
    /// of variable TrueType fonts)
    pub pp1: i16,
    pub tuples: Vec<TupleSpec>,
    pub shared: Option<SharedSpec>,
    pub data_gap: u8,
}

#[derive(Clone, Debug)]
pub struct AxisSpec {
    pub default_units: i16,
    pub below: u16,
    pub above: u16,
    /// interior avar knots as (from, to) magnitudes per side, if the font has an avar table
    pub avar: Vec<(i16, i16)>,
    pub wght: bool,
}

#[derive(Clone, Debug)]
pub struct HvarSpec {
    pub mapped: bool,
    pub lsb_map: bool,
    pub entry_size: u8,
    pub extra_inner_bits: u8,
    pub format1: bool,
    pub subtables: u8,
    pub truncate: bool,
    pub long_words: bool,
    pub extra_words: u8,
    pub seed: u32,
}

#[derive(Clone, Debug)]
pub struct MvarSpec {
    pub tags: Vec<u8>,
    pub regions: Vec<Vec<AxisRegSpec>>,
    pub deltas: Vec<Vec<i16>>,
    pub record_extra: u8,
    pub subtables: u8,
    pub long_words: bool,
}

#[derive(Clone, Debug)]
pub struct CvarSpec {
    pub n_cvts: u8,
    pub seed: u32,
    pub tuples: Vec<TupleSpec>,
    pub shared: Option<SharedSpec>,
}

/// Structure of the horizontal metrics.
/// mode 0: advances drawn independently;
/// 1: monospaced — every glyph has the same advance and the same advance deltas;
/// 2: the last k ≥ 2 glyphs share one advance (possibly 0) and identical advance deltas;
/// 3: the last k glyphs share one advance in the default master only (independent deltas);
/// 4: the last k glyphs differ in the default master but their advances coincide at the peak of
///    `region` (which is added to the tested locations).
#[derive(Clone, Debug)]
pub struct MetricSpec {
    pub mode: u8,
    pub k: u8,
    pub zero: bool,
    pub region: Vec<AxisRegSpec>,
    pub d1: i16,
    pub d2: i16,
}

fn metric_spec() -> impl Strategy<Value = MetricSpec> {
    (
        prop_oneof![6 => Just(0u8), 1 => Just(1u8), 2 => Just(2u8), 1 => Just(3u8), 2 => Just(4u8)],
        any::<u8>(),
        proptest::bool::weighted(0.25),
        proptest::collection::vec(axis_reg(), 3),
        -120i16..=120,
        -120i16..=120,
    )
        .prop_map(|(mode, k, zero, region, d1, d2)| MetricSpec { mode, k, zero, region, d1, d2 })
}

#[derive(Clone, Debug)]
pub struct CoordSpec {
    pub kind: u8,
    pub r: u32,
    pub off: i8,
}

#[derive(Clone, Debug)]
pub struct Case {
    pub axes: Vec<AxisSpec>,
    pub with_avar: bool,
    pub glyphs: Vec<GlyphSpec>,
    pub hvar: Option<HvarSpec>,
    pub mvar: Option<MvarSpec>,
    pub cvar: Option<CvarSpec>,
    pub coords: Vec<Vec<CoordSpec>>,
    pub long_gvar: bool,
    pub long_loca: bool,
    pub short_hmtx: bool,
    /// structure of the advance widths (monospaced, equal tails, ...)
    pub metric: MetricSpec,
    pub extra_shared_tuples: u8,
    pub enc_seed: u64,
    /// keep `AxisRegSpec::Invalid` axes (otherwise they are replaced by valid ones)
    pub invalid_regions: bool,
}

// ------------------------------------------------------------------ strategies

fn coord_val() -> impl Strategy<Value = i16> {
    prop_oneof![
        6 => (0i16..=10).prop_map(|k| k * 50),
        2 => -100i16..700,
        1 => -1000i16..1500,
    ]
}

fn pt() -> impl Strategy<Value = Pt> {
    (coord_val(), coord_val(), proptest::bool::weighted(0.7))
}

fn contour() -> impl Strategy<Value = Vec<Pt>> {
    prop_oneof![
        1 => proptest::collection::vec(pt(), 1..=2),
        6 => proptest::collection::vec(pt(), 3..=6),
    ]
}

fn delta() -> impl Strategy<Value = i16> {
    prop_oneof![
        3 => Just(0i16),
        3 => proptest::sample::select(vec![10i16, -10, 50, -50, 100]),
        3 => -128i16..=127,
        2 => -600i16..=600,
        1 => proptest::sample::select(vec![127i16, 128, -128, -129, 255, 256, -300]),
    ]
}

fn mag() -> impl Strategy<Value = i16> {
    prop_oneof![
        4 => proptest::sample::select(vec![16384i16, 8192, 4096, 12288]),
        2 => 1i16..=16384,
        1 => proptest::sample::select(vec![1i16, 2, 16383]),
    ]
}

fn axis_reg() -> impl Strategy<Value = AxisRegSpec> {
    prop_oneof![
        3 => any::<bool>().prop_map(AxisRegSpec::Zero),
        5 => (mag(), any::<bool>()).prop_map(|(m, neg)| AxisRegSpec::Peak(if neg { -m } else { m })),
        3 => (mag(), mag(), prop_oneof![1 => Just(0i16), 3 => mag()], any::<bool>(), 0u8..6).prop_map(|(a, b, c, neg, degen)| {
            let mut v = [a, b, c];
            v.sort();
            // v[0] may be 0; the peak must not be
            let (mut s, mut p, mut e) = (v[0], v[1], v[2]);
            match degen {
                0 => s = p,
                1 => e = p,
                _ => {}
            }
            if p == 0 {
                p = 1;
                s = s.min(p);
                e = e.max(p);
            }
            if neg { AxisRegSpec::Inter(-e, -p, -s) } else { AxisRegSpec::Inter(s, p, e) }
        }),
        1 => (1i16..=8192, 1i16..=8192, 1i16..=8192, 0u8..3, any::<bool>()).prop_map(|(a, b, c, kind, neg)| {
            let sg = if neg { -1 } else { 1 };
            match kind {
                // start > peak (peak ≤ end)
                0 => AxisRegSpec::Invalid(sg * (a + b), sg * a, sg * (a + b + c)),
                // peak > end (start ≤ peak)
                1 => AxisRegSpec::Invalid(sg * a, sg * (a + b), sg * (a + b - 1).max(0)),
                // region crosses zero although the peak is not zero
                _ => AxisRegSpec::Invalid(-a, sg * b.min(a.min(c)), c),
            }
        }),
    ]
}

fn tuple_spec() -> impl Strategy<Value = TupleSpec> {
    (
        proptest::collection::vec(axis_reg(), 3),
        prop_oneof![3 => Just(PointMode::All), 5 => Just(PointMode::Private), 3 => Just(PointMode::Shared)],
        (0u8..5, proptest::collection::vec(any::<u8>(), 22)),
        proptest::collection::vec(proptest::bool::weighted(0.4), 4),
        proptest::collection::vec((delta(), delta()), 22),
        proptest::collection::vec((delta(), delta()), 4),
        any::<bool>(),
        proptest::bool::weighted(0.2),
        any::<u32>(),
    )
        .prop_map(|(axes, mode, (density, mask_raw), phantom_mask, deltas, phantom_deltas, share_peak, explicit_inter, seed)| {
            let thr = [40u8, 90, 128, 180, 230][density as usize];
            TupleSpec {
                axes,
                mode,
                mask: mask_raw.iter().map(|v| *v < thr).collect(),
                phantom_mask,
                deltas,
                phantom_deltas,
                share_peak,
                explicit_inter,
                seed,
            }
        })
}

fn comp_spec() -> impl Strategy<Value = CompSpec> {
    (
        any::<u32>(),
        prop_oneof![2 => -100i16..=100, 1 => -1000i16..1000],
        prop_oneof![2 => -100i16..=100, 1 => -1000i16..1000],
        proptest::option::weighted(0.12, (any::<u32>(), any::<u32>())),
        any::<bool>(),
        any::<bool>(),
        (proptest::bool::weighted(0.2), proptest::option::weighted(0.3, transform_spec()), proptest::bool::weighted(0.35)),
    )
        .prop_map(|(target, dx, dy, anchor, force_words, round, (empty, transform, scaled_offset))| CompSpec { target, dx, dy, anchor, force_words, round, empty, transform, scaled_offset })
}

fn transform_spec() -> impl Strategy<Value = TransformSpec> {
    // quarters: mostly positive (1/4 .. 7/4, 4 = identity), sometimes a reflection, -8 = -2.0
    fn q() -> impl Strategy<Value = i8> {
        prop_oneof![
            4 => proptest::sample::select(vec![2i8, 4, 6, 3, 5, 7, 1]),
            1 => proptest::sample::select(vec![-4i8, -2, -6, -8]),
        ]
    }
    prop_oneof![
        2 => q().prop_map(TransformSpec::Scale),
        2 => (q(), q()).prop_map(|(a, d)| TransformSpec::XY(a, d)),
        1 => (q(), q()).prop_map(|(a, d)| TransformSpec::Matrix(a, 0, 0, d)),
        // shear / rotation: at least one off-diagonal term
        4 => (q(), -4i8..=4, -4i8..=4, q(), any::<bool>()).prop_map(|(a, b, c, d, which)| {
            let (b, c) = if b == 0 && c == 0 { if which { (2, 0) } else { (0, -2) } } else { (b, c) };
            TransformSpec::Matrix(a, b, c, d)
        }),
    ]
}

fn shape_spec() -> impl Strategy<Value = ShapeSpec> {
    prop_oneof![
        1 => Just(ShapeSpec::Empty),
        8 => proptest::collection::vec(contour(), 1..=3).prop_map(ShapeSpec::Simple),
        1 => (proptest::sample::select(vec![70u16, 130, 200, 300]), 1u8..=4, any::<u32>()).prop_map(|(n, contours, seed)| ShapeSpec::Big { n, contours, seed }),
        3 => proptest::collection::vec(comp_spec(), 1..=3).prop_map(ShapeSpec::Composite),
    ]
}

fn glyph_spec() -> impl Strategy<Value = GlyphSpec> {
    (
        shape_spec(),
        200u16..1200,
        prop_oneof![3 => Just(0i16), 1 => -60i16..60],
        proptest::collection::vec(tuple_spec(), 0..=4),
        proptest::option::weighted(
            0.6,
            (proptest::bool::weighted(0.2), proptest::collection::vec(proptest::bool::weighted(0.45), 22), proptest::collection::vec(proptest::bool::weighted(0.3), 4))
                .prop_map(|(all, mask, phantom_mask)| SharedSpec { all, mask, phantom_mask }),
        ),
        prop_oneof![4 => Just(0u8), 1 => 1u8..5],
    )
        .prop_map(|(shape, advance, pp1, tuples, shared, data_gap)| GlyphSpec { shape, advance, pp1, tuples, shared, data_gap })
}

fn axis_spec() -> impl Strategy<Value = AxisSpec> {
    (
        prop_oneof![2 => Just(0i16), 2 => Just(400i16), 1 => -200i16..900],
        prop_oneof![1 => Just(0u16), 4 => 1u16..600],
        prop_oneof![1 => Just(0u16), 6 => 1u16..600],
        proptest::collection::vec((1i16..16384, 0i16..=16384), 0..3),
        proptest::bool::weighted(0.3),
    )
        .prop_map(|(default_units, below, above, avar, wght)| AxisSpec { default_units, below, above, avar, wght })
}

fn hvar_spec() -> impl Strategy<Value = HvarSpec> {
    (
        (any::<bool>(), proptest::bool::weighted(0.35), 1u8..=4, 0u8..4, proptest::bool::weighted(0.3)),
        (1u8..=3, any::<bool>(), proptest::bool::weighted(0.12), 0u8..3, any::<u32>()),
    )
        .prop_map(|((mapped, lsb_map, entry_size, extra_inner_bits, format1), (subtables, truncate, long_words, extra_words, seed))| HvarSpec {
            mapped,
            lsb_map,
            entry_size,
            extra_inner_bits,
            format1,
            subtables,
            truncate,
            long_words,
            extra_words,
            seed,
        })
}

const MVAR_TAGS: [&[u8; 4]; 26] = [
    b"hasc", b"hdsc", b"hlgp", b"hcla", b"hcld", b"xhgt", b"cpht", b"unds", b"undo", b"stro", b"strs", b"sbxs", b"sbys", b"sbxo",
    b"sbyo", b"spxs", b"spys", b"spxo", b"spyo", b"hcrs", b"hcrn", b"hcof", b"gsp0", b"zzzz", b"vasc", b"AAAA",
];

fn mvar_spec() -> impl Strategy<Value = MvarSpec> {
    (
        proptest::collection::vec(0u8..MVAR_TAGS.len() as u8, 1..=6),
        proptest::collection::vec(proptest::collection::vec(axis_reg(), 3), 1..=3),
        proptest::collection::vec(proptest::collection::vec(prop_oneof![3 => -100i16..=100, 1 => -300i16..=300], 3), 6),
        prop_oneof![3 => Just(0u8), 1 => 1u8..6],
        1u8..=2,
        proptest::bool::weighted(0.1),
    )
        .prop_map(|(tags, regions, deltas, record_extra, subtables, long_words)| MvarSpec { tags, regions, deltas, record_extra, subtables, long_words })
}

fn shared_spec() -> impl Strategy<Value = SharedSpec> {
    (proptest::bool::weighted(0.2), proptest::collection::vec(proptest::bool::weighted(0.45), 22), proptest::collection::vec(proptest::bool::weighted(0.3), 4))
        .prop_map(|(all, mask, phantom_mask)| SharedSpec { all, mask, phantom_mask })
}

fn cvar_spec() -> impl Strategy<Value = CvarSpec> {
    (1u8..60, any::<u32>(), proptest::collection::vec(tuple_spec(), 0..=3), proptest::option::weighted(0.5, shared_spec()))
        .prop_map(|(n_cvts, seed, tuples, shared)| CvarSpec { n_cvts, seed, tuples, shared })
}

fn coord_spec() -> impl Strategy<Value = CoordSpec> {
    (
        prop_oneof![
            1 => Just(0u8), // default
            1 => Just(1u8), // min
            1 => Just(2u8), // max
            5 => Just(3u8), // a region start/peak/end of the font, mapped back to user space
            2 => Just(4u8), // the same ± raw units
            4 => Just(5u8), // random inside
            1 => Just(6u8), // outside
            2 => Just(7u8), // palette of normalised values
        ],
        any::<u32>(),
        prop_oneof![Just(-1i8), Just(1i8), Just(2i8), Just(-3i8)],
    )
        .prop_map(|(kind, r, off)| CoordSpec { kind, r, off })
}

pub fn case_strategy() -> impl Strategy<Value = Case> {
    case_strategy_axes(3)
}

/// As `case_strategy`, with 1..=`max_axes` axes.
fn case_strategy_axes(max_axes: usize) -> impl Strategy<Value = Case> {
    (
        proptest::collection::vec(axis_spec(), 1..=max_axes),
        proptest::bool::weighted(0.3),
        proptest::collection::vec(glyph_spec(), 1..=5),
        proptest::option::weighted(0.5, hvar_spec()),
        (proptest::option::weighted(0.4, mvar_spec()), proptest::option::weighted(0.25, cvar_spec())),
        proptest::collection::vec(proptest::collection::vec(coord_spec(), 3), 5),
        (any::<bool>(), any::<bool>(), proptest::bool::weighted(0.3), 0u8..3, any::<u64>(), proptest::bool::weighted(0.1), metric_spec()),
    )
        .prop_map(|(axes, with_avar, glyphs, hvar, (mvar, cvar), coords, (long_gvar, long_loca, short_hmtx, extra_shared_tuples, enc_seed, invalid_regions, metric))| Case {
            axes,
            with_avar,
            glyphs,
            hvar,
            mvar,
            cvar,
            coords,
            long_gvar,
            long_loca,
            short_hmtx,
            metric,
            extra_shared_tuples,
            enc_seed,
            invalid_regions,
        })
}

// ------------------------------------------------------------------ model resolution

#[derive(Clone, Debug, PartialEq)]
enum Kind {
    Empty,
    Simple,
    Composite,
}

#[derive(Clone, Debug)]
struct GlyphModel {
    kind: Kind,
    /// simple: the points; composite/empty: empty
    coords: Vec<(i16, i16)>,
    on: Vec<bool>,
    /// inclusive end index per contour
    ends: Vec<usize>,
    comps: Vec<ComponentEnc>,
    /// raw 2.14 transform words per component
    transforms: Vec<Vec<i16>>,
    /// points of a simple glyph / components of a composite
    n_points: usize,
    tuples: Vec<TupleVar>,
    enc: GlyphVarEnc,
    advance: u16,
    lsb: i16,
    /// header bounding box of the source record
    bbox: (i16, i16, i16, i16),
    record: Vec<u8>,
    big: bool,
}

/// The points of a source glyph with its components (offsets or anchor points, 2.14 transforms,
/// scaled offsets of diagonal transforms) composed.
fn flat_points(glyphs: &[GlyphModel], gid: usize, depth: usize) -> Vec<(f64, f64)> {
    let g = match glyphs.get(gid) {
        Some(g) if depth <= 4 => g,
        _ => return Vec::new(),
    };
    match g.kind {
        Kind::Composite => {
            let mut acc: Vec<(f64, f64)> = Vec::new();
            for c in &g.comps {
                let m = matrix_of(&c.transform);
                let child: Vec<(f64, f64)> = flat_points(glyphs, c.glyph as usize, depth + 1).iter().map(|p| apply_matrix(m, *p)).collect();
                let off = match c.args {
                    CompArgs::Offset(x, y) if c.scaled_offset => (m.0 * x as f64, m.3 * y as f64),
                    CompArgs::Offset(x, y) => (x as f64, y as f64),
                    CompArgs::Points(p, q) => match (acc.get(p as usize), child.get(q as usize)) {
                        (Some(a), Some(b)) => (a.0 - b.0, a.1 - b.1),
                        _ => (0.0, 0.0),
                    },
                };
                acc.extend(child.iter().map(|p| (p.0 + off.0, p.1 + off.1)));
            }
            acc
        }
        _ => g.coords.iter().map(|p| (p.0 as f64, p.1 as f64)).collect(),
    }
}

/// (a, b, c, d) of x' = a·x + c·y, y' = b·x + d·y from the 2.14 words of a component record
/// (file order xscale, scale01, scale10, yscale).
fn matrix_of(words: &[i16]) -> (f64, f64, f64, f64) {
    let f = |v: i16| v as f64 / 16384.0;
    match words.len() {
        1 => (f(words[0]), 0.0, 0.0, f(words[0])),
        2 => (f(words[0]), 0.0, 0.0, f(words[1])),
        4 => (f(words[0]), f(words[1]), f(words[2]), f(words[3])),
        _ => (1.0, 0.0, 0.0, 1.0),
    }
}

fn apply_matrix(m: (f64, f64, f64, f64), p: (f64, f64)) -> (f64, f64) {
    (m.0 * p.0 + m.2 * p.1, m.1 * p.0 + m.3 * p.1)
}

/// Header box of a source composite: the extremes of its composed points, rounded to the nearest
/// unit (what a font compiler writes; exact for composites without transforms).
fn source_box(points: &[(f64, f64)]) -> (i16, i16, i16, i16) {
    let b = bbox_of(points).expect("composite with points");
    (b.0.round() as i16, b.1.round() as i16, b.2.round() as i16, b.3.round() as i16)
}

/// What the oracle knows about a variable font (generated, or decoded from a fixture).
struct Model {
    glyphs: Vec<GlyphModel>,
    hvar: Option<HvarModel>,
    /// the HVAR advance deltas equal the gvar phantom point deltas by construction
    hvar_consistent: bool,
    hvar_lsb_mapped: bool,
    mvar: Option<(Vec<([u8; 4], u16, u16)>, IvsModel)>,
    /// cvt values and the cvar tuple variations (deltas in .0)
    cvt: Option<(Vec<i16>, Vec<TupleVar>)>,
}

struct Built {
    font: Vec<u8>,
    /// user tuples (raw 16.16) tested in addition to those of the case
    extra_users: Vec<Vec<i32>>,
    /// effective metric mode and long metric count of the source
    metric_mode: u8,
    num_h_metrics: u16,
    model: Model,
    axes: Vec<AxisModel>,
    stats: EncStats,
    all_regions: Vec<Region>,
    /// what the extension section added (None for the `model` section)
    ext: Option<ExtBuilt>,
}

fn resolve_region(spec: &[AxisRegSpec], n_axes: usize, allow_invalid: bool) -> Region {
    // (the specs carry three axis entries; a fourth axis — extension section — reuses the first)
    let mut r: Region = (0..n_axes)
        .map(|i| &spec[i % spec.len()])
        .map(|a| match a {
            AxisRegSpec::Invalid(s, p, e) if allow_invalid => AxisRegion { start: *s, peak: *p, end: *e },
            AxisRegSpec::Invalid(_, p, _) => implied_axis_region(*p),
            AxisRegSpec::Zero(false) => AxisRegion { start: 0, peak: 0, end: 0 },
            AxisRegSpec::Zero(true) => AxisRegion { start: -16384, peak: 0, end: 16384 },
            AxisRegSpec::Peak(p) => implied_axis_region(*p),
            AxisRegSpec::Inter(s, p, e) => AxisRegion { start: *s, peak: *p, end: *e },
        })
        .collect();
    // a region whose peaks are all zero would apply (scalar 1) at the default location too:
    // such data is not a variation of the default master. Excluded by construction.
    if r.iter().all(|a| a.peak == 0) {
        r[0] = implied_axis_region(16384);
    }
    // an invalid axis counts as "ignored" (scalar 1) per the specification: the same exclusion
    // applies, some *valid* axis must have a non-zero peak
    if !r.iter().any(|a| a.peak != 0 && !axis_region_invalid(*a)) {
        for a in r.iter_mut() {
            if axis_region_invalid(*a) {
                *a = implied_axis_region(a.peak);
            }
        }
    }
    // "wide" zero axes only exist with explicit start/end tuples; keep them only if some
    // other axis makes the tuple intermediate anyway, otherwise they would force the flag —
    // that is still legal, so leave as is.
    r
}

fn big_points(n: usize, contours: usize, seed: u32) -> (Vec<Vec<Pt>>, usize) {
    let c = contours.max(1).min(n);
    let mut out = Vec::new();
    let mut i = 0usize;
    for k in 0..c {
        let len = if k + 1 == c { n - i } else { n / c };
        let mut v = Vec::new();
        for j in 0..len {
            let h = mix64(((seed as u64) << 20) ^ (i + j) as u64);
            v.push((((h % 21) as i16) * 50, (((h >> 8) % 21) as i16) * 50, (h >> 16) & 3 != 0));
        }
        i += len;
        out.push(v);
    }
    (out, n)
}

fn mask_at(mask: &[bool], seed: u32, i: usize) -> bool {
    let base = mask[i % mask.len()];
    if i < mask.len() {
        base
    } else {
        base ^ (mix64(((seed as u64) << 24) ^ (i / mask.len()) as u64 ^ 0x55) & 3 == 0)
    }
}

fn delta_at(deltas: &[(i16, i16)], seed: u32, i: usize) -> (i16, i16) {
    let base = deltas[i % deltas.len()];
    if i < deltas.len() {
        return base;
    }
    let h = mix64(((seed as u64) << 24) ^ i as u64);
    match h & 3 {
        0 => (0, 0),
        1 => base,
        2 => (base.0, 0),
        _ => (base.0.wrapping_add(((h >> 8) % 41) as i16 - 20), base.1.wrapping_sub(((h >> 16) % 41) as i16 - 20)),
    }
}

fn subset(mask: &[bool], phantom_mask: &[bool], seed: u32, n: usize) -> Vec<u16> {
    let mut v: Vec<u16> = (0..n).filter(|i| mask_at(mask, seed, *i)).map(|i| i as u16).collect();
    for k in 0..4 {
        if phantom_mask[k] {
            v.push((n + k) as u16);
        }
    }
    if v.is_empty() {
        v.push(0);
    }
    v
}

/// fvar axis records plus the fvar table and (if wanted) a valid avar table for the axis specs.
fn axes_tables(specs: &[AxisSpec], with_avar: bool) -> (Vec<AxisModel>, Vec<u8>, Option<Vec<u8>>) {
    let axes: Vec<AxisModel> = specs
        .iter()
        .enumerate()
        .map(|(i, a)| {
            let d = (a.default_units as i32) << 16;
            AxisModel {
                tag: if a.wght && i == 0 { *b"wght" } else { [b'A', b'X', b'0', b'0' + i as u8] },
                min: d - ((a.below as i32) << 16),
                default: d,
                max: d + ((a.above as i32) << 16),
                flags: 0,
                name_id: 256 + i as u16,
            }
        })
        .collect();
    let fvar = fvar_table(&axes, &[], 0);
    let avar = if with_avar {
        let maps: Vec<Vec<(i16, i16)>> = specs
            .iter()
            .map(|a| {
                // valid per spec: from strictly increasing, to non-decreasing, -1→-1, 0→0, 1→1
                let mut m = vec![(-16384i16, -16384i16), (0, 0), (16384, 16384)];
                let mut ks: Vec<(i16, i16)> = a.avar.clone();
                ks.sort();
                ks.dedup_by_key(|k| k.0);
                let mut tos: Vec<i16> = ks.iter().map(|k| k.1).collect();
                tos.sort();
                for (i, k) in ks.iter().enumerate() {
                    if k.0 < 16384 {
                        if i % 2 == 0 {
                            m.push((k.0, tos[i]));
                        } else {
                            m.push((-k.0, -tos[i]));
                        }
                    }
                }
                m.sort();
                m.dedup_by_key(|k| k.0);
                for i in 1..m.len() {
                    if m[i].1 < m[i - 1].1 {
                        m[i].1 = m[i - 1].1;
                    }
                }
                let z = m.iter().position(|k| k.0 == 0).unwrap();
                for (i, k) in m.iter_mut().enumerate() {
                    if i < z {
                        k.1 = k.1.min(0);
                    } else if i == z {
                        k.1 = 0;
                    } else {
                        k.1 = k.1.max(0);
                    }
                }
                let last = m.len() - 1;
                m[0].1 = -16384;
                m[last].1 = 16384;
                for i in 1..m.len() {
                    if m[i].1 < m[i - 1].1 {
                        m[i].1 = m[i - 1].1;
                    }
                }
                m
            })
            .collect();
        Some(avar_table(&maps))
    } else {
        None
    };

    (axes, fvar, avar)
}

/// Encode an HVAR table from per-glyph advance delta rows (one delta per region), following
/// the free encoding choices of `h`; returns the table and the model it was built from.
fn encode_hvar(h: &HvarSpec, n_axes: usize, regions: &[Region], adv_rows: &[Vec<i32>]) -> (Vec<u8>, HvarModel) {
    let nr = regions.len();
    let n_glyphs = adv_rows.len();
        let all_cols: Vec<u16> = {
            // a permutation of the region indexes
            let mut v: Vec<u16> = (0..nr as u16).collect();
            let mut c2 = Choices::new(h.seed as u64);
            for i in (1..v.len()).rev() {
                v.swap(i, c2.below(i + 1));
            }
            v
        };
        let project = |rows: &[Vec<i32>], cols: &[u16]| -> Vec<Vec<i32>> { rows.iter().map(|r| cols.iter().map(|c| r[*c as usize]).collect()).collect() };
        let mut subs: Vec<IvdEnc> = Vec::new();
        let mut adv_entries: Vec<(u16, u16)> = Vec::new();
        if !h.mapped {
            subs.push(IvdEnc::normalise(all_cols.clone(), project(&adv_rows, &all_cols), h.long_words, h.extra_words as usize));
        } else {
            let k = (h.subtables as usize).min(n_glyphs).max(1);
            let mut groups: Vec<Vec<usize>> = vec![Vec::new(); k];
            for g in 0..n_glyphs {
                groups[(mix64(h.seed as u64 ^ (g as u64) << 8) % k as u64) as usize].push(g);
            }
            adv_entries = vec![(0, 0); n_glyphs];
            for grp in groups.iter().filter(|g| !g.is_empty()) {
                let cols: Vec<u16> = if h.seed & 2 == 0 {
                    all_cols.clone()
                } else {
                    all_cols.iter().copied().filter(|c| grp.iter().any(|g| adv_rows[*g][*c as usize] != 0)).collect()
                };
                // identical rows are stored once
                let mut rows: Vec<Vec<i32>> = Vec::new();
                for g in grp {
                    let r: Vec<i32> = cols.iter().map(|c| adv_rows[*g][*c as usize]).collect();
                    let ix = match rows.iter().position(|x| *x == r) {
                        Some(ix) if h.seed & 4 == 0 => ix,
                        _ => {
                            rows.push(r);
                            rows.len() - 1
                        }
                    };
                    adv_entries[*g] = (subs.len() as u16, ix as u16);
                }
                subs.push(IvdEnc::normalise(cols, rows, h.long_words, h.extra_words as usize));
            }
        }
        let mut lsb_entries: Vec<(u16, u16)> = Vec::new();
        if h.lsb_map {
            let rows: Vec<Vec<i32>> = (0..n_glyphs)
                .map(|g| (0..nr).map(|r| (mix64(h.seed as u64 ^ ((g * 31 + r) as u64) << 12) % 81) as i32 - 40).collect())
                .collect();
            lsb_entries = (0..n_glyphs).map(|g| (subs.len() as u16, g as u16)).collect();
            subs.push(IvdEnc::normalise(all_cols.clone(), project(&rows, &all_cols), false, 0));
        }
        let ivs_model = IvsModel { regions: regions.to_vec(), subtables: subs.iter().map(|s| (s.region_indexes.clone(), s.rows.clone())).collect() };
        let ivs = item_variation_store(n_axes, regions, &subs);
        let enc_map = |entries: &[(u16, u16)], truncate: bool| -> (Vec<u8>, Vec<(u16, u16)>) {
            let mut e = entries.to_vec();
            if truncate {
                while e.len() >= 2 && e[e.len() - 1] == e[e.len() - 2] {
                    e.pop();
                }
            }
            let (ib, _) = min_map_format(&e);
            let ib = (ib + h.extra_inner_bits).min(16);
            let max_outer = e.iter().map(|x| x.0).max().unwrap_or(0) as u32;
            let ob = 32 - max_outer.leading_zeros();
            let need = ((ib as u32 + ob + 7) / 8).max(1) as u8;
            let size = need.max(h.entry_size).min(4);
            (delta_set_index_map(&e, ib, size, if h.format1 { 1 } else { 0 }), e)
        };
        let adv = if h.mapped { Some(enc_map(&adv_entries, h.truncate)) } else { None };
        let lsb = if h.lsb_map { Some(enc_map(&lsb_entries, false)) } else { None };
        let bytes = hvar_table(&ivs, adv.as_ref().map(|m| m.0.as_slice()), lsb.as_ref().map(|m| m.0.as_slice()), None);
        let model = HvarModel { ivs: ivs_model, adv_map: adv.map(|m| m.1), lsb_map: lsb.map(|m| m.1) };
        // self-check of the encoder/decoder pair (both mine)
        let dec = decode_hvar(&bytes).expect("own HVAR decodes");
        assert_eq!(dec.ivs, model.ivs, "HVAR store round trip");
        assert_eq!(dec.adv_map, model.adv_map, "HVAR advance map round trip");
        assert_eq!(dec.lsb_map, model.lsb_map, "HVAR lsb map round trip");
        (bytes, model)
}

/// Encode an MVAR table for the spec; returns the table, the model (records + store) and the
/// regions used.
fn encode_mvar(m: &MvarSpec, n_axes: usize, allow_invalid: bool) -> (Vec<u8>, (Vec<([u8; 4], u16, u16)>, IvsModel), Vec<Region>) {
        let mut regions: Vec<Region> = Vec::new();
        for r in &m.regions {
            let reg = resolve_region(r, n_axes, allow_invalid);
            if !regions.contains(&reg) {
                regions.push(reg);
            }
        }
        let mut tags: Vec<[u8; 4]> = Vec::new();
        for t in &m.tags {
            let tag = *MVAR_TAGS[*t as usize];
            if !tags.contains(&tag) {
                tags.push(tag);
            }
        }
        let k = (m.subtables as usize).max(1);
        let cols: Vec<u16> = (0..regions.len() as u16).collect();
        let mut rows: Vec<Vec<Vec<i32>>> = vec![Vec::new(); k];
        let mut recs: Vec<([u8; 4], u16, u16)> = Vec::new();
        for (i, tag) in tags.iter().enumerate() {
            let sub = i % k;
            let row: Vec<i32> = (0..regions.len()).map(|r| m.deltas[i % m.deltas.len()][r % 3] as i32).collect();
            recs.push((*tag, sub as u16, rows[sub].len() as u16));
            rows[sub].push(row);
        }
        let subs: Vec<IvdEnc> = rows.into_iter().map(|r| IvdEnc::normalise(cols.clone(), r, m.long_words, 0)).collect();
        let ivs_model = IvsModel { regions: regions.clone(), subtables: subs.iter().map(|s| (s.region_indexes.clone(), s.rows.clone())).collect() };
        let ivs = item_variation_store(n_axes, &regions, &subs);
        let bytes = mvar_table(&recs, 8 + m.record_extra as u16 * 2, Some(&ivs));
        let (drecs, divs) = decode_mvar(&bytes).expect("own MVAR decodes");
        let mut sorted = recs.clone();
        sorted.sort();
        assert_eq!(drecs, sorted, "MVAR records round trip");
        assert_eq!(divs.as_ref(), Some(&ivs_model), "MVAR store round trip");
        (bytes, (recs, ivs_model), regions)
}

fn build(case: &Case) -> Built {
    build_ext(case, None)
}

/// `build` with the additions of the extension section (`ext`): vertical metrics, STAT, named
/// instances, an OS/2 table of any version, a richer MVAR, ... With `None` the font is exactly
/// the one the `model` section (and C09) has always used.
fn build_ext(case: &Case, ext: Option<&ExtSpec>) -> Built {
    let n_axes = case.axes.len();
    let mut ch = Choices::new(case.enc_seed);
    let mut stats = EncStats::default();

    // ---- shapes, pass 1: simple / empty
    let mut glyphs: Vec<GlyphModel> = Vec::new();
    for g in &case.glyphs {
        let (contours, big) = match &g.shape {
            ShapeSpec::Simple(c) => (c.clone(), false),
            ShapeSpec::Big { n, contours, seed } => (big_points(*n as usize, *contours as usize, *seed).0, true),
            _ => (Vec::new(), false),
        };
        let contours: Vec<Vec<Pt>> = contours.into_iter().filter(|c| !c.is_empty()).collect();
        let sg = SimpleGlyph { contours: contours.clone(), instructions: if big { vec![] } else { vec![0xB0, 0x01] } };
        let flat: Vec<Pt> = contours.iter().flatten().copied().collect();
        let mut ends = Vec::new();
        let mut e = 0usize;
        for c in &contours {
            e += c.len();
            ends.push(e - 1);
        }
        let kind = if flat.is_empty() { Kind::Empty } else { Kind::Simple };
        let is_comp = matches!(g.shape, ShapeSpec::Composite(_));
        glyphs.push(GlyphModel {
            kind: if is_comp { Kind::Composite } else { kind },
            coords: flat.iter().map(|p| (p.0, p.1)).collect(),
            on: flat.iter().map(|p| p.2).collect(),
            ends,
            comps: Vec::new(),
            transforms: Vec::new(),
            n_points: flat.len(),
            tuples: Vec::new(),
            enc: GlyphVarEnc::default(),
            advance: g.advance,
            lsb: 0,
            bbox: if flat.is_empty() { (0, 0, 0, 0) } else { sg.bbox() },
            record: if flat.is_empty() { Vec::new() } else { glyf_simple(&sg) },
            big,
        });
    }
    // ---- shapes, pass 2: composites of simple glyphs (one level); a component may also refer to
    // a glyph without contours, as long as the composite keeps a component with points
    let simple_ids: Vec<usize> = (0..glyphs.len()).filter(|i| glyphs[*i].kind == Kind::Simple && !glyphs[*i].big).collect();
    let empty_ids: Vec<usize> = (0..glyphs.len()).filter(|i| glyphs[*i].kind == Kind::Empty).collect();
    for (gi, g) in case.glyphs.iter().enumerate() {
        if let ShapeSpec::Composite(cs) = &g.shape {
            if simple_ids.is_empty() {
                glyphs[gi].kind = Kind::Empty;
                continue;
            }
            let mut comps: Vec<ComponentEnc> = Vec::new();
            let mut acc: Vec<(f64, f64)> = Vec::new();
            for (ci, c) in cs.iter().enumerate() {
                if c.empty && !empty_ids.is_empty() && !(ci + 1 == cs.len() && acc.is_empty()) {
                    // a glyph without contours has no points to match and nothing to transform
                    let target = empty_ids[pick(empty_ids.len(), c.target)];
                    comps.push(ComponentEnc { glyph: target as u16, args: CompArgs::Offset(c.dx, c.dy), force_words: c.force_words, round_to_grid: c.round, transform: Vec::new(), scaled_offset: false });
                    continue;
                }
                let target = simple_ids[pick(simple_ids.len(), c.target)];
                let anchored = c.anchor.is_some() && !acc.is_empty();
                let tr = c.transform.as_ref().filter(|_| !anchored);
                let words = tr.map(|t| t.words()).unwrap_or_default();
                let scaled_offset = c.scaled_offset && tr.map_or(false, |t| t.positive_diagonal());
                let m = matrix_of(&words);
                let child: Vec<(f64, f64)> = glyphs[target].coords.iter().map(|p| apply_matrix(m, (p.0 as f64, p.1 as f64))).collect();
                let (args, off) = match c.anchor {
                    Some((a, b)) if anchored => {
                        let p = pick(acc.len(), a);
                        let q = pick(child.len(), b);
                        (CompArgs::Points(p as u16, q as u16), (acc[p].0 - child[q].0, acc[p].1 - child[q].1))
                    }
                    _ if scaled_offset => (CompArgs::Offset(c.dx, c.dy), (m.0 * c.dx as f64, m.3 * c.dy as f64)),
                    _ => (CompArgs::Offset(c.dx, c.dy), (c.dx as f64, c.dy as f64)),
                };
                acc.extend(child.iter().map(|p| (p.0 + off.0, p.1 + off.1)));
                comps.push(ComponentEnc { glyph: target as u16, args, force_words: c.force_words, round_to_grid: c.round, transform: words, scaled_offset });
            }
            let bbox = source_box(&acc);
            let m = &mut glyphs[gi];
            m.n_points = comps.len();
            m.record = glyf_composite(bbox, &comps);
            m.transforms = comps.iter().map(|c| c.transform.clone()).collect();
            m.comps = comps;
            m.bbox = bbox;
        }
    }
    // ---- shapes, pass 3: nesting. A composite whose components are all placed by offsets may
    // get one more component that is itself a (one-level) composite, with a lower or a higher
    // glyph id; inner composites never become outer ones, so there is no cycle.
    {
        let composite_ids: Vec<usize> = (0..glyphs.len()).filter(|i| glyphs[*i].kind == Kind::Composite && !glyphs[*i].comps.is_empty()).collect();
        let mut inner: Vec<usize> = Vec::new();
        let mut outer: Vec<usize> = Vec::new();
        for &gi in &composite_ids {
            let cs = match &case.glyphs[gi].shape {
                ShapeSpec::Composite(cs) if !cs.is_empty() => cs,
                _ => continue,
            };
            let wants = cs[0].target & 1 == 1 && glyphs[gi].comps.iter().all(|c| matches!(c.args, CompArgs::Offset(..))) && !inner.contains(&gi);
            let cands: Vec<usize> = composite_ids.iter().copied().filter(|j| *j != gi && !outer.contains(j)).collect();
            if !wants || cands.is_empty() {
                continue;
            }
            let gj = cands[pick(cands.len(), cs[0].target.rotate_left(11))];
            let (dx, dy) = (cs[0].dy / 2, cs[0].dx / 2);
            let child = flat_points(&glyphs, gj, 0);
            let mut acc = flat_points(&glyphs, gi, 0);
            acc.extend(child.iter().map(|p| (p.0 + dx as f64, p.1 + dy as f64)));
            if acc.iter().any(|p| p.0.abs() > 30_000.0 || p.1.abs() > 30_000.0) {
                continue;
            }
            let m = &mut glyphs[gi];
            m.comps.push(ComponentEnc { glyph: gj as u16, args: CompArgs::Offset(dx, dy), force_words: cs[0].force_words, round_to_grid: false, transform: Vec::new(), scaled_offset: false });
            m.transforms.push(Vec::new());
            m.bbox = source_box(&acc);
            m.n_points = m.comps.len();
            m.record = glyf_composite(m.bbox, &m.comps);
            inner.push(gj);
            outer.push(gi);
        }
    }
    // ---- extension: USE_MY_METRICS on one component of some composites
    let mut umm: Vec<(usize, usize)> = Vec::new();
    if let Some(x) = ext {
        for gi in 0..glyphs.len() {
            if glyphs[gi].kind == Kind::Composite && !glyphs[gi].comps.is_empty() && mix64(x.umm_seed as u64 ^ ((gi as u64) << 32)) % 3 == 0 {
                let ci = (mix64(x.umm_seed as u64 ^ 0x77 ^ ((gi as u64) << 20)) % glyphs[gi].comps.len() as u64) as usize;
                if or_component_flag(&mut glyphs[gi].record, ci, 0x0200) {
                    umm.push((gi, ci));
                }
            }
        }
    }
    // ---- metrics: lsb = xMin - pp1 (empty glyph: xMin counts as 0, lsb 0 as the spec asks)
    for (gi, g) in case.glyphs.iter().enumerate() {
        let m = &mut glyphs[gi];
        m.lsb = if m.kind == Kind::Empty { 0 } else { m.bbox.0 - g.pp1 };
    }
    // metric structure
    let ng = glyphs.len();
    let ms = &case.metric;
    let metric_mode = if ng >= 2 { ms.mode } else { 0 };
    let tail_k = match metric_mode {
        0 => 0,
        1 => ng,
        _ => 2 + (ms.k as usize % (ng - 1)),
    };
    let tail_start = ng - tail_k;
    // glyphs whose advance deltas are dictated by the metric structure
    let locked = |gi: usize| matches!(metric_mode, 1 | 2 | 4) && gi >= tail_start;
    let zero_tail = metric_mode == 2 && ms.zero;
    match metric_mode {
        1 | 2 | 3 => {
            let a = if zero_tail { 0 } else { glyphs[tail_start].advance };
            for g in glyphs[tail_start..].iter_mut() {
                g.advance = a;
            }
        }
        4 => {
            for (j, g) in glyphs[tail_start..].iter_mut().enumerate() {
                g.advance += 7 * j as u16;
            }
        }
        _ => {}
    }
    let mut num_h_metrics = ng as u16;
    if case.short_hmtx && ng >= 2 {
        match metric_mode {
            0 => {
                // trailing glyphs share the advance of the last long metric
                let a = glyphs[ng - 2].advance;
                glyphs[ng - 1].advance = a;
                num_h_metrics = (ng - 1) as u16;
            }
            1 | 2 | 3 => num_h_metrics = (ng - tail_k + 1) as u16,
            _ => {}
        }
    }
    let metric_region = resolve_region(&ms.region, n_axes, false);
    let metric_target = glyphs[tail_start..].iter().map(|g| g.advance).max().unwrap_or(0) as i32 + (ms.d2.unsigned_abs() % 60) as i32;

    // ---- tuple variations
    let mut all_regions: Vec<Region> = Vec::new();
    let mut shared_peak_pool: Vec<Vec<i16>> = Vec::new();
    for (gi, g) in case.glyphs.iter().enumerate() {
        let n = glyphs[gi].n_points;
        let n_total = n + 4;
        let shared_list: Option<Option<Vec<u16>>> = g.shared.as_ref().map(|s| if s.all { None } else { Some(subset(&s.mask, &s.phantom_mask, 0x5a5a, n)) });
        let mut enc = GlyphVarEnc { shared_points: None, tuples: Vec::new(), data_gap: g.data_gap as usize };
        let mut any_shared_use = false;
        for t in &g.tuples {
            let region = resolve_region(&t.axes, n_axes, case.invalid_regions);
            let (points, use_shared): (Option<Vec<u16>>, bool) = match (&t.mode, &shared_list) {
                (PointMode::Shared, Some(sl)) => (sl.clone(), true),
                (PointMode::All, _) => (None, false),
                _ => (Some(subset(&t.mask, &t.phantom_mask, t.seed, n)), false),
            };
            let deltas: Vec<(i16, i16)> = match &points {
                None => (0..n_total).map(|i| if i < n { delta_at(&t.deltas, t.seed, i) } else { t.phantom_deltas[i - n] }).collect(),
                Some(ps) => ps
                    .iter()
                    .map(|p| {
                        let i = *p as usize;
                        if i < n {
                            delta_at(&t.deltas, t.seed, i)
                        } else {
                            t.phantom_deltas[i - n]
                        }
                    })
                    .collect(),
            };
            let mut deltas = deltas;
            if ext.is_some() && glyphs[gi].big && t.seed & 3 == 0 {
                // extension: a long stretch of zero deltas (zero runs of the maximal length 64)
                let keep = if t.seed & 4 == 0 { 0 } else { 1 };
                for (j, d) in deltas.iter_mut().enumerate() {
                    let real = match &points {
                        None => j < n,
                        Some(ps) => (ps[j] as usize) < n,
                    };
                    if real {
                        if keep == 0 {
                            d.1 = 0;
                        } else {
                            d.0 = 0;
                        }
                    }
                }
            }
            if locked(gi) {
                // the advance of this glyph varies only through the shared metric tuple below
                match &points {
                    None => {
                        deltas[n].0 = 0;
                        deltas[n + 1].0 = 0;
                    }
                    Some(ps) => {
                        for (j, p) in ps.iter().enumerate() {
                            if *p as usize == n || *p as usize == n + 1 {
                                deltas[j].0 = 0;
                            }
                        }
                    }
                }
            }
            let var = TupleVar { region: region.clone(), points, deltas };
            if !all_regions.contains(&region) {
                all_regions.push(region.clone());
            }
            if t.share_peak {
                let peak: Vec<i16> = region.iter().map(|r| r.peak).collect();
                if !shared_peak_pool.contains(&peak) {
                    shared_peak_pool.push(peak);
                }
            }
            any_shared_use |= use_shared;
            enc.tuples.push(TupleEnc { var: var.clone(), intermediate: t.explicit_inter, share_peak: t.share_peak, use_shared_points: use_shared });
            glyphs[gi].tuples.push(var);
        }
        if locked(gi) {
            let d: Vec<(i16, i16)> = if metric_mode == 4 {
                vec![(0, 0), ((metric_target - glyphs[gi].advance as i32) as i16, 0)]
            } else if zero_tail {
                vec![(ms.d1, 0), (ms.d1, 0)]
            } else {
                vec![(ms.d1, 0), (ms.d2, 0)]
            };
            let var = TupleVar { region: metric_region.clone(), points: Some(vec![n as u16, (n + 1) as u16]), deltas: d };
            if !all_regions.contains(&metric_region) {
                all_regions.push(metric_region.clone());
            }
            enc.tuples.push(TupleEnc { var: var.clone(), intermediate: false, share_peak: false, use_shared_points: false });
            glyphs[gi].tuples.push(var);
        }
        // the shared point data is written when a tuple uses it, and sometimes although none does
        if any_shared_use || (shared_list.is_some() && !enc.tuples.is_empty() && ch.chance(1, 3)) {
            enc.shared_points = shared_list;
        }
        glyphs[gi].enc = enc;
    }
    // shared tuple array: the pooled peaks, some unused extras, shuffled a little
    for k in 0..case.extra_shared_tuples {
        let t: Vec<i16> = (0..n_axes).map(|a| if (k as usize + a) % 2 == 0 { 16384 } else { -8192 + k as i16 }).collect();
        if !shared_peak_pool.contains(&t) {
            let at = ch.below(shared_peak_pool.len() + 1);
            shared_peak_pool.insert(at, t);
        }
    }
    let encs: Vec<GlyphVarEnc> = glyphs.iter().map(|g| g.enc.clone()).collect();
    let gvar = gvar_table(n_axes, &encs, &shared_peak_pool, case.long_gvar, &mut ch, &mut stats);

    // ---- fvar / avar
    // (mode 4 needs the peak of the metric region to be hit exactly: no avar then)
    let (axes, fvar, avar) = axes_tables(&case.axes, case.with_avar && metric_mode != 4);
    let mut extra_users: Vec<Vec<i32>> = Vec::new();
    if metric_mode == 4 {
        extra_users.push(axes.iter().zip(metric_region.iter()).map(|(a, r)| user_from_norm(a, r.peak)).collect());
    }

    // ---- HVAR, consistent with the phantom point deltas of gvar
    let mut hvar_model = None;
    let mut hvar_bytes = None;
    let mut hvar_lsb_mapped = false;
    if let Some(h) = &case.hvar {
        let mut regions = all_regions.clone();
        if regions.is_empty() || h.seed & 1 == 1 {
            regions.push((0..n_axes).map(|a| implied_axis_region(if a == 0 { 16384 } else { 0 })).collect());
        }
        let nr = regions.len();
        let mut adv_rows: Vec<Vec<i32>> = Vec::new();
        for g in &glyphs {
            let mut row = vec![0i32; nr];
            for t in &g.tuples {
                let ri = regions.iter().position(|r| *r == t.region).unwrap();
                let get = |pn: usize| -> i32 {
                    match &t.points {
                        None => t.deltas[pn].0 as i32,
                        Some(ps) => ps.iter().position(|p| *p as usize == pn).map(|k| t.deltas[k].0 as i32).unwrap_or(0),
                    }
                };
                row[ri] += get(g.n_points + 1) - get(g.n_points);
            }
            adv_rows.push(row);
        }
        let (bytes, model) = encode_hvar(h, n_axes, &regions, &adv_rows);
        hvar_lsb_mapped = h.lsb_map;
        hvar_model = Some(model);
        hvar_bytes = Some(bytes);
    }

    // ---- MVAR
    let mut mvar_model = None;
    let mut mvar_bytes = None;
    if let Some(x) = ext.and_then(|x| x.mvar.as_ref()) {
        let (bytes, model, regions) = encode_mvar_ext(x, n_axes);
        for r in &regions {
            if !all_regions.contains(r) {
                all_regions.push(r.clone());
            }
        }
        mvar_model = Some(model);
        mvar_bytes = Some(bytes);
    } else if let Some(m) = case.mvar.as_ref().filter(|_| ext.is_none()) {
        let (bytes, model, regions) = encode_mvar(m, n_axes, case.invalid_regions);
        for r in &regions {
            if !all_regions.contains(r) {
                all_regions.push(r.clone());
            }
        }
        mvar_model = Some(model);
        mvar_bytes = Some(bytes);
    }

    // ---- cvt / cvar
    let mut cvt_model = None;
    let mut cvt_bytes = None;
    let mut cvar_bytes = None;
    if let Some(c) = &case.cvar {
        let n = c.n_cvts as usize;
        let vals: Vec<i16> = (0..n).map(|i| (mix64(((c.seed as u64) << 16) ^ i as u64) % 2001) as i16 - 1000).collect();
        let no_ph = [false; 4];
        let shared_list: Option<Option<Vec<u16>>> = c.shared.as_ref().map(|s| if s.all { None } else { Some(subset(&s.mask, &no_ph, 0x5a5a, n)) });
        let mut enc = GlyphVarEnc { shared_points: None, tuples: Vec::new(), data_gap: (c.seed % 3) as usize };
        let mut tvs = Vec::new();
        let mut any_shared = false;
        for t in &c.tuples {
            let region = resolve_region(&t.axes, n_axes, case.invalid_regions);
            let (points, use_shared): (Option<Vec<u16>>, bool) = match (&t.mode, &shared_list) {
                (PointMode::Shared, Some(sl)) => (sl.clone(), true),
                (PointMode::All, _) => (None, false),
                _ => (Some(subset(&t.mask, &no_ph, t.seed, n)), false),
            };
            let deltas: Vec<(i16, i16)> = match &points {
                None => (0..n).map(|i| (delta_at(&t.deltas, t.seed, i).0, 0)).collect(),
                Some(ps) => ps.iter().map(|p| (delta_at(&t.deltas, t.seed, *p as usize).0, 0)).collect(),
            };
            if !all_regions.contains(&region) {
                all_regions.push(region.clone());
            }
            let var = TupleVar { region, points, deltas };
            any_shared |= use_shared;
            enc.tuples.push(TupleEnc { var: var.clone(), intermediate: t.explicit_inter, share_peak: false, use_shared_points: use_shared });
            tvs.push(var);
        }
        if any_shared || (shared_list.is_some() && !enc.tuples.is_empty() && ch.chance(1, 3)) {
            enc.shared_points = shared_list;
        }
        cvt_bytes = Some(vals.iter().flat_map(|v| v.to_be_bytes()).collect::<Vec<u8>>());
        if !tvs.is_empty() {
            let bytes = cvar_table(n_axes, &enc, &mut ch, &mut stats);
            let dec = decode_cvar(&bytes, n_axes, n).expect("own cvar decodes");
            assert_eq!(dec, tvs, "cvar round trip");
            cvar_bytes = Some(bytes);
        }
        cvt_model = Some((vals, tvs));
    }

    // ---- the font
    let n = glyphs.len();
    let mut f = BasicFont::with_glyphs(n as u16);
    f.glyph_records = glyphs.iter().map(|g| g.record.clone()).collect();
    f.metrics = glyphs.iter().map(|g| (g.advance, g.lsb)).collect();
    f.num_h_metrics = num_h_metrics;
    f.long_loca = case.long_loca;
    f.cmap = BTreeMap::new();
    for g in 0..n.min(26) {
        f.cmap.insert(0x41 + g as u32, g as u16);
    }
    f.extra.push((*b"fvar", fvar));
    f.extra.push((*b"gvar", gvar.clone()));
    if let Some(a) = avar {
        f.extra.push((*b"avar", a));
    }
    if let Some(h) = hvar_bytes {
        f.extra.push((*b"HVAR", h));
    }
    if let Some(m) = mvar_bytes {
        f.extra.push((*b"MVAR", m));
    }
    if let Some(c) = cvt_bytes {
        f.extra.push((*b"cvt ", c));
    }
    if let Some(c) = cvar_bytes {
        f.extra.push((*b"cvar", c));
    }
    // self-check: my gvar decoder reads back the model from my encoder's bytes
    let np: Vec<usize> = glyphs.iter().map(|g| g.n_points).collect();
    let dec = decode_gvar(&gvar, &np).expect("own gvar decodes");
    for (g, d) in glyphs.iter().zip(dec.iter()) {
        assert_eq!(&g.tuples, d, "gvar round trip");
    }
    let ext_built = ext.map(|x| apply_ext(x, &mut f, &glyphs, &axes, &all_regions, num_h_metrics, umm, &mut extra_users));
    Built {
        ext: ext_built,
        font: f.build(),
        extra_users,
        metric_mode,
        num_h_metrics,
        model: Model { glyphs, hvar: hvar_model, hvar_consistent: true, hvar_lsb_mapped, mvar: mvar_model, cvt: cvt_model },
        axes,
        stats,
        all_regions,
    }
}

// ------------------------------------------------------------------ the check

fn fail(sig: &str, msg: String) -> Fail {
    Fail::new(format!("C12:{}", sig), msg)
}

/// user-space value (raw 16.16) whose default normalisation is the raw 2.14 value `n`
fn user_from_norm(ax: &AxisModel, n: i16) -> i32 {
    let (min, def, max) = (ax.min as i64, ax.default as i64, ax.max as i64);
    let v = if n < 0 { def + n as i64 * (def - min) / 16384 } else { def + n as i64 * (max - def) / 16384 };
    v.clamp(i32::MIN as i64, i32::MAX as i64) as i32
}

/// The user tuples a generated font is instanced at: the default, those of the case, and the
/// locations the metric structure asks for.
fn users_of(case: &Case, b: &Built) -> Vec<Vec<i32>> {
    let mut users: Vec<Vec<i32>> = vec![b.axes.iter().map(|a| a.default).collect()];
    for cs in &case.coords {
        users.push(b.axes.iter().enumerate().map(|(i, a)| user_value(&cs[i % cs.len()], a, i, &b.all_regions)).collect());
    }
    users.extend(b.extra_users.iter().cloned());
    users
}

fn user_value(spec: &CoordSpec, ax: &AxisModel, axis_index: usize, regions: &[Region]) -> i32 {
    let (min, def, max) = (ax.min as i64, ax.default as i64, ax.max as i64);
    let from_norm = |n: i64| -> i64 {
        if n < 0 {
            def + n * (def - min) / 16384
        } else {
            def + n * (max - def) / 16384
        }
    };
    let v: i64 = match spec.kind {
        0 => def,
        1 => min,
        2 => max,
        3 | 4 => {
            let mut vals: Vec<i16> = Vec::new();
            for r in regions {
                if let Some(a) = r.get(axis_index) {
                    vals.extend_from_slice(&[a.start, a.peak, a.end]);
                }
            }
            if vals.is_empty() {
                def
            } else {
                let n = vals[pick(vals.len(), spec.r)] as i64;
                from_norm(n) + if spec.kind == 4 { spec.off as i64 } else { 0 }
            }
        }
        5 => min + ((spec.r as u64 * ((max - min) as u64 + 1)) >> 32) as i64,
        6 => {
            if spec.r & 1 == 0 {
                max + 1 + (spec.r >> 8) as i64
            } else {
                min - 1 - (spec.r >> 8) as i64
            }
        }
        _ => {
            let pal = [-16384i64, -12288, -8192, -4096, -1, 1, 4096, 8192, 12288, 16384, 6000, -6000];
            from_norm(pal[pick(pal.len(), spec.r)])
        }
    };
    v.clamp(i32::MIN as i64, i32::MAX as i64) as i32
}

fn check_instance(b: &Model, src: &ParsedFont, src_fields: &[([u8; 4], i32)], out_bytes: &[u8], loc: &[i16], rec: &mut Rec, agg: &mut Agg) -> CaseResult {
    let at_default = loc.iter().all(|v| *v == 0);
    {
        // hmtx must have exactly the length the instance's own hhea / maxp require
        let nhm = find_table(out_bytes, b"hhea").and_then(|h| be16(h, 34)).unwrap_or(0) as usize;
        let n = find_table(out_bytes, b"maxp").and_then(|h| be16(h, 4)).unwrap_or(0) as usize;
        let len = find_table(out_bytes, b"hmtx").map(|h| h.len()).unwrap_or(0);
        if nhm > n || (nhm == 0 && n > 0) || len != 4 * nhm + 2 * (n - nhm.min(n)) {
            return Err(fail(
                "hmtx-length-vs-numberOfHMetrics",
                format!("at {:?}: the instance's hhea.numberOfHMetrics is {} and maxp.numGlyphs {} but its hmtx table has {} bytes ({} required)", loc, nhm, n, len, 4 * nhm + 2 * (n - nhm.min(n))),
            ));
        }
    }
    let out = read_font(out_bytes).map_err(|e| fail("output-unreadable", format!("instanced font not readable by the independent reader: {}", e)))?;
    // static: no variation tables
    for t in &out.tags {
        if &t[1..] == b"var" || &t[1..] == b"VAR" {
            return Err(fail("var-table-in-output", format!("output still contains table {:?}", String::from_utf8_lossy(t))));
        }
    }
    if out.glyphs.len() != b.glyphs.len() {
        return Err(fail("glyph-count", format!("{} glyphs in, {} out", b.glyphs.len(), out.glyphs.len())));
    }
    let mut evals = Vec::new();
    for (gi, g) in b.glyphs.iter().enumerate() {
        let ev = eval_glyph(g.n_points, &g.coords, &g.ends, &g.tuples, loc);
        let og = &out.glyphs[gi];
        let ctx = |what: &str| format!("glyph {} ({:?}, {} tuples) at {:?}: {}", gi, g.kind, g.tuples.len(), loc, what);
        match (&g.kind, &og.shape) {
            (Kind::Empty, OutShape::Empty) => {}
            (Kind::Simple, OutShape::Simple { ends, points, instructions }) => {
                let src_g = match &src.glyphs[gi].shape {
                    OutShape::Simple { instructions, .. } => instructions.clone(),
                    _ => Vec::new(),
                };
                if ends.iter().map(|e| *e as usize).collect::<Vec<_>>() != g.ends || points.len() != g.n_points {
                    return Err(fail("contour-structure", ctx(&format!("contour ends {:?} / {} points, source {:?} / {}", ends, points.len(), g.ends, g.n_points))));
                }
                if *instructions != src_g {
                    return Err(fail("instructions", ctx("instructions changed")));
                }
                for (i, p) in points.iter().enumerate() {
                    if p.2 != g.on[i] {
                        return Err(fail("on-curve-flag", ctx(&format!("point {} on-curve flag changed", i))));
                    }
                    let rx = g.coords[i].0 as f64 + ev.deltas[i].0;
                    let ry = g.coords[i].1 as f64 + ev.deltas[i].1;
                    let (ex, ey) = ((p.0 as f64 - rx).abs(), (p.1 as f64 - ry).abs());
                    if at_default && (p.0 != g.coords[i].0 || p.1 != g.coords[i].1) {
                        return Err(fail("default-outline", ctx(&format!("point {} is ({}, {}) in the default instance, source ({}, {})", i, p.0, p.1, g.coords[i].0, g.coords[i].1))));
                    }
                    if ex > TOL || ey > TOL {
                        return Err(fail(
                            "point",
                            ctx(&format!(
                                "point {} is ({}, {}), reference ({:.4}, {:.4}) = source ({}, {}) + ({:.4}, {:.4}); tuples {:?}; source contour ends {:?} coords {:?}",
                                i, p.0, p.1, rx, ry, g.coords[i].0, g.coords[i].1, ev.deltas[i].0, ev.deltas[i].1, g.tuples, g.ends,
                                if g.coords.len() <= 24 { format!("{:?}", g.coords) } else { format!("{} points", g.coords.len()) }
                            )),
                        ));
                    }
                }
                // header bbox = bbox of the written points
                let bb = bbox_of(&points.iter().map(|p| (p.0 as f64, p.1 as f64)).collect::<Vec<_>>()).unwrap();
                let hb = (og.bbox.0 as f64, og.bbox.1 as f64, og.bbox.2 as f64, og.bbox.3 as f64);
                if bb != hb {
                    return Err(fail("bbox-simple", ctx(&format!("header bbox {:?} but the points span {:?}", og.bbox, bb))));
                }
            }
            (Kind::Composite, OutShape::Composite { components, instructions }) => {
                let src_instr = match &src.glyphs[gi].shape {
                    OutShape::Composite { instructions, .. } => instructions.clone(),
                    _ => Vec::new(),
                };
                if components.len() != g.comps.len() {
                    return Err(fail("component-structure", ctx(&format!("{} components out, {} in", components.len(), g.comps.len()))));
                }
                if *instructions != src_instr {
                    return Err(fail("instructions", ctx("composite instructions changed")));
                }
                for (i, (oc, sc)) in components.iter().zip(g.comps.iter()).enumerate() {
                    let src_tr: &[i16] = g.transforms.get(i).map(|t| t.as_slice()).unwrap_or(&[]);
                    if oc.glyph != sc.glyph || oc.transform != src_tr {
                        return Err(fail("component-structure", ctx(&format!("component {} refers to glyph {} transform {:?} (source {} {:?})", i, oc.glyph, oc.transform, sc.glyph, src_tr))));
                    }
                    match sc.args {
                        CompArgs::Offset(x, y) => {
                            if !oc.xy {
                                return Err(fail("component-args-kind", ctx(&format!("component {} lost ARGS_ARE_XY_VALUES", i))));
                            }
                            let (rx, ry) = (x as f64 + ev.deltas[i].0, y as f64 + ev.deltas[i].1);
                            if at_default && (oc.arg1 != x as i32 || oc.arg2 != y as i32) {
                                return Err(fail("default-component-offset", ctx(&format!("component {} offset ({}, {}) in the default instance, source ({}, {})", i, oc.arg1, oc.arg2, x, y))));
                            }
                            if (oc.arg1 as f64 - rx).abs() > TOL || (oc.arg2 as f64 - ry).abs() > TOL {
                                return Err(fail(
                                    "component-offset",
                                    ctx(&format!("component {} offset ({}, {}), reference ({:.4}, {:.4}); tuples {:?}", i, oc.arg1, oc.arg2, rx, ry, g.tuples)),
                                ));
                            }
                        }
                        CompArgs::Points(p, q) => {
                            if oc.xy || oc.arg1 != p as i32 || oc.arg2 != q as i32 {
                                return Err(fail(
                                    "component-anchor-args",
                                    ctx(&format!("component {} is attached by points ({}, {}); output has xy={} args ({}, {}); tuples {:?}", i, p, q, oc.xy, oc.arg1, oc.arg2, g.tuples)),
                                ));
                            }
                        }
                    }
                    let keep = 0x0004u16 | 0x0800; // ROUND_XY_TO_GRID, SCALED_COMPONENT_OFFSET
                    let src_flags = if sc.round_to_grid { 0x0004 } else { 0 } | if sc.scaled_offset { 0x0800 } else { 0 };
                    if oc.flags & keep != src_flags {
                        return Err(fail("component-flags", ctx(&format!("component {} ROUND_XY_TO_GRID / SCALED_COMPONENT_OFFSET changed: flags {:#06x}, source had {:#06x} of those", i, oc.flags, src_flags))));
                    }
                }
            }
            (k, o) => {
                return Err(fail("glyph-kind", ctx(&format!("source kind {:?}, output {}", k, match o { OutShape::Empty => "empty", OutShape::Simple { .. } => "simple", OutShape::Composite { .. } => "composite" }))));
            }
        }
        evals.push(ev);
    }
    // composite header bboxes: the box of the composed output points. Without transforms the
    // composition is integer arithmetic and the box must be exact; with 2.14 transforms the
    // composed points are fractional and each edge may be off by one unit of rounding (plus
    // COMPOSE_EPS for the transform arithmetic).
    let mut bbox_defect_glyphs: Vec<usize> = Vec::new();
    let mut transformed_composites: Vec<usize> = Vec::new();
    for (gi, g) in b.glyphs.iter().enumerate() {
        if g.kind != Kind::Composite {
            continue;
        }
        let plain = match composite_class(&out.glyphs, gi, 0) {
            Some(p) => p,
            None => {
                agg.composite_box_unchecked += 1;
                continue;
            }
        };
        if !plain {
            transformed_composites.push(gi);
        }
        let pts = composed_points(&out.glyphs, gi, 0).ok_or_else(|| fail("compose-output", format!("glyph {}: output composite cannot be composed", gi)))?;
        if let Some(bb) = bbox_of(&pts) {
            let og = &out.glyphs[gi];
            let hb = (og.bbox.0 as f64, og.bbox.1 as f64, og.bbox.2 as f64, og.bbox.3 as f64);
            let tol = if plain { 0.0 } else { 1.0 + COMPOSE_EPS };
            let ok = (hb.0 - bb.0).abs() <= tol && (hb.1 - bb.1).abs() <= tol && (hb.2 - bb.2).abs() <= tol && (hb.3 - bb.3).abs() <= tol;
            if ok {
                agg.composite_box_checked_plain += plain as u32;
                agg.composite_box_checked_transformed += !plain as u32;
                continue;
            }
            // defect models (attribution only; the verdict above comes from the composed points):
            // the box is built from child boxes, where
            //   E: a glyph without contours counts as the degenerate box at the origin,
            //   T: a component's transform is applied to the child's box instead of its points,
            //   A: point-number arguments are taken for x/y offsets (the known finding).
            let model = |e: bool, t: bool, a: bool| defect_box(&out.glyphs, gi, 0, e, t, a).and_then(|p| bbox_of(&p)).map(|r| (r.0.floor(), r.1.floor(), r.2.ceil(), r.3.ceil()));
            // the smallest set of deviations that reproduces the header box names the failure
            let sig = if model(false, false, true) == Some(hb) {
                "bbox-composite-anchor-args-as-offsets"
            } else if model(false, true, false) == Some(hb) {
                "bbox-composite-transformed-child-box"
            } else if model(true, false, false) == Some(hb) {
                "bbox-composite-empty-component-as-origin-point"
            } else if [(true, true, false), (false, true, true), (true, false, true), (true, true, true)].iter().any(|d| model(d.0, d.1, d.2) == Some(hb)) {
                "bbox-composite-child-box-model-several-deviations"
            } else {
                "bbox-composite"
            };
            let f = fail(
                sig,
                format!(
                    "glyph {} at {:?}: composite header bbox {:?} but its composed points span {:?}{}; components {:?}; component glyphs {:?}",
                    gi,
                    loc,
                    og.bbox,
                    bb,
                    if plain { String::new() } else { format!(" (tolerance {} per edge)", tol) },
                    g.comps,
                    g.comps.iter().map(|c| b.glyphs.get(c.glyph as usize).map(|t| (t.kind.clone(), if t.coords.len() <= 8 { format!("{:?}", t.coords) } else { format!("{} points", t.coords.len()) }))).collect::<Vec<_>>()
                ),
            );
            if sig == "bbox-composite-anchor-args-as-offsets" {
                agg.deferred.get_or_insert(f);
                bbox_defect_glyphs.push(gi);
            } else {
                return Err(f);
            }
        }
    }
    // ---- metrics
    let mut max_adv = 0u16;
    for (gi, g) in b.glyphs.iter().enumerate() {
        let ev = &evals[gi];
        let (adv_o, lsb_o) = out.metrics[gi];
        max_adv = max_adv.max(adv_o);
        let og = &out.glyphs[gi];
        let n = g.n_points;
        let src_xmin = if g.kind == Kind::Empty { 0.0 } else { g.bbox.0 as f64 };
        let pp1_ref = src_xmin - g.lsb as f64 + ev.deltas[n].0;
        let pp2_ref = src_xmin - g.lsb as f64 + g.advance as f64 + ev.deltas[n + 1].0;
        let adv_ref = pp2_ref - pp1_ref;
        let xmin_o = if matches!(og.shape, OutShape::Empty) { 0.0 } else { og.bbox.0 as f64 };
        let ctx = |what: &str| format!("glyph {} ({:?}) at {:?}: {}; source advance {} lsb {} xMin {}; tuples {:?}", gi, g.kind, loc, what, g.advance, g.lsb, src_xmin, g.tuples);
        if at_default {
            if adv_o == g.advance && bbox_defect_glyphs.contains(&gi) && lsb_o as f64 == xmin_o - (src_xmin - g.lsb as f64) {
                // consequence of the attributed bbox defect: lsb = (wrong xMin) - pp1
                continue;
            }
            // (the header box of a composite with transforms is a rounding of fractional
            // extremes: its xMin, and with it the side bearing, may be one unit off)
            let lsb_tol = if transformed_composites.contains(&gi) { 1 } else { 0 };
            if adv_o != g.advance || (lsb_o as i32 - g.lsb as i32).abs() > lsb_tol {
                return Err(fail("default-metrics", ctx(&format!("default instance has advance {} lsb {}", adv_o, lsb_o))));
            }
            continue;
        }
        let pp1_o = xmin_o - lsb_o as f64;
        match &b.hvar {
            None => {
                if adv_ref >= 1.0 {
                    if (adv_o as f64 - adv_ref).abs() > TOL {
                        return Err(fail("advance-phantom", ctx(&format!("advance {} but phantom points give {:.4}", adv_o, adv_ref))));
                    }
                    if ((pp1_o + adv_o as f64) - pp2_ref).abs() > TOL {
                        return Err(fail("phantom-pp2", ctx(&format!("xMin - lsb + advance = {} but phantom point 2 moves to {:.4}", pp1_o + adv_o as f64, pp2_ref))));
                    }
                } else {
                    // allsorts clamps at 0
                    if adv_o as f64 > adv_ref.max(0.0) + TOL {
                        return Err(fail("advance-phantom", ctx(&format!("advance {} but phantom points give {:.4} (clamped at 0)", adv_o, adv_ref))));
                    }
                    agg.skipped_negative_advance += 1;
                }
                let lsb_assertable = g.kind != Kind::Empty || ev.deltas[n].0 == 0.0;
                if lsb_assertable && (pp1_o - pp1_ref).abs() > TOL {
                    return Err(fail("lsb-phantom", ctx(&format!("lsb {} with output xMin {} puts phantom point 1 at {} but it moves to {:.4}", lsb_o, xmin_o, pp1_o, pp1_ref))));
                }
            }
            Some(h) => {
                let d = h.advance_delta(gi as u16, loc).ok_or_else(|| fail("hvar-row-missing", format!("glyph {}: HVAR has no delta set", gi)))?;
                let href = g.advance as f64 + d;
                // the generated HVAR agrees with the phantom point deltas by construction
                if b.hvar_consistent {
                    assert!((href - adv_ref).abs() < 1e-6, "HVAR/gvar advance disagree in the generated font: {} vs {}", href, adv_ref);
                }
                if href >= 1.0 && adv_ref >= 1.0 {
                    // (a fixture whose HVAR and phantom deltas differ: either is acceptable)
                    if (adv_o as f64 - href).abs() > TOL && (b.hvar_consistent || (adv_o as f64 - adv_ref).abs() > TOL) {
                        return Err(fail("advance-hvar", ctx(&format!("advance {} but HVAR (and the phantom points) give {:.4}; HVAR advance map {:?}", adv_o, href, h.adv_map))));
                    }
                } else {
                    agg.skipped_negative_advance += 1;
                }
                let lsb_assertable = g.kind != Kind::Empty || ev.deltas[n].0 == 0.0;
                let phantom_ok = (pp1_o - pp1_ref).abs() <= TOL;
                if b.hvar_lsb_mapped {
                    // HVAR's lsb deltas and the outline-derived lsb are independent data in the
                    // generated font; an implementation may follow either.
                    let l = g.lsb as f64 + h.lsb_delta(gi as u16, loc).ok_or_else(|| fail("hvar-row-missing", format!("glyph {}: HVAR has no lsb delta set", gi)))?;
                    let hvar_ok = (lsb_o as f64 - l).abs() <= TOL;
                    if hvar_ok {
                        agg.lsb_from_hvar += 1;
                    }
                    if !hvar_ok && !(lsb_assertable && phantom_ok) && lsb_assertable {
                        return Err(fail("lsb-hvar", ctx(&format!("lsb {} is neither HVAR's {:.4} nor xMin - pp1 = {:.4}", lsb_o, l, xmin_o - pp1_ref))));
                    }
                } else if lsb_assertable && !phantom_ok {
                    return Err(fail("lsb-phantom", ctx(&format!("(HVAR without lsb map) lsb {} with output xMin {} puts phantom point 1 at {} but it moves to {:.4}", lsb_o, xmin_o, pp1_o, pp1_ref))));
                }
            }
        }
        // the side bearing against the reference outline itself (simple glyphs)
        if g.kind == Kind::Simple && !(b.hvar.is_some() && b.hvar_lsb_mapped) {
            let xmin_ref = g.coords.iter().enumerate().map(|(i, c)| c.0 as f64 + ev.deltas[i].0).fold(f64::INFINITY, f64::min);
            let lsb_ref = xmin_ref - pp1_ref;
            if (lsb_o as f64 - lsb_ref).abs() > TOL {
                return Err(fail("lsb", ctx(&format!("lsb {} but the reference outline's xMin {:.4} minus phantom point 1 {:.4} is {:.4}", lsb_o, xmin_ref, pp1_ref, lsb_ref))));
            }
        }
    }
    {
        let m = &out.metrics;
        if m.len() >= 2 && m[m.len() - 1].0 == m[m.len() - 2].0 {
            agg.tail_equal |= true;
            agg.tail_equal_off_default |= !at_default;
            if m.iter().all(|x| x.0 == m[0].0) {
                agg.all_equal |= true;
            }
            if m[m.len() - 1].0 == 0 {
                agg.tail_zero |= true;
            }
        } else if m.len() >= 2 {
            agg.tail_differs |= true;
        }
    }
    if out.advance_width_max != max_adv {
        return Err(fail("advance-width-max", format!("hhea.advanceWidthMax {} but the largest advance is {}", out.advance_width_max, max_adv)));
    }
    // ---- MVAR
    let out_fields = metric_fields(out_bytes).map_err(|e| fail("output-unreadable", e))?;
    for (tag, sv) in src_fields {
        let ov = out_fields.iter().find(|f| f.0 == *tag).map(|f| f.1).ok_or_else(|| fail("output-unreadable", "metric field missing".into()))?;
        let adj = match &b.mvar {
            Some((recs, ivs)) => recs.iter().find(|r| r.0 == *tag).and_then(|r| ivs.adjustment(r.1, r.2, loc)),
            None => None,
        };
        match adj {
            None => {
                if ov != *sv {
                    return Err(fail("metric-without-mvar-changed", format!("{:?} changed from {} to {} at {:?} without an MVAR record", String::from_utf8_lossy(tag), sv, ov, loc)));
                }
            }
            Some(a) => {
                let r = *sv as f64 + a;
                let unsigned = tag == b"hcla" || tag == b"hcld";
                if unsigned && r < 1.0 {
                    continue;
                }
                if at_default && ov != *sv {
                    return Err(fail("default-mvar", format!("{:?} is {} in the default instance, source {}", String::from_utf8_lossy(tag), ov, sv)));
                }
                if (ov as f64 - r).abs() > TOL {
                    return Err(fail("mvar", format!("{:?} is {} at {:?}, reference {:.4} = {} + {:.4}; MVAR {:?}", String::from_utf8_lossy(tag), ov, loc, r, sv, a, b.mvar)));
                }
                agg.mvar_checked += 1;
            }
        }
    }
    // ---- cvt
    if let Some((vals, tvs)) = &b.cvt {
        let oc: Vec<i16> = find_table(out_bytes, b"cvt ")
            .ok_or_else(|| fail("cvt-missing", "the source has a cvt table, the instance has none".into()))?
            .chunks_exact(2)
            .map(|b| i16::from_be_bytes([b[0], b[1]]))
            .collect();
        if oc.len() != vals.len() {
            return Err(fail("cvt-length", format!("cvt has {} values, source {}", oc.len(), vals.len())));
        }
        let r = eval_cvt(vals, tvs, loc);
        for i in 0..vals.len() {
            if at_default && oc[i] != vals[i] {
                return Err(fail("default-cvt", format!("cvt[{}] is {} in the default instance, source {}", i, oc[i], vals[i])));
            }
            if (oc[i] as f64 - r[i]).abs() > TOL {
                return Err(fail("cvt", format!("cvt[{}] is {} at {:?}, reference {:.4} (source {}); cvar tuples {:?}", i, oc[i], loc, r[i], vals[i], tvs)));
            }
        }
        agg.cvt_checked |= !tvs.is_empty();
    }
    // ---- loadable as a non-variable font
    {
        let fd = ReadScope::new(out_bytes).read::<FontData<'_>>().map_err(|e| fail("output-not-loadable", format!("{:?}", e)))?;
        let prov = fd.table_provider(0).map_err(|e| fail("output-not-loadable", format!("{:?}", e)))?;
        let font = Font::new(prov).map_err(|e| fail("output-not-loadable", format!("Font::new: {:?}", e)))?;
        if font.is_variable() {
            return Err(fail("output-is-variable", "Font::is_variable() is true for the instance".into()));
        }
    }
    for ev in &evals {
        agg.fractional |= ev.fractional_scalars > 0;
        agg.inferred |= ev.any_inferred;
        agg.on_edge |= ev.on_edge;
        agg.multi_axis |= ev.multi_axis_product;
        agg.applicable_max = agg.applicable_max.max(ev.applicable);
    }
    let _ = rec;
    Ok(())
}

/// Slack for composing points through 2.14 transforms (products of values below 2¹⁵ with
/// multiples of 2⁻¹⁴, a few levels deep, in at least single precision).
const COMPOSE_EPS: f64 = 1.0 / 64.0;

/// Some(true): no transforms anywhere below this glyph (composing it is exact integer
/// arithmetic); Some(false): there are transforms and all of them have a defined meaning;
/// None: not checkable (a SCALED_COMPONENT_OFFSET component whose transform is not a positive
/// diagonal scale — implementations disagree about what the flag means there —, nesting beyond
/// 8, a reference out of range).
fn composite_class(glyphs: &[crate::refmodel::varmodel::OutGlyph], gid: usize, depth: usize) -> Option<bool> {
    if depth > 8 {
        return None;
    }
    match &glyphs.get(gid)?.shape {
        OutShape::Composite { components, .. } => {
            let mut plain = true;
            for c in components {
                if !c.transform.is_empty() {
                    plain = false;
                    if c.xy && c.flags & 0x1800 == 0x0800 {
                        let m = matrix_of(&c.transform);
                        if !(m.0 > 0.0 && m.3 > 0.0 && m.1 == 0.0 && m.2 == 0.0) {
                            return None;
                        }
                    }
                }
                plain &= composite_class(glyphs, c.glyph as usize, depth + 1)?;
            }
            Some(plain)
        }
        _ => Some(true),
    }
}

/// Defect models for the box of a composite built from child *boxes* (attribution only). The
/// result is a point set whose extremes are the modelled box. `empty_as_origin`: a glyph without
/// contours contributes the point (0, 0); `transform_box`: a component's transform is applied to
/// the corners of the child's box instead of the child's points; `anchors_as_offsets`: point-number
/// arguments are used as x/y offsets. With all off this is the composition of the specification
/// (None if there are point-matched components).
fn defect_box(glyphs: &[crate::refmodel::varmodel::OutGlyph], gid: usize, depth: usize, empty_as_origin: bool, transform_box: bool, anchors_as_offsets: bool) -> Option<Vec<(f64, f64)>> {
    if depth > 8 {
        return None;
    }
    match &glyphs.get(gid)?.shape {
        OutShape::Empty => Some(if empty_as_origin { vec![(0.0, 0.0)] } else { Vec::new() }),
        OutShape::Simple { points, .. } => Some(points.iter().map(|p| (p.0 as f64, p.1 as f64)).collect()),
        OutShape::Composite { components, .. } => {
            let mut acc = Vec::new();
            for c in components {
                if !c.xy && !anchors_as_offsets {
                    return None;
                }
                let mut child = defect_box(glyphs, c.glyph as usize, depth + 1, empty_as_origin, transform_box, anchors_as_offsets)?;
                if transform_box {
                    if let Some(r) = bbox_of(&child) {
                        child = vec![(r.0, r.1), (r.2, r.1), (r.0, r.3), (r.2, r.3)];
                    }
                }
                let m = matrix_of(&c.transform);
                let off = if c.xy && !c.transform.is_empty() && c.flags & 0x1800 == 0x0800 { (m.0 * c.arg1 as f64, m.3 * c.arg2 as f64) } else { (c.arg1 as f64, c.arg2 as f64) };
                acc.extend(child.iter().map(|p| {
                    let q = apply_matrix(m, *p);
                    (q.0 + off.0, q.1 + off.1)
                }));
            }
            Some(acc)
        }
    }
}

#[derive(Default)]
struct Agg {
    fractional: bool,
    inferred: bool,
    on_edge: bool,
    multi_axis: bool,
    applicable_max: usize,
    skipped_negative_advance: u32,
    lsb_from_hvar: u32,
    mvar_checked: u32,
    cvt_checked: bool,
    /// the instance's last two advances are equal (somewhere / away from the default / all / 0)
    tail_equal: bool,
    tail_equal_off_default: bool,
    all_equal: bool,
    tail_zero: bool,
    tail_differs: bool,
    /// a failure attributed to a known finding by its defect model: reported only if nothing
    /// else fails in the case, so that the search continues behind the finding
    deferred: Option<Fail>,
    /// composite header boxes compared with the composed output points
    composite_box_checked_plain: u32,
    composite_box_checked_transformed: u32,
    composite_box_unchecked: u32,
    // extension section
    vert_checked: u32,
    vert_off_default_nonzero: u32,
    vert_defect: u32,
    vhea_mvar_checked: u32,
    vhea_mvar_defect: u32,
    gasp_checked: u32,
    gasp_defect: u32,
    umm_checked: u32,
}

/// For other checks (C09): the generated variable font of a case and the user coordinate tuples
/// (raw 16.16 values, first = the default location) that C12 instances it at.
pub fn generated_font_and_users(case: &Case) -> (Vec<u8>, Vec<Vec<i32>>) {
    let b = build(case);
    let users = users_of(case, &b);
    (b.font, users)
}

pub fn check_case(case: &Case, rec: &mut Rec) -> CaseResult {
    let b = build(case);
    let has_invalid = b.all_regions.iter().any(|r| r.iter().any(|a| axis_region_invalid(*a)));
    match check_case_built(case, &b, rec) {
        // a case whose variation data contains a region the specification calls invalid (and
        // tells implementations to ignore, axis scalar 1) gets its own signature
        Err(f) if has_invalid && !f.sig.starts_with("C12:bbox-composite-") => {
            Err(Fail::new("C12:invalid-region-axis-not-ignored", format!("[font has invalid region axes: {:?}] {}: {}", b.all_regions.iter().filter(|r| r.iter().any(|a| axis_region_invalid(*a))).collect::<Vec<_>>(), f.sig, f.msg)))
        }
        r => {
            if r.is_ok() {
                rec.class_if(has_invalid, "invalid-region-axis");
            }
            r
        }
    }
}

fn check_case_built(case: &Case, b: &Built, rec: &mut Rec) -> CaseResult {
    rec.artefact("font", &b.font);
    let src = read_font(&b.font).expect("own font readable by own reader");
    let src_fields = metric_fields(&b.font).expect("own font metric fields");
    let fd = ReadScope::new(&b.font).read::<FontData<'_>>().map_err(|e| fail("source-not-loadable", format!("{:?}", e)))?;
    let prov = fd.table_provider(0).map_err(|e| fail("source-not-loadable", format!("{:?}", e)))?;
    let mut agg = Agg::default();
    {
        // composite classes (recorded before instancing, so that they count for every case)
        let gl = &b.model.glyphs;
        let comps = || gl.iter().flat_map(|g| g.comps.iter());
        rec.class_if(comps().any(|c| gl.get(c.glyph as usize).map_or(false, |t| t.kind == Kind::Empty)), "composite-empty-component");
        rec.class_if(gl.iter().any(|g| g.comps.first().map_or(false, |c| gl.get(c.glyph as usize).map_or(false, |t| t.kind == Kind::Empty))), "composite-empty-component-first");
        rec.class_if(comps().any(|c| c.transform.len() == 1), "composite-transform:scale");
        rec.class_if(comps().any(|c| c.transform.len() == 2), "composite-transform:xy-scale");
        rec.class_if(comps().any(|c| c.transform.len() == 4), "composite-transform:2x2");
        rec.class_if(comps().any(|c| c.transform.len() == 4 && (c.transform[1] != 0 || c.transform[2] != 0)), "composite-transform:2x2-off-diagonal");
        rec.class_if(comps().any(|c| c.transform.iter().any(|w| *w < 0)), "composite-transform:negative-term");
        rec.class_if(comps().any(|c| c.scaled_offset && matches!(c.args, CompArgs::Offset(x, y) if x != 0 || y != 0) && c.transform.iter().any(|w| *w != 16384)), "composite-scaled-component-offset");
        rec.class_if(gl.iter().any(|g| g.comps.iter().any(|c| !c.transform.is_empty()) && !g.tuples.is_empty()), "composite-transform-with-deltas");
    }
    let users = users_of(case, b);
    let mut locs: Vec<Vec<i16>> = Vec::new();
    for (ui, user) in users.iter().enumerate() {
        let tuple: Vec<Fixed> = user.iter().map(|v| Fixed::from_raw(*v)).collect();
        let (out, loc) = match allsorts::variations::instance(&prov, &tuple) {
            Ok(r) => r,
            Err(e) => {
                return Err(fail("instance-err", format!("instance() failed on a well-formed generated font at user tuple {:?}: {:?}", user, e)));
            }
        };
        let loc: Vec<i16> = loc.iter().map(|v| v.raw_value()).collect();
        if loc.len() != b.axes.len() {
            return Err(fail("tuple-len", format!("returned tuple has {} entries for {} axes", loc.len(), b.axes.len())));
        }
        if ui == 0 && loc.iter().any(|v| *v != 0) {
            return Err(fail("default-not-zero", format!("default user coordinates normalise to {:?}", loc)));
        }
        check_loc(&b.font, user, &loc, rec)?;
        check_instance(&b.model, &src, &src_fields, &out, &loc, rec, &mut agg)?;
        if let Some(x) = &b.ext {
            check_ext_instance(x, b, &out, &loc, &mut agg)?;
        }
        locs.push(loc);
    }
    // ---- classification
    rec.evaluations(users.len() as u64 - 1);
    rec.set_nontrivial(agg.fractional && agg.inferred);
    rec.class_if(agg.fractional, "scalar-fractional");
    rec.class_if(agg.inferred, "inferred-delta");
    rec.class_if(agg.on_edge, "coordinate-on-region-edge");
    rec.class_if(agg.multi_axis, "multi-axis-product");
    rec.class_if(agg.applicable_max >= 2, "overlapping-tuples>=2");
    rec.class_if(agg.applicable_max >= 3, "overlapping-tuples>=3");
    rec.class(&format!("axes:{}", b.axes.len()));
    rec.class_if(case.with_avar, "avar");
    let s = &b.stats;
    rec.class_if(s.intermediate > 0, "intermediate-region");
    rec.class_if(s.private_points > 0, "private-points");
    rec.class_if(s.shared_points > 0, "shared-points");
    rec.class_if(s.all_points > 0, "all-points");
    rec.class_if(s.shared_peaks > 0, "shared-peak");
    rec.class_if(s.embedded_peaks > 0, "embedded-peak");
    rec.class_if(s.count_two_byte > 0, "point-count-2byte");
    rec.class_if(s.count_two_byte_small > 0, "point-count-2byte-small");
    rec.class_if(s.point_word_runs > 0, "point-word-run");
    rec.class_if(s.point_run_128 > 0, "point-run-128");
    rec.class_if(s.delta_zero_runs > 0, "delta-zero-run");
    rec.class_if(s.delta_byte_runs > 0, "delta-byte-run");
    rec.class_if(s.delta_word_runs > 0, "delta-word-run");
    rec.class_if(s.delta_run_64 > 0, "delta-run-64");
    rec.class_if(case.long_gvar, "gvar-long-offsets");
    rec.class_if(!case.long_gvar, "gvar-short-offsets");
    let phantom_deltas = b.model.glyphs.iter().any(|g| {
        g.tuples.iter().any(|t| match &t.points {
            None => t.deltas[g.n_points..].iter().any(|d| *d != (0, 0)),
            Some(ps) => ps.iter().zip(t.deltas.iter()).any(|(p, d)| *p as usize >= g.n_points && *d != (0, 0)),
        })
    });
    rec.class_if(phantom_deltas, "phantom-deltas");
    rec.class_if(b.model.glyphs.iter().any(|g| g.kind == Kind::Composite && !g.tuples.is_empty()), "composite-with-deltas");
    {
        let gl = &b.model.glyphs;
        let nested = |lower: bool| gl.iter().enumerate().any(|(gi, g)| g.comps.iter().any(|c| gl.get(c.glyph as usize).map_or(false, |t| t.kind == Kind::Composite) && ((gi < c.glyph as usize) == lower)));
        rec.class_if(nested(true), "nested-composite:outer-id-lower");
        rec.class_if(nested(false), "nested-composite:outer-id-higher");
    }
    rec.class_if(b.model.glyphs.iter().any(|g| g.comps.iter().any(|c| matches!(c.args, CompArgs::Points(..)))), "composite-anchored");
    rec.class_if(b.model.glyphs.iter().any(|g| g.kind == Kind::Empty && !g.tuples.is_empty()), "empty-glyph-with-deltas");
    rec.class_if(b.model.glyphs.iter().any(|g| g.tuples.is_empty()), "glyph-without-variation-data");
    rec.class_if(b.model.glyphs.iter().any(|g| g.big), "big-glyph");
    rec.class_if(b.model.glyphs.iter().any(|g| g.kind != Kind::Empty && g.lsb != g.bbox.0), "lsb!=xMin");
    match (&case.hvar, &b.model.hvar) {
        (Some(h), Some(_)) => {
            rec.class(if h.mapped { "HVAR-mapped" } else { "HVAR-direct" });
            rec.class_if(h.lsb_map, "HVAR-lsb-map");
            rec.class_if(h.long_words, "HVAR-long-words");
            if h.mapped {
                rec.class(&format!("HVAR-entry-size>={}", h.entry_size));
            }
        }
        _ => rec.class("HVAR-absent"),
    }
    rec.class_if(agg.lsb_from_hvar > 0, "lsb-follows-HVAR");
    rec.class_if(b.model.mvar.is_some(), "MVAR");
    rec.class_if(agg.mvar_checked > 0, "MVAR-field-checked");
    rec.class_if(agg.cvt_checked, "cvar");
    rec.class_if(agg.skipped_negative_advance > 0, "skipped:advance<1");
    rec.class_if(agg.composite_box_checked_plain > 0, "composite-box-checked:exact");
    rec.class_if(agg.composite_box_checked_transformed > 0, "composite-box-checked:transformed(±1)");
    rec.class_if(agg.composite_box_unchecked > 0, "skipped:composite-box-ambiguous-scaled-offset");
    rec.class_if(b.num_h_metrics < b.model.glyphs.len() as u16, "hmtx-short-tail");
    rec.class(&format!("metric-mode:{}", b.metric_mode));
    rec.class_if(agg.tail_equal, "instance-tail-equal-advances");
    rec.class_if(agg.tail_equal_off_default, "instance-tail-equal-advances-off-default");
    rec.class_if(agg.tail_equal && agg.tail_differs, "instance-tail-equal-at-some-locations-only");
    rec.class_if(agg.all_equal, "instance-monospaced");
    rec.class_if(agg.tail_zero, "instance-zero-width-tail");
    rec.hash_bytes(&b.font);
    rec.sample(|| {
        format!(
            "{} axes, {} glyphs [{}], hvar {:?}, mvar {}, locations {:?}",
            b.axes.len(),
            b.model.glyphs.len(),
            b.model.glyphs.iter().map(|g| format!("{:?}:{}pt/{}tv", g.kind, g.n_points, g.tuples.len())).collect::<Vec<_>>().join(" "),
            case.hvar.as_ref().map(|h| (h.mapped, h.lsb_map)),
            b.model.mvar.is_some(),
            locs
        )
    });
    let _ = region_is_implied;
    let _ = find_table;
    if let Some(x) = &b.ext {
        classify_ext(x, b, &agg, rec);
    }
    if let Some(f) = agg.deferred.take() {
        return Err(f);
    }
    Ok(())
}

// ------------------------------------------------------------------ extension section (`model-ext`)
//
// The same variation model and the same checks as `model`, on fonts that additionally carry what
// `model` leaves out: vertical metrics (vhea / vmtx, optional VVAR built to agree with the gvar
// deltas of phantom points 3 and 4), an MVAR table over every value tag the specification
// registers (plus unknown ones) through a multi-subtable ItemVariationStore with LONG_WORDS /
// word-count edge cases, an OS/2 table of any version, gasp, STAT with axis value tables of
// formats 1-4 (or no STAT), named instances, a name table with a free choice of records, up to
// four axes, longer avar maps, USE_MY_METRICS, more anchored components, and corner coordinates.

#[derive(Clone, Debug)]
pub struct VertSpec {
    pub heights: Vec<u16>,
    pub tsbs: Vec<i16>,
    pub short_tail: bool,
    pub v11: bool,
    pub vvar: Option<HvarSpec>,
    pub vorg_map: bool,
    pub vals: Vec<i16>,
}

#[derive(Clone, Debug)]
pub struct StatValSpec {
    pub format: u8,
    pub axis: u32,
    pub elidable: bool,
    pub older: bool,
    pub at: CoordSpec,
    pub at2: CoordSpec,
    pub at3: CoordSpec,
    pub n4: u8,
    pub name: u8,
}

#[derive(Clone, Debug)]
pub struct StatSpec {
    pub minor: u8,
    pub rotate: u8,
    pub extra_axis: bool,
    pub axis_size_extra: u8,
    pub values: Vec<StatValSpec>,
    pub fallback: u8,
    pub gap: u8,
}

#[derive(Clone, Debug)]
pub struct InstSpec {
    pub coords: Vec<CoordSpec>,
    pub ps: bool,
}

#[derive(Clone, Debug)]
pub struct MvarExtSpec {
    pub tags: Vec<u8>,
    pub regions: Vec<Vec<AxisRegSpec>>,
    pub deltas: Vec<Vec<i16>>,
    pub subtables: u8,
    /// bit k: subtable k uses LONG_WORDS
    pub long_mask: u8,
    pub extra_words: u8,
    /// bit k: subtable k starts with a row no record refers to, holding large values
    pub big_mask: u8,
    pub drop_zero_columns: bool,
    pub record_extra: u8,
    pub seed: u32,
}

#[derive(Clone, Debug)]
pub struct ExtSpec {
    pub vert: Option<VertSpec>,
    pub os2_kind: u8,
    pub stat: Option<StatSpec>,
    pub name_mask: u8,
    pub name_gap: u8,
    pub instances: Vec<InstSpec>,
    pub mvar: Option<MvarExtSpec>,
    pub umm_seed: u32,
    pub vals: Vec<i16>,
    pub gasp: Option<u8>,
    pub corner_seed: u32,
    pub avar_extra: Vec<(i16, i16)>,
    pub force_avar: bool,
    pub big_first: Option<(u16, u8)>,
}

#[derive(Clone, Debug)]
pub struct ExtCase {
    pub base: Case,
    pub ext: ExtSpec,
}

const MVAR_TAGS_EXT: [&[u8; 4]; 38] = [
    b"hasc", b"hdsc", b"hlgp", b"hcla", b"hcld", b"xhgt", b"cpht", b"unds", b"undo", b"stro", b"strs", b"sbxs", b"sbys", b"sbxo",
    b"sbyo", b"spxs", b"spys", b"spxo", b"spyo", b"hcrs", b"hcrn", b"hcof", b"vasc", b"vdsc", b"vlgp", b"vcrs", b"vcrn", b"vcof",
    b"gsp0", b"gsp1", b"gsp2", b"gsp9", b"zzzz", b"AAAA", b"HASC", b"xhgT", b"hasd", b"undp",
];

fn vert_spec() -> impl Strategy<Value = VertSpec> {
    (
        proptest::collection::vec(prop_oneof![4 => 300u16..1600, 1 => Just(1000u16)], 5),
        proptest::collection::vec(prop_oneof![3 => -200i16..300, 1 => Just(0i16)], 5),
        proptest::bool::weighted(0.3),
        any::<bool>(),
        proptest::option::weighted(0.55, hvar_spec()),
        proptest::bool::weighted(0.2),
        proptest::collection::vec(-60i16..=60, 6),
    )
        .prop_map(|(heights, tsbs, short_tail, v11, vvar, vorg_map, vals)| VertSpec { heights, tsbs, short_tail, v11, vvar, vorg_map, vals })
}

fn stat_val_spec() -> impl Strategy<Value = StatValSpec> {
    (1u8..=4, any::<u32>(), proptest::bool::weighted(0.35), proptest::bool::weighted(0.15), coord_spec(), coord_spec(), coord_spec(), 1u8..=4, 0u8..6)
        .prop_map(|(format, axis, elidable, older, at, at2, at3, n4, name)| StatValSpec { format, axis, elidable, older, at, at2, at3, n4, name })
}

fn stat_spec() -> impl Strategy<Value = StatSpec> {
    (
        0u8..=2,
        0u8..8,
        proptest::bool::weighted(0.3),
        prop_oneof![4 => Just(0u8), 1 => Just(4u8)],
        proptest::collection::vec(stat_val_spec(), 0..=8),
        0u8..4,
        prop_oneof![3 => Just(0u8), 1 => 1u8..6],
    )
        .prop_map(|(minor, rotate, extra_axis, axis_size_extra, values, fallback, gap)| StatSpec { minor, rotate, extra_axis, axis_size_extra, values, fallback, gap })
}

fn mvar_ext_spec() -> impl Strategy<Value = MvarExtSpec> {
    (
        proptest::collection::vec(0u8..MVAR_TAGS_EXT.len() as u8, 1..=14),
        proptest::collection::vec(proptest::collection::vec(axis_reg(), 3), 1..=4),
        proptest::collection::vec(proptest::collection::vec(prop_oneof![3 => -100i16..=100, 2 => -300i16..=300, 1 => Just(0i16)], 3), 8),
        1u8..=4,
        prop_oneof![2 => Just(0u8), 1 => any::<u8>()],
        0u8..4,
        prop_oneof![1 => Just(0u8), 1 => any::<u8>()],
        any::<bool>(),
        prop_oneof![3 => Just(0u8), 1 => 1u8..6],
        any::<u32>(),
    )
        .prop_map(|(tags, regions, deltas, subtables, long_mask, extra_words, big_mask, drop_zero_columns, record_extra, seed)| MvarExtSpec {
            tags,
            regions,
            deltas,
            subtables,
            long_mask,
            extra_words,
            big_mask,
            drop_zero_columns,
            record_extra,
            seed,
        })
}

fn ext_spec() -> impl Strategy<Value = ExtSpec> {
    (
        (proptest::option::weighted(0.55, vert_spec()), 0u8..=6, proptest::option::weighted(0.65, stat_spec()), any::<u8>(), prop_oneof![3 => Just(0u8), 1 => 1u8..5]),
        proptest::collection::vec((proptest::collection::vec(coord_spec(), 4), any::<bool>()).prop_map(|(coords, ps)| InstSpec { coords, ps }), 0..=3),
        proptest::option::weighted(0.7, mvar_ext_spec()),
        any::<u32>(),
        proptest::collection::vec(-300i16..=900, 24),
        proptest::option::weighted(0.4, any::<u8>()),
        any::<u32>(),
        proptest::collection::vec((1i16..16384, 0i16..=16384), 0..=4),
        proptest::bool::weighted(0.3),
        proptest::option::weighted(0.25, (proptest::sample::select(vec![129u16, 200, 256, 257, 300, 420]), 1u8..=3)),
    )
        .prop_map(|((vert, os2_kind, stat, name_mask, name_gap), instances, mvar, umm_seed, vals, gasp, corner_seed, avar_extra, force_avar, big_first)| ExtSpec {
            vert,
            os2_kind,
            stat,
            name_mask,
            name_gap,
            instances,
            mvar,
            umm_seed,
            vals,
            gasp,
            corner_seed,
            avar_extra,
            force_avar,
            big_first,
        })
}

pub fn ext_case_strategy() -> impl Strategy<Value = ExtCase> {
    (case_strategy_axes(4), ext_spec()).prop_map(|(mut base, ext)| {
        // regions the specification calls invalid have their own signature in `model`
        base.invalid_regions = false;
        base.with_avar |= ext.force_avar;
        // longer avar segment maps
        for (i, a) in base.axes.iter_mut().enumerate() {
            for (k, e) in ext.avar_extra.iter().enumerate() {
                let m = 1 + ((e.0 as i32 + 4099 * (i as i32 + 1) * (k as i32 + 1)) % 16383) as i16;
                a.avar.push((m, e.1));
            }
        }
        // a glyph with more than 128 / 255 points more often
        if let Some((n, contours)) = ext.big_first {
            let at = (ext.umm_seed as usize >> 3) % base.glyphs.len();
            base.glyphs[at].shape = ShapeSpec::Big { n, contours, seed: ext.umm_seed };
        }
        // anchored (point-matched) components more often
        for (gi, g) in base.glyphs.iter_mut().enumerate() {
            if let ShapeSpec::Composite(cs) = &mut g.shape {
                for (ci, c) in cs.iter_mut().enumerate() {
                    if ci > 0 && c.anchor.is_none() && mix64(ext.umm_seed as u64 ^ ((gi * 8 + ci) as u64) << 33) % 4 == 0 {
                        c.anchor = Some((c.target.rotate_left(7), c.target.rotate_left(19)));
                    }
                }
            }
        }
        ExtCase { base, ext }
    })
}

struct VertModel {
    /// (advance height, top side bearing) per glyph in the default master
    metrics: Vec<(u16, i16)>,
    vvar: Option<HvarModel>,
    tsb_mapped: bool,
    num_long: u16,
}

struct ExtBuilt {
    vert: Option<VertModel>,
    umm: Vec<(usize, usize)>,
    gasp: Option<Vec<(u16, u16)>>,
    stat_formats: Option<u8>,
    stat_minor: u8,
    n_instances: usize,
    os2_kind: u8,
    mvar_known_tags: usize,
    mvar_unknown_tags: usize,
    mvar_subtables: usize,
    mvar_long: bool,
    mvar_big: bool,
    has_anchor: bool,
    name_mask: u8,
    corner_users: usize,
}

/// MVAR over the full tag list: tag k goes to subtable k mod n; a subtable may start with a row
/// that no record refers to (large values: forces word / long-word columns and shifts the rows
/// that are referred to), may use LONG_WORDS, extra word columns, and a column subset.
fn encode_mvar_ext(m: &MvarExtSpec, n_axes: usize) -> (Vec<u8>, (Vec<([u8; 4], u16, u16)>, IvsModel), Vec<Region>) {
    let mut regions: Vec<Region> = Vec::new();
    for r in &m.regions {
        let reg = resolve_region(r, n_axes, false);
        if !regions.contains(&reg) {
            regions.push(reg);
        }
    }
    let mut tags: Vec<[u8; 4]> = Vec::new();
    for t in &m.tags {
        let tag = *MVAR_TAGS_EXT[*t as usize];
        if !tags.contains(&tag) {
            tags.push(tag);
        }
    }
    let k = (m.subtables as usize).max(1);
    let nr = regions.len();
    let mut rows: Vec<Vec<Vec<i32>>> = vec![Vec::new(); k];
    for (sub, r) in rows.iter_mut().enumerate() {
        if m.big_mask >> sub & 1 == 1 {
            let long = m.long_mask >> sub & 1 == 1;
            r.push(
                (0..nr)
                    .map(|c| {
                        let h = mix64(m.seed as u64 ^ ((sub * 16 + c) as u64) << 8);
                        let mag = if long { 40_000 + (h % 2_000_000) as i32 } else { 200 + (h % 30_000) as i32 };
                        if h & (1 << 40) != 0 {
                            -mag
                        } else {
                            mag
                        }
                    })
                    .collect(),
            );
        }
    }
    let mut recs: Vec<([u8; 4], u16, u16)> = Vec::new();
    for (i, tag) in tags.iter().enumerate() {
        let sub = i % k;
        let row: Vec<i32> = (0..nr).map(|r| m.deltas[i % m.deltas.len()][r % 3] as i32).collect();
        recs.push((*tag, sub as u16, rows[sub].len() as u16));
        rows[sub].push(row);
    }
    let mut subs: Vec<IvdEnc> = Vec::new();
    for (sub, r) in rows.into_iter().enumerate() {
        // a permutation of the region columns; all-zero columns may be left out
        let mut cols: Vec<u16> = (0..nr as u16).collect();
        let mut c2 = Choices::new(m.seed as u64 ^ (sub as u64) << 50);
        for i in (1..cols.len()).rev() {
            cols.swap(i, c2.below(i + 1));
        }
        if m.drop_zero_columns {
            cols.retain(|c| r.iter().any(|row| row[*c as usize] != 0));
        }
        let proj: Vec<Vec<i32>> = r.iter().map(|row| cols.iter().map(|c| row[*c as usize]).collect()).collect();
        subs.push(IvdEnc::normalise(cols, proj, m.long_mask >> sub & 1 == 1, m.extra_words as usize));
    }
    let ivs_model = IvsModel { regions: regions.clone(), subtables: subs.iter().map(|s| (s.region_indexes.clone(), s.rows.clone())).collect() };
    let ivs = item_variation_store(n_axes, &regions, &subs);
    let bytes = mvar_table(&recs, 8 + m.record_extra as u16 * 2, Some(&ivs));
    let (drecs, divs) = decode_mvar(&bytes).expect("own MVAR decodes");
    let mut sorted = recs.clone();
    sorted.sort();
    assert_eq!(drecs, sorted, "MVAR records round trip");
    assert_eq!(divs.as_ref(), Some(&ivs_model), "MVAR store round trip");
    (bytes, (recs, ivs_model), regions)
}

fn apply_ext(
    x: &ExtSpec,
    f: &mut BasicFont,
    glyphs: &[GlyphModel],
    axes: &[AxisModel],
    all_regions: &[Region],
    num_h_metrics: u16,
    umm: Vec<(usize, usize)>,
    extra_users: &mut Vec<Vec<i32>>,
) -> ExtBuilt {
    let n = glyphs.len();
    let n_axes = axes.len();
    let v = &x.vals;
    // ---- OS/2, hhea, post with distinct values in every field MVAR can address
    let os2v = Os2Values {
        sub_super_strike: [v[0], v[1], v[2], v[3], v[4], v[5], v[6], v[7], v[8], v[9]],
        typo: (700 + v[10] / 4, -300 + v[11] / 4, v[12].abs() / 4),
        win: (800 + v[13].unsigned_abs() / 2, 200 + v[14].unsigned_abs() / 2),
        x_height: 400 + v[15] / 4,
        cap_height: 600 + v[16] / 4,
    };
    f.extra.push((*b"OS/2", os2_table(x.os2_kind, &os2v, 0x41, 0x41 + n.min(26) as u16 - 1)));
    let adv_max = f.metrics.iter().map(|m| m.0).max().unwrap_or(0);
    f.extra.push((*b"hhea", hhea_with(800, -200, v[17].abs() / 8, adv_max, (1 + v[18].abs() / 8, v[19] / 8, v[20] / 8), num_h_metrics.min(n as u16).max(1))));
    f.extra.push((*b"post", post_v3_with(-100 + v[21] / 8, 50 + v[22].abs() / 8)));
    // ---- gasp
    let gasp = x.gasp.map(|g| {
        let r = vec![(200 + (g as u16 & 63), 2u16), (400 + (g as u16 >> 2), 1), (0xFFFF, 3)];
        f.extra.push((*b"gasp", gasp_table(1, &r)));
        r
    });
    // ---- vertical metrics
    let vert = x.vert.as_ref().map(|vs| {
        let mut m: Vec<(u16, i16)> = (0..n).map(|g| (vs.heights[g % vs.heights.len()], vs.tsbs[g % vs.tsbs.len()])).collect();
        let mut num_long = n as u16;
        if vs.short_tail && n >= 2 {
            m[n - 1].0 = m[n - 2].0;
            num_long = (n - 1) as u16;
        }
        let ah_max = m.iter().map(|x| x.0).max().unwrap_or(0);
        f.extra.push((*b"vhea", vhea_table(vs.v11, 500 + vs.vals[0], -500 + vs.vals[1], vs.vals[2].abs(), ah_max, (vs.vals[3], 1 + vs.vals[4].abs(), vs.vals[5]), num_long)));
        f.extra.push((*b"vmtx", crate::fontgen::basic::hmtx(&m, num_long)));
        let mut vvar = None;
        let mut tsb_mapped = false;
        if let Some(h) = &vs.vvar {
            let mut regions: Vec<Region> = Vec::new();
            for g in glyphs {
                for t in &g.tuples {
                    if !regions.contains(&t.region) {
                        regions.push(t.region.clone());
                    }
                }
            }
            if regions.is_empty() || h.seed & 1 == 1 {
                let r: Region = (0..n_axes).map(|a| implied_axis_region(if a == 0 { 16384 } else { 0 })).collect();
                if !regions.contains(&r) {
                    regions.push(r);
                }
            }
            // advance height = pp3.y - pp4.y
            let mut rows: Vec<Vec<i32>> = Vec::new();
            for g in glyphs {
                let mut row = vec![0i32; regions.len()];
                for t in &g.tuples {
                    let ri = regions.iter().position(|r| *r == t.region).unwrap();
                    let get = |pn: usize| -> i32 {
                        match &t.points {
                            None => t.deltas[pn].1 as i32,
                            Some(ps) => ps.iter().position(|p| *p as usize == pn).map(|k| t.deltas[k].1 as i32).unwrap_or(0),
                        }
                    };
                    row[ri] += get(g.n_points + 2) - get(g.n_points + 3);
                }
                rows.push(row);
            }
            let (hbytes, model) = encode_hvar(h, n_axes, &regions, &rows);
            let vorg = if vs.vorg_map { Some(delta_set_index_map(&[(0, 0)], 1, 1, 0)) } else { None };
            let bytes = vvar_from_hvar(&hbytes, vorg.as_deref());
            // (the first three offsets of VVAR have the positions of HVAR's)
            let dec = decode_hvar(&bytes).expect("own VVAR decodes");
            assert_eq!(dec.ivs, model.ivs, "VVAR store round trip");
            assert_eq!(dec.adv_map, model.adv_map, "VVAR advance map round trip");
            assert_eq!(dec.lsb_map, model.lsb_map, "VVAR tsb map round trip");
            f.extra.push((*b"VVAR", bytes));
            tsb_mapped = h.lsb_map;
            vvar = Some(model);
        }
        VertModel { metrics: m, vvar, tsb_mapped, num_long }
    });
    // ---- STAT
    let mut stat_formats = None;
    if let Some(st) = &x.stat {
        let mut daxes: Vec<([u8; 4], u16, u16)> = axes.iter().enumerate().map(|(i, a)| (a.tag, a.name_id, i as u16)).collect();
        let len = daxes.len();
        daxes.rotate_left(st.rotate as usize % len);
        for (k, d) in daxes.iter_mut().enumerate() {
            d.2 = match st.rotate & 3 {
                0 => k as u16,
                1 => (len - 1 - k) as u16,
                2 => 3 * k as u16 + 1,
                _ => d.2,
            };
        }
        if st.extra_axis {
            daxes.push((*b"ital", 280, 9));
        }
        let value_on = |ai: usize, c: &CoordSpec| -> i32 {
            match axes.iter().position(|a| a.tag == daxes[ai].0) {
                Some(fi) => user_value(c, &axes[fi], fi, all_regions),
                None => ((c.r & 1) as i32) << 16,
            }
        };
        let mut formats = 0u8;
        let mut values: Vec<StatValueEnc> = Vec::new();
        for sv in &st.values {
            let ai = pick(daxes.len(), sv.axis);
            let value = match sv.format {
                1 => StatValue::F1 { axis: ai as u16, value: value_on(ai, &sv.at) },
                2 => {
                    let mut t = [value_on(ai, &sv.at), value_on(ai, &sv.at2), value_on(ai, &sv.at3)];
                    t.sort();
                    StatValue::F2 { axis: ai as u16, nominal: t[1], min: t[0], max: t[2] }
                }
                3 => StatValue::F3 { axis: ai as u16, value: value_on(ai, &sv.at), linked: value_on(ai, &sv.at2) },
                _ => {
                    let k = (sv.n4 as usize).min(daxes.len()).max(1);
                    let cs = [&sv.at, &sv.at2, &sv.at3];
                    StatValue::F4 { values: (0..k).map(|j| (((ai + j) % daxes.len()) as u16, value_on((ai + j) % daxes.len(), cs[j % 3]))).collect() }
                }
            };
            formats |= 1 << (sv.format.clamp(1, 4) - 1);
            values.push(StatValueEnc { value, flags: if sv.elidable { 2 } else { 0 } | if sv.older { 1 } else { 0 }, name_id: 300 + sv.name as u16 });
        }
        let fallback = match st.fallback {
            0 => 2,
            1 => 17,
            2 => 999,
            _ => 300,
        };
        f.extra.push((*b"STAT", stat_table(st.minor as u16, &daxes, st.axis_size_extra as u16, &values, fallback, st.gap as usize)));
        stat_formats = Some(formats);
    }
    // ---- name
    {
        let m = x.name_mask;
        let (has1, has16) = (m & 1 != 0 || m & 2 == 0, m & 2 != 0);
        let (has2, has17) = (m & 4 != 0 || m & 8 == 0, m & 8 != 0);
        let mut recs: Vec<(u16, u16, u16, u16, String)> = Vec::new();
        let mut add = |id: u16, s: &str| recs.push((3, 1, 0x409, id, s.to_string()));
        if has1 {
            add(1, "Verif");
        }
        if has2 {
            add(2, "Regular");
        }
        if m & 128 != 0 {
            add(3, "1.000;VRIF;Verif-Regular");
            add(4, "Verif Regular");
            add(6, "Verif-Regular");
        }
        if has16 {
            add(16, "Verif Typo");
        }
        if has17 {
            add(17, "Text");
        }
        if m & 16 != 0 {
            add(25, "VerifPS");
        }
        for i in 0..n_axes {
            add(256 + i as u16, &format!("Axis {}", i));
        }
        add(280, "Italic");
        for k in 0..x.instances.len() {
            add(290 + k as u16, &format!("Instance {}", k));
            add(295 + k as u16, &format!("VerifInst-{}", k));
        }
        for k in 0..6u16 {
            add(300 + k, ["Light", "Bold", "Wide", "Caption", "Normal", "Slanted"][k as usize]);
        }
        if m & 32 != 0 {
            if has1 {
                recs.push((1, 0, 0, 1, "Verif".to_string()));
            }
            if has2 {
                recs.push((1, 0, 0, 2, "Regular".to_string()));
            }
        }
        if m & 64 != 0 && has1 {
            recs.push((0, 3, 0, 1, "Verif".to_string()));
        }
        f.extra.push((*b"name", name_table_records(&recs, x.name_gap as usize)));
    }
    // ---- fvar with named instances; every instance is one of the tested locations
    if !x.instances.is_empty() {
        let mut list = Vec::new();
        for (k, inst) in x.instances.iter().enumerate() {
            let coords: Vec<i32> = axes.iter().enumerate().map(|(i, a)| user_value(&inst.coords[i % inst.coords.len()], a, i, all_regions).clamp(a.min, a.max)).collect();
            extra_users.push(coords.clone());
            list.push(InstanceModel { subfamily_name_id: 290 + k as u16, coords, postscript_name_id: if inst.ps { Some(295 + k as u16) } else { None } });
        }
        f.extra.push((*b"fvar", fvar_table(axes, &list, 0)));
    }
    // ---- corner locations: every axis at one of min / default / max; one region's peaks on all
    // axes at once; one region's start / end
    let before = extra_users.len();
    let s = x.corner_seed;
    extra_users.push(axes.iter().enumerate().map(|(i, a)| [a.min, a.default, a.max, a.max][(s >> (2 * i)) as usize & 3]).collect());
    if !all_regions.is_empty() {
        let r = &all_regions[pick(all_regions.len(), s.rotate_left(9))];
        extra_users.push(axes.iter().zip(r.iter()).map(|(a, ar)| user_from_norm(a, ar.peak)).collect());
        if s & 0x100 != 0 {
            extra_users.push(axes.iter().zip(r.iter()).enumerate().map(|(i, (a, ar))| user_from_norm(a, if (s >> (10 + i)) & 1 == 0 { ar.start } else { ar.end })).collect());
        }
    }
    let (mk, mu) = match &x.mvar {
        Some(m) => {
            let mut tags: Vec<u8> = m.tags.clone();
            tags.sort();
            tags.dedup();
            (tags.iter().filter(|t| **t < 32).count(), tags.iter().filter(|t| **t >= 32).count())
        }
        None => (0, 0),
    };
    ExtBuilt {
        vert,
        umm,
        gasp,
        stat_formats,
        stat_minor: x.stat.as_ref().map(|s| s.minor).unwrap_or(0),
        n_instances: x.instances.len(),
        os2_kind: x.os2_kind,
        mvar_known_tags: mk,
        mvar_unknown_tags: mu,
        mvar_subtables: x.mvar.as_ref().map(|m| m.subtables as usize).unwrap_or(0),
        mvar_long: x.mvar.as_ref().map(|m| m.long_mask & ((1u16 << m.subtables) - 1) as u8 != 0).unwrap_or(false),
        mvar_big: x.mvar.as_ref().map(|m| m.big_mask & ((1u16 << m.subtables) - 1) as u8 != 0).unwrap_or(false),
        has_anchor: glyphs.iter().any(|g| g.comps.iter().any(|c| matches!(c.args, CompArgs::Points(..)))),
        name_mask: x.name_mask,
        corner_users: extra_users.len() - before,
    }
}

/// What the extension section asserts of one instance, beyond `check_instance`.
fn check_ext_instance(x: &ExtBuilt, b: &Built, out_bytes: &[u8], loc: &[i16], agg: &mut Agg) -> CaseResult {
    let at_default = loc.iter().all(|v| *v == 0);
    // ---- a static font: none of the tables the specification lists as variation tables
    // (STAT may stay: it is also defined for static fonts)
    for t in [b"fvar", b"avar", b"gvar", b"cvar", b"HVAR", b"VVAR", b"MVAR"] {
        if find_table(out_bytes, t).is_some() {
            return Err(fail("var-table-in-output", format!("output still contains table {:?}", String::from_utf8_lossy(t))));
        }
    }
    // ---- the name table the instance got is structurally valid
    let name = find_table(out_bytes, b"name").ok_or_else(|| fail("name-table-invalid", "the instance has no name table".into()))?;
    check_name_table(name).map_err(|e| fail("name-table-invalid", format!("at {:?}: {}", loc, e)))?;
    let m = &b.model;
    let need_glyphs = !x.umm.is_empty() || x.vert.is_some();
    let out = if need_glyphs { Some(read_font(out_bytes).map_err(|e| fail("output-unreadable", e))?) } else { None };
    // ---- USE_MY_METRICS stays on the component that had it
    if let Some(out) = &out {
        for (gi, ci) in &x.umm {
            if let OutShape::Composite { components, .. } = &out.glyphs[*gi].shape {
                if components.get(*ci).map_or(true, |c| c.flags & 0x0200 == 0) {
                    return Err(fail("component-flags", format!("glyph {} component {} lost USE_MY_METRICS at {:?}", gi, ci, loc)));
                }
                agg.umm_checked += 1;
            }
        }
    }
    // ---- vertical metrics
    if let (Some(v), Some(out)) = (&x.vert, &out) {
        let ov = read_vertical(out_bytes)
            .map_err(|e| fail("vertical-metrics-unreadable", format!("at {:?}: {}", loc, e)))?
            .ok_or_else(|| fail("vertical-metrics-dropped", "the source has vhea and vmtx, the instance has neither".into()))?;
        if ov.metrics.len() != m.glyphs.len() {
            return Err(fail("vertical-metrics-unreadable", format!("{} vertical metrics for {} glyphs", ov.metrics.len(), m.glyphs.len())));
        }
        let ah_max = ov.metrics.iter().map(|x| x.0).max().unwrap_or(0);
        if ov.advance_height_max != ah_max {
            return Err(fail("advance-height-max", format!("vhea.advanceHeightMax {} but the largest advance height is {} at {:?}", ov.advance_height_max, ah_max, loc)));
        }
        // defect model: vhea and vmtx are copied from the source
        let passthrough = find_table(out_bytes, b"vmtx") == find_table(&b.font, b"vmtx") && find_table(out_bytes, b"vhea") == find_table(&b.font, b"vhea");
        for (gi, g) in m.glyphs.iter().enumerate() {
            let n = g.n_points;
            let ev = eval_glyph(n, &g.coords, &g.ends, &g.tuples, loc);
            let (ah, tsb) = v.metrics[gi];
            let (ah_o, tsb_o) = ov.metrics[gi];
            let ctx = |what: &str| format!("glyph {} ({:?}) at {:?}: {}; source advance height {} tsb {} yMax {}; tuples {:?}", gi, g.kind, loc, what, ah, tsb, g.bbox.3, g.tuples);
            if at_default {
                if ah_o == ah && g.kind == Kind::Composite && x.has_anchor {
                    // (the recomputed box of a composite is wrong in fonts with anchored
                    // components, also in the default instance: known finding; a tsb derived from
                    // its yMax inherits the error)
                    continue;
                }
                if ah_o != ah || tsb_o != tsb {
                    return Err(fail("default-vertical-metrics", ctx(&format!("default instance has advance height {} tsb {}", ah_o, tsb_o))));
                }
                continue;
            }
            let ymax_src = if g.kind == Kind::Empty { 0.0 } else { g.bbox.3 as f64 };
            let pp3_ref = ymax_src + tsb as f64 + ev.deltas[n + 2].1;
            let pp4_ref = ymax_src + tsb as f64 - ah as f64 + ev.deltas[n + 3].1;
            let ah_ref = pp3_ref - pp4_ref;
            if let Some(vv) = &v.vvar {
                let d = vv.advance_delta(gi as u16, loc).ok_or_else(|| fail("vvar-row-missing", format!("glyph {}: VVAR has no delta set", gi)))?;
                assert!((ah as f64 + d - ah_ref).abs() < 1e-6, "VVAR/gvar advance height disagree in the generated font: {} vs {}", ah as f64 + d, ah_ref);
            }
            if ev.deltas[n + 2].1 != 0.0 || ev.deltas[n + 3].1 != 0.0 {
                agg.vert_off_default_nonzero += 1;
            }
            let mut bad: Option<(&str, String)> = None;
            if ah_ref >= 1.0 && (ah_o as f64 - ah_ref).abs() > TOL {
                bad = Some(("advance-height", ctx(&format!("advance height {} but phantom points 3 and 4{} give {:.4}", ah_o, if v.vvar.is_some() { " (and VVAR)" } else { "" }, ah_ref))));
            }
            let og = &out.glyphs[gi];
            let ymax_o = if matches!(og.shape, OutShape::Empty) { 0.0 } else { og.bbox.3 as f64 };
            let pp3_o = ymax_o + tsb_o as f64;
            // (composite boxes are wrong in fonts with anchored components: known finding)
            let assertable = match g.kind {
                Kind::Simple => true,
                Kind::Empty => ev.deltas[n + 2].1 == 0.0,
                Kind::Composite => !x.has_anchor,
            };
            if bad.is_none() && assertable {
                let phantom_ok = (pp3_o - pp3_ref).abs() <= TOL;
                let vvar_ok = match (&v.vvar, v.tsb_mapped) {
                    (Some(vv), true) => {
                        let l = tsb as f64 + vv.lsb_delta(gi as u16, loc).ok_or_else(|| fail("vvar-row-missing", format!("glyph {}: VVAR has no tsb delta set", gi)))?;
                        (tsb_o as f64 - l).abs() <= TOL
                    }
                    _ => false,
                };
                if !phantom_ok && !vvar_ok {
                    bad = Some(("tsb-phantom", ctx(&format!("tsb {} with output yMax {} puts phantom point 3 at {} but it moves to {:.4}", tsb_o, ymax_o, pp3_o, pp3_ref))));
                }
            }
            match bad {
                None => agg.vert_checked += 1,
                Some((sig, msg)) => {
                    if passthrough {
                        agg.vert_defect += 1;
                        agg.deferred.get_or_insert(fail("vertical-metrics-not-instanced", format!("[vhea and vmtx of the instance are byte-for-byte those of the source] {}: {}", sig, msg)));
                        break;
                    }
                    return Err(fail(sig, msg));
                }
            }
        }
    }
    // ---- MVAR: vhea fields and gasp ranges
    let adj_of = |tag: &[u8; 4]| -> Option<f64> {
        match &m.mvar {
            Some((recs, ivs)) => recs.iter().find(|r| r.0 == *tag).and_then(|r| ivs.adjustment(r.1, r.2, loc)),
            None => None,
        }
    };
    let src_v = vhea_fields(&b.font).expect("own vhea");
    if !src_v.is_empty() {
        let out_v = vhea_fields(out_bytes).map_err(|e| fail("vertical-metrics-unreadable", e))?;
        for (tag, sv) in &src_v {
            let ov = out_v.iter().find(|f| f.0 == *tag).map(|f| f.1).ok_or_else(|| fail("vertical-metrics-dropped", "the instance has no vhea".into()))?;
            match adj_of(tag) {
                None => {
                    if ov != *sv {
                        return Err(fail("metric-without-mvar-changed", format!("vhea {:?} changed from {} to {} at {:?} without an MVAR record", String::from_utf8_lossy(tag), sv, ov, loc)));
                    }
                }
                Some(a) => {
                    let r = *sv as f64 + a;
                    if at_default && ov != *sv {
                        return Err(fail("default-mvar", format!("vhea {:?} is {} in the default instance, source {}", String::from_utf8_lossy(tag), ov, sv)));
                    }
                    if (ov as f64 - r).abs() > TOL {
                        let f = fail(
                            if ov == *sv { "mvar-vhea-not-applied" } else { "mvar" },
                            format!("vhea {:?} is {} at {:?}, reference {:.4} = {} + {:.4}; MVAR {:?}", String::from_utf8_lossy(tag), ov, loc, r, sv, a, m.mvar),
                        );
                        if ov == *sv {
                            // defect model: the MVAR record is not applied at all
                            agg.vhea_mvar_defect += 1;
                            agg.deferred.get_or_insert(f);
                        } else {
                            return Err(f);
                        }
                    } else {
                        agg.vhea_mvar_checked += 1;
                    }
                }
            }
        }
    }
    if let Some(src_g) = &x.gasp {
        let out_g = gasp_ranges(out_bytes).map_err(|e| fail("gasp-unreadable", e))?.ok_or_else(|| fail("gasp-dropped", "the source has a gasp table, the instance has none".into()))?;
        if out_g.len() != src_g.len() {
            return Err(fail("gasp-unreadable", format!("{} gasp ranges, source {}", out_g.len(), src_g.len())));
        }
        for (i, (sp, sf)) in src_g.iter().enumerate() {
            let (op, of) = out_g[i];
            let tag = [b'g', b's', b'p', b'0' + i as u8];
            let adj = adj_of(&tag);
            let r = *sp as f64 + adj.unwrap_or(0.0);
            if of != *sf || ((adj.is_none() || at_default) && op != *sp) {
                return Err(fail("gasp-changed", format!("gasp range {} is ({}, {}) at {:?}, source ({}, {})", i, op, of, loc, sp, sf)));
            }
            if adj.is_some() && r >= 1.0 && r <= 65534.0 {
                if (op as f64 - r).abs() > TOL {
                    let f = fail(
                        if op == *sp { "mvar-gasp-not-applied" } else { "mvar" },
                        format!("gasp rangeMaxPPEM[{}] is {} at {:?}, reference {:.4} = {} + {:.4}", i, op, loc, r, sp, adj.unwrap_or(0.0)),
                    );
                    if op == *sp {
                        agg.gasp_defect += 1;
                        agg.deferred.get_or_insert(f);
                    } else {
                        return Err(f);
                    }
                } else {
                    agg.gasp_checked += 1;
                }
            }
        }
    }
    Ok(())
}

fn classify_ext(x: &ExtBuilt, b: &Built, agg: &Agg, rec: &mut Rec) {
    rec.class(&format!("ext:axes:{}", b.axes.len()));
    rec.class(&format!("ext:OS/2-kind:{}", ["v0-68-bytes", "v0", "v1", "v2", "v3", "v4", "v5"][x.os2_kind.min(6) as usize]));
    match &x.vert {
        None => rec.class("ext:vertical:none"),
        Some(v) => {
            rec.class(match (&v.vvar, v.tsb_mapped) {
                (None, _) => "ext:vertical:vmtx,no-VVAR",
                (Some(_), false) => "ext:vertical:VVAR",
                (Some(_), true) => "ext:vertical:VVAR+tsb-map",
            });
            rec.class_if(v.vvar.as_ref().map_or(false, |m| m.adv_map.is_some()), "ext:vertical:VVAR-advance-map");
            rec.class_if((v.num_long as usize) < b.model.glyphs.len(), "ext:vertical:vmtx-short-tail");
        }
    }
    rec.class_if(agg.vert_checked > 0, "ext:vertical-metric-agrees-off-default");
    rec.class_if(agg.vert_off_default_nonzero > 0, "ext:vertical:phantom-3/4-delta-nonzero");
    rec.class_if(agg.vert_defect > 0, "ext:vertical:attributed-not-instanced");
    rec.class_if(agg.vhea_mvar_checked > 0, "ext:MVAR-vhea-field-agrees");
    rec.class_if(agg.vhea_mvar_defect > 0, "ext:MVAR-vhea:attributed-not-applied");
    rec.class_if(agg.gasp_checked > 0, "ext:MVAR-gasp-agrees");
    rec.class_if(agg.gasp_defect > 0, "ext:MVAR-gasp:attributed-not-applied");
    rec.class_if(x.gasp.is_some(), "ext:gasp");
    rec.class_if(agg.umm_checked > 0, "ext:USE_MY_METRICS");
    rec.class_if(x.has_anchor, "ext:composite-anchored");
    match x.stat_formats {
        None => rec.class("ext:STAT:none"),
        Some(f) => {
            rec.class(&format!("ext:STAT:1.{}", x.stat_minor));
            for k in 0..4 {
                rec.class_if(f >> k & 1 == 1, &format!("ext:STAT:format{}", k + 1));
            }
            rec.class_if(f == 0, "ext:STAT:no-axis-values");
        }
    }
    rec.class(&format!("ext:named-instances:{}", x.n_instances));
    rec.class_if(x.name_mask & 1 == 0 && x.name_mask & 2 != 0, "ext:name:no-id-1");
    rec.class_if(x.name_mask & 4 == 0 && x.name_mask & 8 != 0, "ext:name:no-id-2");
    rec.class_if(x.name_mask & 128 == 0, "ext:name:no-ids-3,4,6");
    rec.class_if(x.name_mask & 32 != 0, "ext:name:mac-records");
    if b.model.mvar.is_some() {
        rec.class(&format!("ext:MVAR:subtables:{}", x.mvar_subtables));
        rec.class_if(x.mvar_long, "ext:MVAR:LONG_WORDS");
        rec.class_if(x.mvar_big, "ext:MVAR:unreferenced-big-row");
        rec.class_if(x.mvar_unknown_tags > 0, "ext:MVAR:unknown-tags");
        rec.class(&format!("ext:MVAR:known-tags:{}", match x.mvar_known_tags { 0 => "0", 1..=3 => "1-3", 4..=7 => "4-7", _ => "8+" }));
        if let Some((recs, _)) = &b.model.mvar {
            for r in recs {
                if MVAR_TAGS_EXT[..32].iter().any(|t| **t == r.0) {
                    rec.class(&format!("ext:MVAR:tag:{}", String::from_utf8_lossy(&r.0)));
                }
            }
        }
    } else {
        rec.class("ext:MVAR:none");
    }
    let s = &b.stats;
    rec.class_if(s.point_word_run_128 > 0, "ext:point-word-run-128");
    rec.class_if(s.delta_zero_run_64 > 0, "ext:delta-zero-run-64");
    rec.class_if(s.delta_word_run_64 > 0, "ext:delta-word-run-64");
    rec.class_if(b.model.glyphs.iter().any(|g| g.n_points > 255), "ext:glyph>255-points");
    rec.class_if(b.model.glyphs.iter().any(|g| g.tuples.iter().any(|t| t.points.is_none()) && g.tuples.iter().any(|t| t.points.is_some())), "ext:all-points+point-list-in-one-glyph");
    rec.class(&format!("ext:corner-users:{}", x.corner_users));
}

pub fn check_ext_case(xc: &ExtCase, rec: &mut Rec) -> CaseResult {
    let b = build_ext(&xc.base, Some(&xc.ext));
    check_case_built(&xc.base, &b, rec)
}

// ------------------------------------------------------------------ fixture variable fonts

const FIXTURES: [&str; 4] = [
    "fonts/opentype/NotoSans-VF.abc.ttf",
    "fonts/variable/Inter[slnt,wght].abc.ttf",
    "fonts/variable/UnderlineTest-VF.ttf",
    "fonts/variable/Zycon.ttf",
];
const FIXTURE_COORDS: u64 = 48;

fn be16(d: &[u8], at: usize) -> Option<u16> {
    d.get(at..at + 2).map(|b| u16::from_be_bytes([b[0], b[1]]))
}
fn be32(d: &[u8], at: usize) -> Option<i32> {
    d.get(at..at + 4).map(|b| i32::from_be_bytes([b[0], b[1], b[2], b[3]]))
}

/// The location `instance` reports against an f64 reading of the source font's fvar and avar.
/// Normalisation is decided exactly by C13; here a gross error (another axis's segment map, a
/// map not applied, a wrong axis record) must not pass as "the instance at some other location":
/// tolerance 2·max(1, slope of the avar segment) + 2 units of 2.14. Axes whose segment map is not
/// valid (required pairs missing, `from` not strictly increasing, `to` decreasing) are skipped.
fn check_loc(font: &[u8], user: &[i32], loc: &[i16], rec: &mut Rec) -> CaseResult {
    let axes = match find_table(font, b"fvar").and_then(read_fvar_axes) {
        Some(a) if a.len() == user.len() && a.len() == loc.len() => a,
        _ => return Ok(()),
    };
    // avar version 1: per axis a list of (from, to) pairs
    let mut maps: Vec<Option<Vec<(f64, f64)>>> = vec![None; axes.len()];
    if let Some(avar) = find_table(font, b"avar") {
        if be16(avar, 0) == Some(1) && be16(avar, 6).map(|n| n as usize) == Some(axes.len()) {
            let mut at = 8usize;
            for m in maps.iter_mut() {
                let n = match be16(avar, at) {
                    Some(n) => n as usize,
                    None => return Ok(()),
                };
                at += 2;
                let mut v = Vec::with_capacity(n);
                for _ in 0..n {
                    match (be16(avar, at), be16(avar, at + 2)) {
                        (Some(f), Some(t)) => v.push((f as i16 as f64 / 16384.0, t as i16 as f64 / 16384.0)),
                        _ => return Ok(()),
                    }
                    at += 4;
                }
                *m = Some(v);
            }
        } else {
            return Ok(());
        }
    }
    for (i, a) in axes.iter().enumerate() {
        let (min, def, max) = (a.min as f64, a.default as f64, a.max as f64);
        if !(min <= def && def <= max) {
            continue;
        }
        let u = (user[i] as f64).clamp(min, max);
        let mut n = if u < def { -(def - u) / (def - min) } else if u > def { (u - def) / (max - def) } else { 0.0 };
        let mut slope = 1.0f64;
        if let Some(m) = &maps[i] {
            if !m.is_empty() {
                let valid = m.windows(2).all(|w| w[0].0 < w[1].0 && w[0].1 <= w[1].1)
                    && m.contains(&(-1.0, -1.0))
                    && m.contains(&(0.0, 0.0))
                    && m.contains(&(1.0, 1.0));
                if !valid {
                    rec.class("loc-check:avar-map-not-valid,axis-skipped");
                    continue;
                }
                let k = m.iter().position(|p| n <= p.0).unwrap_or(m.len() - 1).max(1);
                let (f0, t0) = m[k - 1];
                let (f1, t1) = m[k];
                slope = (t1 - t0) / (f1 - f0);
                n = t0 + (n - f0) * slope;
                // the 16.16 / 2.14 roundings of the library may carry a value that lies within a
                // unit of a knot into the neighbouring segment: the tolerance follows the
                // steepest of the segment and its two neighbours
                if k + 1 < m.len() {
                    slope = slope.max((m[k + 1].1 - t1) / (m[k + 1].0 - f1));
                }
                if k >= 2 {
                    slope = slope.max((t0 - m[k - 2].1) / (f0 - m[k - 2].0));
                }
            }
        }
        let n = n.clamp(-1.0, 1.0);
        let tol = 2.0 * slope.max(1.0) + 2.0;
        let got = loc[i] as f64;
        if (got - n * 16384.0).abs() > tol {
            return Err(fail(
                "location",
                format!(
                    "axis {} ({}; min {} default {} max {} raw 16.16): user {} is reported at normalised {} (raw 2.14) but fvar{} give {:.2} (tolerance {:.1}); whole user tuple {:?}, reported location {:?}",
                    i,
                    String::from_utf8_lossy(&a.tag),
                    a.min,
                    a.default,
                    a.max,
                    user[i],
                    loc[i],
                    if maps[i].is_some() { " and the axis's avar segment map" } else { "" },
                    n * 16384.0,
                    tol,
                    user,
                    loc
                ),
            ));
        }
    }
    rec.class("loc-check:done");
    Ok(())
}

/// (tag, min, default, max) per axis, read from fvar per the specification
fn read_fvar_axes(fvar: &[u8]) -> Option<Vec<AxisModel>> {
    let off = be16(fvar, 4)? as usize;
    let count = be16(fvar, 8)? as usize;
    let size = be16(fvar, 10)? as usize;
    let mut v = Vec::new();
    for i in 0..count {
        let at = off + i * size;
        v.push(AxisModel {
            tag: fvar.get(at..at + 4)?.try_into().ok()?,
            min: be32(fvar, at + 4)?,
            default: be32(fvar, at + 8)?,
            max: be32(fvar, at + 12)?,
            flags: 0,
            name_id: 0,
        });
    }
    Some(v)
}

/// Decode a fixture into the same model the generated fonts are checked against.
fn fixture_model(bytes: &[u8]) -> Result<(Model, ParsedFont, Vec<AxisModel>, Vec<Region>), String> {
    let src = read_font(bytes)?;
    let axes = read_fvar_axes(find_table(bytes, b"fvar").ok_or("no fvar")?).ok_or("fvar unreadable")?;
    let np: Vec<usize> = src
        .glyphs
        .iter()
        .map(|g| match &g.shape {
            OutShape::Empty => 0,
            OutShape::Simple { points, .. } => points.len(),
            OutShape::Composite { components, .. } => components.len(),
        })
        .collect();
    let mut tuples = decode_gvar(find_table(bytes, b"gvar").ok_or("no gvar")?, &np)?;
    tuples.resize(src.glyphs.len(), Vec::new());
    let mut regions: Vec<Region> = Vec::new();
    let mut glyphs = Vec::new();
    for (gi, g) in src.glyphs.iter().enumerate() {
        for t in &tuples[gi] {
            if !regions.contains(&t.region) {
                regions.push(t.region.clone());
            }
        }
        let mut m = GlyphModel {
            kind: Kind::Empty,
            coords: Vec::new(),
            on: Vec::new(),
            ends: Vec::new(),
            comps: Vec::new(),
            transforms: Vec::new(),
            n_points: np[gi],
            tuples: tuples[gi].clone(),
            enc: GlyphVarEnc::default(),
            advance: src.metrics[gi].0,
            lsb: src.metrics[gi].1,
            bbox: g.bbox,
            record: Vec::new(),
            big: false,
        };
        match &g.shape {
            OutShape::Empty => {}
            OutShape::Simple { ends, points, .. } => {
                m.kind = Kind::Simple;
                m.coords = points.iter().map(|p| (p.0, p.1)).collect();
                m.on = points.iter().map(|p| p.2).collect();
                m.ends = ends.iter().map(|e| *e as usize).collect();
            }
            OutShape::Composite { components, .. } => {
                m.kind = Kind::Composite;
                for c in components {
                    m.comps.push(ComponentEnc {
                        glyph: c.glyph,
                        args: if c.xy { CompArgs::Offset(c.arg1 as i16, c.arg2 as i16) } else { CompArgs::Points(c.arg1 as u16, c.arg2 as u16) },
                        force_words: false,
                        round_to_grid: c.flags & 0x0004 != 0,
                        transform: c.transform.clone(),
                        scaled_offset: c.flags & 0x0800 != 0,
                    });
                    m.transforms.push(c.transform.clone());
                }
            }
        }
        glyphs.push(m);
    }
    let hvar = match find_table(bytes, b"HVAR") {
        Some(d) => Some(decode_hvar(d)?),
        None => None,
    };
    let mvar = match find_table(bytes, b"MVAR") {
        Some(d) => {
            let (recs, ivs) = decode_mvar(d)?;
            ivs.map(|i| (recs, i))
        }
        None => None,
    };
    if let Some((_, ivs)) = &mvar {
        for r in &ivs.regions {
            if !regions.contains(r) {
                regions.push(r.clone());
            }
        }
    }
    let hvar_lsb_mapped = hvar.as_ref().map(|h| h.lsb_map.is_some()).unwrap_or(false);
    let cvt = match (find_table(bytes, b"cvt "), find_table(bytes, b"cvar")) {
        (Some(c), Some(v)) => {
            let vals: Vec<i16> = c.chunks_exact(2).map(|b| i16::from_be_bytes([b[0], b[1]])).collect();
            let tv = decode_cvar(v, axes.len(), vals.len())?;
            Some((vals, tv))
        }
        (Some(c), None) => Some((c.chunks_exact(2).map(|b| i16::from_be_bytes([b[0], b[1]])).collect(), Vec::new())),
        _ => None,
    };
    Ok((Model { glyphs, hvar, hvar_consistent: false, hvar_lsb_mapped, mvar, cvt }, src, axes, regions))
}

fn check_fixture(item: u64, rec: &mut Rec) -> CaseResult {
    let name = FIXTURES[(item % FIXTURES.len() as u64) as usize];
    let k = item / FIXTURES.len() as u64;
    let bytes = match fixtures::read(name) {
        Some(b) => b,
        None => {
            rec.class("fixture-missing");
            return Ok(());
        }
    };
    let (model, src, axes, regions) = fixture_model(&bytes).map_err(|e| Fail::new("C12:fixture-decode", format!("{}: my decoders cannot read the fixture: {}", name, e)))?;
    let src_fields = metric_fields(&bytes).map_err(|e| Fail::new("C12:fixture-decode", format!("{}: {}", name, e)))?;
    let fd = ReadScope::new(&bytes).read::<FontData<'_>>().map_err(|e| fail("source-not-loadable", format!("{:?}", e)))?;
    let prov = fd.table_provider(0).map_err(|e| fail("source-not-loadable", format!("{:?}", e)))?;
    let user: Vec<i32> = axes
        .iter()
        .enumerate()
        .map(|(i, a)| {
            if k == 0 {
                a.default
            } else {
                let h = mix64(item.wrapping_mul(0x9e37) ^ ((i as u64) << 40));
                let kind = [0u8, 1, 2, 3, 3, 3, 4, 5, 5, 5, 6, 7][(h % 12) as usize];
                user_value(&CoordSpec { kind, r: (h >> 16) as u32, off: if h & 0x100 != 0 { 1 } else { -1 } }, a, i, &regions)
            }
        })
        .collect();
    let tuple: Vec<Fixed> = user.iter().map(|v| Fixed::from_raw(*v)).collect();
    let (out, loc) = allsorts::variations::instance(&prov, &tuple).map_err(|e| fail("instance-err", format!("{}: instance() failed at user tuple {:?}: {:?}", name, user, e)))?;
    let loc: Vec<i16> = loc.iter().map(|v| v.raw_value()).collect();
    check_loc(&bytes, &user, &loc, rec).map_err(|f| Fail::new(f.sig, format!("{}: {}", name, f.msg)))?;
    let mut agg = Agg::default();
    check_instance(&model, &src, &src_fields, &out, &loc, rec, &mut agg).map_err(|f| Fail::new(f.sig, format!("{} (user {:?}): {}", name, user, f.msg)))?;
    rec.set_nontrivial(agg.fractional && agg.inferred);
    rec.class(&format!("fixture:{}", name.rsplit('/').next().unwrap_or(name)));
    rec.class_if(agg.fractional, "fixture:scalar-fractional");
    rec.class_if(agg.inferred, "fixture:inferred-delta");
    rec.class_if(agg.on_edge, "fixture:coordinate-on-region-edge");
    rec.class_if(agg.applicable_max >= 3, "fixture:overlapping-tuples>=3");
    rec.class_if(agg.mvar_checked > 0, "fixture:MVAR-field-checked");
    rec.class_if(model.hvar.is_some(), "fixture:HVAR");
    rec.class_if(agg.cvt_checked, "fixture:cvar");
    rec.hash_u64(item);
    rec.sample(|| format!("{} at {:?} -> {:?}", name, user, loc));
    if let Some(f) = agg.deferred.take() {
        return Err(f);
    }
    Ok(())
}

// ------------------------------------------------------------------ CFF2 instancing

/// A generated CFF2 variable font: the C18 charstring/table generator (path model with
/// per-region deltas, `blend`/`vsindex`, font dicts, subroutines) wrapped into a complete
/// OpenType font with fvar (+avar, HVAR, MVAR).
#[derive(Clone, Debug)]
pub struct Cff2Case {
    pub cs: c18::Case,
    pub axes: Vec<AxisSpec>,
    pub with_avar: bool,
    pub hvar: Option<HvarSpec>,
    pub mvar: Option<MvarSpec>,
    pub coords: Vec<Vec<CoordSpec>>,
    pub hmtx_seed: u32,
}

pub fn cff2_case_strategy() -> impl Strategy<Value = Cff2Case> {
    let a = (
        any::<u64>(),
        1usize..=6,
        proptest::bool::weighted(0.5),
        proptest::bool::weighted(0.6),
        prop_oneof![2 => Just(0usize), 3 => 1usize..=4],
        prop_oneof![2 => Just(0usize), 3 => 1usize..=4],
        proptest::bool::weighted(0.08),
        1usize..=10,
        prop_oneof![40 => Just(0u8), 1 => 1u8..=4],
        1usize..=3,
    );
    let b = (
        proptest::collection::vec(axis_spec(), 1..=3),
        any::<u8>(),
        prop_oneof![3 => Just(1u8), 1 => 2u8..=4],
        prop_oneof![3 => Just(0u8), 1 => 1u8..=3],
        proptest::bool::weighted(0.3),
        proptest::option::weighted(0.5, hvar_spec()),
        proptest::option::weighted(0.35, mvar_spec()),
        proptest::collection::vec(proptest::collection::vec(coord_spec(), 3), 4),
        any::<u32>(),
    );
    (a, b).prop_map(
        |((seed, nglyphs, hints, free_forms, nfrags, cuts, deep, max_segs, pad, nfd), (axes, block_order, off_size, header_extra, with_avar, hvar, mvar, coords, hmtx_seed))| Cff2Case {
            cs: c18::Case {
                kind: c18::Kind::Cff2,
                seed,
                nglyphs,
                grid: 3,
                hints,
                width: false,
                free_forms,
                nfrags,
                cuts,
                deep,
                max_segs,
                pad,
                nfd,
                variable: true,
                axes: axes.len(),
                block_order,
                off_size,
                header_extra,
                via_sfnt: true,
            },
            axes,
            with_avar,
            hvar,
            mvar,
            coords,
            hmtx_seed,
        },
    )
}

#[derive(Default)]
struct CmdSink {
    cmds: Vec<Cmd>,
}

impl OutlineSink for CmdSink {
    fn move_to(&mut self, to: Vector2F) {
        self.cmds.push(Cmd::Move(to.x() as f64, to.y() as f64));
    }
    fn line_to(&mut self, to: Vector2F) {
        self.cmds.push(Cmd::Line(to.x() as f64, to.y() as f64));
    }
    fn quadratic_curve_to(&mut self, ctrl: Vector2F, to: Vector2F) {
        // never produced for CFF outlines; recorded as a curve with equal controls so that it
        // cannot compare equal by accident
        self.cmds.push(Cmd::Curve(ctrl.x() as f64, ctrl.y() as f64, ctrl.x() as f64, ctrl.y() as f64, to.x() as f64 + 0.123, to.y() as f64));
    }
    fn cubic_curve_to(&mut self, ctrl: LineSegment2F, to: Vector2F) {
        self.cmds.push(Cmd::Curve(ctrl.from_x() as f64, ctrl.from_y() as f64, ctrl.to_x() as f64, ctrl.to_y() as f64, to.x() as f64, to.y() as f64));
    }
    fn close(&mut self) {
        self.cmds.push(Cmd::Close);
    }
}

fn render_cmds(cmds: &[Cmd]) -> String {
    let mut s = String::new();
    for c in cmds.iter().take(30) {
        match c {
            Cmd::Move(x, y) => s.push_str(&format!("M {} {} ", x, y)),
            Cmd::Line(x, y) => s.push_str(&format!("L {} {} ", x, y)),
            Cmd::Curve(a, b, c2, d, e, f) => s.push_str(&format!("C {} {} {} {} {} {} ", a, b, c2, d, e, f)),
            Cmd::Close => s.push_str("Z "),
        }
    }
    if cmds.len() > 30 {
        s.push('…');
    }
    s
}

fn max_abs_coord(cmds: &[Cmd]) -> f64 {
    let mut m = 0f64;
    for c in cmds {
        match c {
            Cmd::Move(x, y) | Cmd::Line(x, y) => m = m.max(x.abs()).max(y.abs()),
            Cmd::Curve(a, b, c2, d, e, f) => {
                for v in [a, b, c2, d, e, f] {
                    m = m.max(v.abs());
                }
            }
            Cmd::Close => {}
        }
    }
    m
}

/// Does a charstring / subroutine body contain the `blend` operator? Tokenises numbers and
/// operators; gives up (false) at hintmask/cntrmask, whose length depends on the stem count.
fn body_has_blend(b: &[u8]) -> bool {
    let mut i = 0usize;
    while i < b.len() {
        match b[i] {
            28 => i += 3,
            255 => i += 5,
            32..=246 => i += 1,
            247..=254 => i += 2,
            12 => i += 2,
            16 => return true,
            19 | 20 => return false,
            _ => i += 1,
        }
    }
    false
}

fn vs_region(r: &[[i16; 3]], n_axes: usize) -> Region {
    (0..n_axes)
        .map(|a| {
            let t = r.get(a).copied().unwrap_or([0, 0, 0]);
            AxisRegion { start: t[0], peak: t[1], end: t[2] }
        })
        .collect()
}

/// What the oracle needs to judge one instance of a CFF2 font.
struct Cff2Expect<'a> {
    /// expected commands per glyph at the location, and the tolerance for that glyph
    wants: Vec<(Vec<Cmd>, f64)>,
    src_metrics: &'a [(u16, i16)],
    src_long_metrics: usize,
    src_fields: &'a [([u8; 4], i32)],
    hvar: Option<&'a HvarModel>,
    mvar: Option<&'a (Vec<([u8; 4], u16, u16)>, IvsModel)>,
    /// no region of the font's variation data applies at the default location (a region whose
    /// peaks are all zero has scalar 1 everywhere): the default instance must then be exact
    exact_default: bool,
}

/// Judge the output of `instance()` for a CFF2 font at normalised location `loc`.
fn check_cff2_instance(e: &Cff2Expect<'_>, out_bytes: &[u8], loc: &[i16], agg: &mut Agg) -> CaseResult {
    let at_default = e.exact_default && loc.iter().all(|v| *v == 0);
    let (_, dir) = crate::fontgen::sfnt::parse_directory(out_bytes).ok_or_else(|| fail("cff2-output-unreadable", "no sfnt directory".into()))?;
    for t in dir.iter().map(|d| d.tag) {
        if &t[1..] == b"var" || &t[1..] == b"VAR" {
            return Err(fail("var-table-in-output", format!("output still contains table {:?}", String::from_utf8_lossy(&t))));
        }
    }
    let table = find_table(out_bytes, b"CFF2").ok_or_else(|| fail("cff2-output-unreadable", "the instance has no CFF2 table".into()))?;
    // independent reader + interpreter on the output bytes
    let mine = T2Font::parse_cff2(table).map_err(|m| fail("cff2-output-unreadable", format!("independent reader cannot parse the instanced CFF2 table: {}", m)))?;
    if mine.vstore.is_some() {
        return Err(fail("cff2-vstore-in-output", "the instanced CFF2 table still has a VariationStore".into()));
    }
    if mine.charstrings.len() != e.wants.len() {
        return Err(fail("glyph-count", format!("{} glyphs in, {} out", e.wants.len(), mine.charstrings.len())));
    }
    // allsorts' own reader / visitor, no tuple
    let cff2 = ReadScope::new(table).read::<CFF2<'_>>().map_err(|m| fail("output-not-loadable", format!("CFF2::read on the instance: {:?}", m)))?;
    for (g, (want, tol)) in e.wants.iter().enumerate() {
        let tol = if at_default { 1e-6 } else { *tol };
        let got_mine = mine.outline(g, None, &Deviations::default()).map_err(|m| {
            fail(
                if m.contains("blend") { "cff2-blend-left-in-output" } else { "cff2-output-charstring-invalid" },
                format!("glyph {} at {:?}: independent interpreter fails on the instanced charstring: {}; bytes {}", g, loc, m, hex::encode(mine.charstrings[g])),
            )
        })?;
        if let Some(d) = diff_commands(&got_mine, want, tol) {
            return Err(fail(
                if at_default { "cff2-default-outline" } else { "cff2-outline" },
                format!("glyph {} at {:?} (independent interpreter on the output): {} (tolerance {:.5}); got {} — expected {}", g, loc, d, tol, render_cmds(&got_mine), render_cmds(want)),
            ));
        }
        let mut sink = CmdSink::default();
        CFF2Outlines { table: &cff2, tuple: None }
            .visit(g as u16, &mut sink)
            .map_err(|m| fail("cff2-visit-error", format!("glyph {} at {:?}: allsorts cannot visit the glyph of its own instance: {:?}", g, loc, m)))?;
        if let Some(d) = diff_commands(&sink.cmds, want, tol + 1e-3 + max_abs_coord(want) / 1_000_000.0) {
            return Err(fail(
                if at_default { "cff2-default-outline" } else { "cff2-outline" },
                format!("glyph {} at {:?} (allsorts visitor on the output): {}; got {} — expected {}", g, loc, d, render_cmds(&sink.cmds), render_cmds(want)),
            ));
        }
    }
    // ---- hmtx
    let mut hmtx_broken = false;
    {
        let nhm = find_table(out_bytes, b"hhea").and_then(|h| be16(h, 34)).unwrap_or(0) as usize;
        let len = find_table(out_bytes, b"hmtx").map(|h| h.len()).unwrap_or(0);
        let n = e.wants.len();
        if nhm > n || len != 4 * nhm + 2 * (n - nhm) {
            // a specific, separately reported defect: deferred so that the outlines and the
            // other locations of the case are still judged
            hmtx_broken = true;
            agg.deferred.get_or_insert(fail(
                "cff2-hmtx-length-vs-numberOfHMetrics",
                format!("the instance's hhea.numberOfHMetrics is {} for {} glyphs but its hmtx table has {} bytes (source: {} long metrics)", nhm, n, len, e.src_long_metrics),
            ));
        }
    }
    if !hmtx_broken {
    let om = read_hmtx(out_bytes).map_err(|m| fail("cff2-output-unreadable", m))?;
    if om.len() != e.src_metrics.len() {
        return Err(fail("glyph-count", format!("hmtx has {} entries, source {}", om.len(), e.src_metrics.len())));
    }
    if om.len() >= 2 {
        if om[om.len() - 1].0 == om[om.len() - 2].0 {
            agg.tail_equal = true;
            agg.tail_equal_off_default |= !loc.iter().all(|v| *v == 0);
            agg.tail_zero |= om[om.len() - 1].0 == 0;
        } else {
            agg.tail_differs = true;
        }
    }
    for (g, ((adv_o, lsb_o), (adv_s, lsb_s))) in om.iter().zip(e.src_metrics.iter()).enumerate() {
        match e.hvar {
            None => {
                if adv_o != adv_s || lsb_o != lsb_s {
                    return Err(fail("cff2-metrics-changed-without-hvar", format!("glyph {} at {:?}: advance/lsb {}/{} but the source has {}/{} and no HVAR", g, loc, adv_o, lsb_o, adv_s, lsb_s)));
                }
            }
            Some(h) => {
                let d = h.advance_delta(g as u16, loc).ok_or_else(|| fail("hvar-row-missing", format!("glyph {}: HVAR has no delta set", g)))?;
                let r = *adv_s as f64 + d;
                if at_default && (adv_o != adv_s || lsb_o != lsb_s) {
                    return Err(fail("default-metrics", format!("glyph {}: default instance has advance {} lsb {}, source {} {}", g, adv_o, lsb_o, adv_s, lsb_s)));
                }
                if r < 1.0 && *adv_o as f64 > r.max(0.0) + TOL {
                    return Err(fail("advance-hvar", format!("glyph {} at {:?}: advance {} but HVAR gives {:.4} (clamped at 0)", g, loc, adv_o, r)));
                }
                if r >= 1.0 && (*adv_o as f64 - r).abs() > TOL {
                    return Err(fail("advance-hvar", format!("glyph {} at {:?}: advance {} but HVAR gives {:.4} = {} + {:.4}; advance map {:?}", g, loc, adv_o, r, adv_s, d, h.adv_map)));
                }
                match h.lsb_delta(g as u16, loc) {
                    Some(ld) => {
                        let l = *lsb_s as f64 + ld;
                        if (*lsb_o as f64 - l).abs() > TOL {
                            return Err(fail("cff2-lsb-hvar", format!("glyph {} at {:?}: lsb {} but HVAR's lsb mapping gives {:.4}", g, loc, lsb_o, l)));
                        }
                        agg.lsb_from_hvar += 1;
                    }
                    None => {
                        if lsb_o != lsb_s {
                            return Err(fail("cff2-lsb-changed", format!("glyph {} at {:?}: lsb {} but the source has {} and HVAR has no lsb mapping", g, loc, lsb_o, lsb_s)));
                        }
                    }
                }
            }
        }
    }
    }
    // ---- MVAR
    let out_fields = metric_fields(out_bytes).map_err(|m| fail("cff2-output-unreadable", m))?;
    for (tag, sv) in e.src_fields {
        let ov = out_fields.iter().find(|f| f.0 == *tag).map(|f| f.1).ok_or_else(|| fail("cff2-output-unreadable", "metric field missing".into()))?;
        let adj = e.mvar.and_then(|(recs, ivs)| recs.iter().find(|r| r.0 == *tag).and_then(|r| ivs.adjustment(r.1, r.2, loc)));
        match adj {
            None => {
                if ov != *sv {
                    return Err(fail("metric-without-mvar-changed", format!("{:?} changed from {} to {} at {:?} without an MVAR record", String::from_utf8_lossy(tag), sv, ov, loc)));
                }
            }
            Some(a) => {
                let r = *sv as f64 + a;
                if (tag == b"hcla" || tag == b"hcld") && r < 1.0 {
                    continue;
                }
                if at_default && ov != *sv {
                    return Err(fail("default-mvar", format!("{:?} is {} in the default instance, source {}", String::from_utf8_lossy(tag), ov, sv)));
                }
                if (ov as f64 - r).abs() > TOL {
                    return Err(fail("mvar", format!("{:?} is {} at {:?}, reference {:.4} = {} + {:.4}", String::from_utf8_lossy(tag), ov, loc, r, sv, a)));
                }
                agg.mvar_checked += 1;
            }
        }
    }
    // ---- loadable, not variable
    if hmtx_broken {
        return Ok(());
    }
    let fd = ReadScope::new(out_bytes).read::<FontData<'_>>().map_err(|m| fail("output-not-loadable", format!("{:?}", m)))?;
    let prov = fd.table_provider(0).map_err(|m| fail("output-not-loadable", format!("{:?}", m)))?;
    let font = Font::new(prov).map_err(|m| fail("output-not-loadable", format!("Font::new: {:?}", m)))?;
    if font.is_variable() {
        return Err(fail("output-is-variable", "Font::is_variable() is true for the instance".into()));
    }
    Ok(())
}

pub fn check_cff2_case(case: &Cff2Case, rec: &mut Rec) -> CaseResult {
    // half of the fonts use a non-canonical (but legal) CFF2 container layout (headerSize > 5,
    // wide offSizes, reordered DICT operators, gaps, trailing VariationStore bytes)
    let lseed = if case.cs.seed & 1 == 1 { Some(case.cs.seed.rotate_left(17) ^ 0x9E37_79B9_7F4A_7C15) } else { None };
    let b = c18::build_with(&case.cs, &c18::layout_of(lseed));
    rec.class_if(lseed.is_some(), "cff2:non-canonical-layout");
    let vs = b.vstore.as_ref().expect("variable C18 case has a VariationStore");
    let n_axes = case.axes.len();
    let cff2_mode4 = b.glyphs.len() >= 2 && (case.hmtx_seed >> 1) % 8 == 7;
    let (axes, fvar, avar) = axes_tables(&case.axes, case.with_avar && !cff2_mode4);
    let vs_regions: Vec<Region> = vs.regions.iter().map(|r| vs_region(r, n_axes)).collect();
    let mut all_regions = vs_regions.clone();
    // a region whose peaks are all zero applies (scalar 1) everywhere, the default location
    // included; the C18 generator produces some
    let always_on = vs_regions.iter().any(|r| r.iter().all(|a| a.peak == 0));
    let n = b.glyphs.len();
    // hmtx with varied advances / side bearings, a short tail sometimes
    let mut metrics: Vec<(u16, i16)> = (0..n).map(|g| {
        let h = mix64(((case.hmtx_seed as u64) << 8) ^ g as u64);
        (200 + (h % 900) as u16, ((h >> 16) % 121) as i16 - 60)
    }).collect();
    // metric structure (see MetricSpec): 0 independent, 1 monospaced, 2 equal tail with equal
    // deltas (possibly zero width), 3 equal tail at the default only, 4 equal at one location
    let metric_mode: u8 = if n >= 2 { [0u8, 0, 0, 0, 1, 2, 3, 4][((case.hmtx_seed >> 1) % 8) as usize] } else { 0 };
    let tail_k = match metric_mode {
        0 => 0,
        1 => n,
        _ => 2 + ((case.hmtx_seed >> 8) as usize % (n - 1)),
    };
    let tail_start = n - tail_k;
    let zero_tail = metric_mode == 2 && (case.hmtx_seed >> 16) & 3 == 0;
    if matches!(metric_mode, 1 | 2 | 3) {
        let a = if zero_tail { 0 } else { metrics[tail_start].0 };
        for m in metrics[tail_start..].iter_mut() {
            m.0 = a;
        }
    }
    if metric_mode == 4 {
        for (j, m) in metrics[tail_start..].iter_mut().enumerate() {
            m.0 += 7 * j as u16;
        }
    }
    let want_short = case.hmtx_seed & 1 == 1 && n >= 2;
    let mut nhm = n as u16;
    if want_short {
        match metric_mode {
            0 => {
                metrics[n - 1].0 = metrics[n - 2].0;
                nhm = (n - 1) as u16;
            }
            1 | 2 | 3 => nhm = (n - tail_k + 1) as u16,
            _ => {}
        }
    }
    let short_tail = (nhm as usize) < n;
    let adv_max = metrics.iter().map(|m| m.0).max().unwrap_or(0);
    let mut extra: Vec<([u8; 4], Vec<u8>)> = vec![
        (*b"fvar", fvar),
        (*b"hmtx", crate::fontgen::basic::hmtx(&metrics, nhm)),
        (*b"hhea", crate::fontgen::basic::hhea(800, -200, adv_max, nhm)),
    ];
    if let Some(a) = avar {
        extra.push((*b"avar", a));
    }
    let mut hvar_model = None;
    let mut extra_users: Vec<Vec<i32>> = Vec::new();
    if let Some(h) = &case.hvar {
        let mut uniq: Vec<Region> = Vec::new();
        for r in vs_regions.iter().filter(|r| r.iter().any(|a| a.peak != 0)).cloned() {
            if !uniq.contains(&r) {
                uniq.push(r);
            }
        }
        if h.seed & 1 == 1 || uniq.is_empty() {
            let r: Region = (0..n_axes).map(|a| implied_axis_region(if a == 0 { -16384 } else { 0 })).collect();
            if !uniq.contains(&r) {
                uniq.push(r);
            }
        }
        let mut rows: Vec<Vec<i32>> = (0..n)
            .map(|g| (0..uniq.len()).map(|r| {
                let hh = mix64(((h.seed as u64) << 20) ^ ((g * 17 + r) as u64));
                if hh & 7 == 0 { (hh >> 8) as i32 % 400 - 200 } else { (hh >> 8) as i32 % 100 - 50 }
            }).collect())
            .collect();
        match metric_mode {
            1 | 2 => {
                let shared: Vec<i32> = if zero_tail { vec![0; uniq.len()] } else { rows[tail_start].clone() };
                for r in rows[tail_start..].iter_mut() {
                    *r = shared.clone();
                }
            }
            4 => {
                // the advances of the tail coincide at the peak of region 0
                let target = metrics[tail_start..].iter().map(|m| m.0).max().unwrap_or(0) as i32 + (h.seed % 60) as i32;
                for g in tail_start..n {
                    rows[g] = vec![0; uniq.len()];
                    rows[g][0] = target - metrics[g].0 as i32;
                }
                extra_users.push(axes.iter().zip(uniq[0].iter()).map(|(a, r)| user_from_norm(a, r.peak)).collect());
            }
            _ => {}
        }
        for r in &uniq {
            if !all_regions.contains(r) {
                all_regions.push(r.clone());
            }
        }
        let (bytes, model) = encode_hvar(h, n_axes, &uniq, &rows);
        extra.push((*b"HVAR", bytes));
        hvar_model = Some(model);
    }
    let mut mvar_model = None;
    if let Some(m) = &case.mvar {
        let (bytes, model, regions) = encode_mvar(m, n_axes, false);
        for r in &regions {
            if !all_regions.contains(r) {
                all_regions.push(r.clone());
            }
        }
        extra.push((*b"MVAR", bytes));
        mvar_model = Some(model);
    }
    let font = build_otf(b.table.clone(), true, n as u16, &extra);
    rec.artefact("font", &font);
    rec.hash_bytes(&font);

    // ---- harness self-check: my interpreter on the source reproduces the model at a tuple
    let src_t2 = T2Font::parse_cff2(&b.table).unwrap_or_else(|e| panic!("harness self-check: refmodel cannot parse the generated CFF2 table: {}", e));
    let src_metrics = read_hmtx(&font).expect("own font hmtx");
    assert_eq!(src_metrics, metrics, "hmtx round trip");
    let src_fields = metric_fields(&font).expect("own font metric fields");

    let fd = ReadScope::new(&font).read::<FontData<'_>>().map_err(|e| fail("source-not-loadable", format!("{:?}", e)))?;
    let prov = fd.table_provider(0).map_err(|e| fail("source-not-loadable", format!("{:?}", e)))?;
    let mut users: Vec<Vec<i32>> = vec![axes.iter().map(|a| a.default).collect()];
    for cs in &case.coords {
        users.push(axes.iter().enumerate().map(|(i, a)| user_value(&cs[i], a, i, &all_regions)).collect());
    }
    users.extend(extra_users.iter().cloned());
    let mut agg = Agg::default();
    let mut frac = false;
    let mut multi_axis = false;
    let mut on_edge = false;
    let mut locs = Vec::new();
    for (ui, user) in users.iter().enumerate() {
        let tuple: Vec<Fixed> = user.iter().map(|v| Fixed::from_raw(*v)).collect();
        let (out, loc) = allsorts::variations::instance(&prov, &tuple)
            .map_err(|e| fail("cff2-instance-err", format!("instance() failed on a well-formed generated CFF2 font at user tuple {:?}: {:?}", user, e)))?;
        let loc: Vec<i16> = loc.iter().map(|v| v.raw_value()).collect();
        if ui == 0 && loc.iter().any(|v| *v != 0) {
            return Err(fail("default-not-zero", format!("default user coordinates normalise to {:?}", loc)));
        }
        check_loc(&font, user, &loc, rec)?;
        let coords: Vec<f64> = loc.iter().map(|v| *v as f64 / 16384.0).collect();
        let mut wants = Vec::new();
        for (g, gi) in b.glyphs.iter().enumerate() {
            let sc: Vec<f64> = vs.data[gi.vsindex].iter().map(|r| region_scalar(&loc, &vs_regions[*r as usize])).collect();
            if gi.blends > 0 {
                frac |= sc.iter().any(|s| *s > 0.0 && *s < 1.0);
                for r in &vs.data[gi.vsindex] {
                    let reg = &vs_regions[*r as usize];
                    let fa = reg.iter().enumerate().filter(|(i, a)| { let s = crate::refmodel::varmodel::axis_scalar(loc[*i], **a); s > 0.0 && s < 1.0 }).count();
                    multi_axis |= fa > 1;
                    on_edge |= reg.iter().enumerate().any(|(i, a)| a.peak != 0 && (loc[i] == a.start || loc[i] == a.peak || loc[i] == a.end));
                }
            }
            let want = gi.model.commands(Some(&sc));
            // self-check against the independent interpreter run on the *source* with the tuple
            match src_t2.outline(g, Some(&coords), &Deviations::default()) {
                Ok(cmds) => {
                    if let Some(d) = diff_commands(&cmds, &want, 1e-6) {
                        panic!("harness self-check: glyph {} at {:?}: my interpreter on the source disagrees with the model: {}", g, loc, d);
                    }
                }
                Err(e) => panic!("harness self-check: glyph {}: my interpreter fails on the generated source: {}", g, e),
            }
            // blended operands are written back as 16.16 numbers (or integers when whole):
            // 2^-17 per operand, plus f32 arithmetic at the magnitude reached; floor 2^-8
            let tol = 1.0 / 256.0 + gi.nops as f64 * ((max_abs_coord(&want) + 64.0) / 4_194_304.0 + 1.0 / 65536.0);
            wants.push((want, tol.min(1.0)));
        }
        let e = Cff2Expect { wants, src_metrics: &src_metrics, src_long_metrics: nhm as usize, src_fields: &src_fields, hvar: hvar_model.as_ref(), mvar: mvar_model.as_ref(), exact_default: !always_on };
        check_cff2_instance(&e, &out, &loc, &mut agg)?;
        locs.push(loc);
    }
    // ---- classification
    let any_blend = b.glyphs.iter().any(|g| g.blends > 0);
    rec.evaluations(users.len() as u64 - 1);
    rec.set_nontrivial(any_blend && frac);
    rec.class_if(any_blend, "cff2:blend");
    rec.class_if(frac, "cff2:scalar-fractional");
    rec.class_if(on_edge, "cff2:coordinate-on-region-edge");
    rec.class_if(multi_axis, "cff2:multi-axis-product");
    rec.class(&format!("cff2:axes:{}", n_axes));
    rec.class_if(b.glyphs.iter().any(|g| g.fd != 0), "cff2:multi-FD");
    rec.class_if(b.glyphs.iter().any(|g| g.fd != 0 && g.blends > 0), "cff2:blend-in-fd!=0");
    rec.class_if(b.glyphs.iter().any(|g| g.vsindex != 0 && g.blends > 0), "cff2:vsindex!=0");
    rec.class_if(vs.data.len() > 1, "cff2:ItemVariationData>1");
    rec.class_if(vs_regions.iter().any(|r| r.iter().any(|a| *a != implied_axis_region(a.peak))), "cff2:intermediate-region");
    rec.class_if(vs_regions.iter().any(|r| r.iter().filter(|a| a.peak != 0).count() > 1), "cff2:multi-axis-region");
    let subr_blend = src_t2.gsubrs.iter().any(|s| body_has_blend(s)) || src_t2.fds.iter().any(|f| f.lsubrs.iter().any(|s| body_has_blend(s)));
    rec.class_if(subr_blend, "cff2:blend-inside-subr");
    rec.class_if(b.glyphs.iter().any(|g| g.depth > 0), "cff2:subr-calls");
    rec.class_if(b.glyphs.iter().any(|g| g.stats.masks > 0), "cff2:hintmask");
    rec.class_if(b.glyphs.iter().any(|g| g.stats.forms.iter().any(|f| f.contains("flex"))), "cff2:flex");
    rec.class_if(case.with_avar, "cff2:avar");
    rec.class_if(hvar_model.is_some(), "cff2:HVAR");
    rec.class_if(case.hvar.as_ref().map(|h| h.mapped).unwrap_or(false), "cff2:HVAR-mapped");
    rec.class_if(agg.lsb_from_hvar > 0, "cff2:HVAR-lsb-map");
    rec.class_if(agg.mvar_checked > 0, "cff2:MVAR-field-checked");
    rec.class_if(short_tail, "cff2:hmtx-short-tail");
    rec.class(&format!("cff2:metric-mode:{}", metric_mode));
    rec.class_if(agg.tail_equal && hvar_model.is_some(), "cff2:instance-tail-equal-advances (HVAR)");
    rec.class_if(agg.tail_equal_off_default && hvar_model.is_some(), "cff2:instance-tail-equal-advances-off-default (HVAR)");
    rec.class_if(agg.tail_equal && agg.tail_differs, "cff2:instance-tail-equal-at-some-locations-only");
    rec.class_if(agg.tail_zero, "cff2:instance-zero-width-tail");
    rec.class_if(always_on, "cff2:region-all-peaks-zero");
    if let Some(f) = agg.deferred.take() {
        return Err(f);
    }
    rec.sample(|| format!("cff2: {} axes, {} glyphs, {} FDs, {} regions / {} subtables, blends {:?}, locations {:?}", n_axes, n, case.cs.nfd, vs.regions.len(), vs.data.len(), b.glyphs.iter().map(|g| g.blends).collect::<Vec<_>>(), locs));
    Ok(())
}

const CFF2_FIXTURES: [&str; 3] = [
    "fonts/opentype/cff2/SourceSansVariable-Roman.abc.otf",
    "fonts/opentype/cff2/SourceSans3.abc.otf",
    "fonts/opentype/cff2/SourceSans3-Instance.256.otf",
];

fn check_cff2_fixture(item: u64, rec: &mut Rec) -> CaseResult {
    // item 0, 1: the two static CFF2 fonts (must be refused); the rest: coordinates of the VF
    let (name, k) = if item < 2 { (CFF2_FIXTURES[1 + item as usize], 0) } else { (CFF2_FIXTURES[0], item - 2) };
    let bytes = match fixtures::read(name) {
        Some(b) => b,
        None => {
            rec.class("fixture-missing");
            return Ok(());
        }
    };
    let fd = ReadScope::new(&bytes).read::<FontData<'_>>().map_err(|e| fail("source-not-loadable", format!("{:?}", e)))?;
    let prov = fd.table_provider(0).map_err(|e| fail("source-not-loadable", format!("{:?}", e)))?;
    if item < 2 {
        return match allsorts::variations::instance(&prov, &[]) {
            Err(allsorts::variations::VariationError::NotVariableFont) => {
                rec.class("cff2-fixture:static-font-refused");
                rec.nontrivial();
                rec.hash_u64(item);
                Ok(())
            }
            other => Err(fail("cff2-static-font-not-refused", format!("{}: instance() of a font without fvar gave {:?}", name, other.map(|r| r.0.len())))),
        };
    }
    let dec = |e: String| Fail::new("C12:fixture-decode", format!("{}: my decoders cannot read the fixture: {}", name, e));
    let axes = read_fvar_axes(find_table(&bytes, b"fvar").ok_or_else(|| dec("no fvar".into()))?).ok_or_else(|| dec("fvar unreadable".into()))?;
    let table = find_table(&bytes, b"CFF2").ok_or_else(|| dec("no CFF2".into()))?;
    let src_t2 = T2Font::parse_cff2(table).map_err(dec)?;
    let vstore = src_t2.vstore.clone().ok_or_else(|| dec("no VariationStore".into()))?;
    let q = |v: f64| (v * 16384.0).round() as i16;
    let mut regions: Vec<Region> = vstore.regions.iter().map(|r| r.iter().map(|a| AxisRegion { start: q(a.0), peak: q(a.1), end: q(a.2) }).collect()).collect();
    let hvar = match find_table(&bytes, b"HVAR") {
        Some(d) => Some(decode_hvar(d).map_err(dec)?),
        None => None,
    };
    let mvar = match find_table(&bytes, b"MVAR") {
        Some(d) => {
            let (recs, ivs) = decode_mvar(d).map_err(dec)?;
            ivs.map(|i| (recs, i))
        }
        None => None,
    };
    if let Some((_, ivs)) = &mvar {
        regions.extend(ivs.regions.iter().cloned());
    }
    if let Some(h) = &hvar {
        regions.extend(h.ivs.regions.iter().cloned());
    }
    let user: Vec<i32> = axes
        .iter()
        .enumerate()
        .map(|(i, a)| {
            if k == 0 {
                a.default
            } else {
                let h = mix64(item.wrapping_mul(0x51ed) ^ ((i as u64) << 40));
                let kind = [0u8, 1, 2, 3, 3, 3, 4, 5, 5, 5, 6, 7][(h % 12) as usize];
                user_value(&CoordSpec { kind, r: (h >> 16) as u32, off: if h & 0x100 != 0 { 1 } else { -1 } }, a, i, &regions)
            }
        })
        .collect();
    let tuple: Vec<Fixed> = user.iter().map(|v| Fixed::from_raw(*v)).collect();
    let (out, loc) = allsorts::variations::instance(&prov, &tuple).map_err(|e| fail("cff2-instance-err", format!("{}: instance() failed at user tuple {:?}: {:?}", name, user, e)))?;
    let loc: Vec<i16> = loc.iter().map(|v| v.raw_value()).collect();
    check_loc(&bytes, &user, &loc, rec).map_err(|f| Fail::new(f.sig, format!("{}: {}", name, f.msg)))?;
    let coords: Vec<f64> = loc.iter().map(|v| *v as f64 / 16384.0).collect();
    let mut wants = Vec::new();
    for g in 0..src_t2.charstrings.len() {
        // the reference: my interpreter on the *source* charstring with the tuple
        let want = src_t2.outline(g, Some(&coords), &Deviations::default()).map_err(|e| dec(format!("glyph {}: {}", g, e)))?;
        wants.push((want, 1.0 / 64.0));
    }
    let src_metrics = read_hmtx(&bytes).map_err(dec)?;
    let src_fields = metric_fields(&bytes).map_err(dec)?;
    let src_long = find_table(&bytes, b"hhea").and_then(|h| be16(h, 34)).unwrap_or(0) as usize;
    let exact_default = !regions.iter().any(|r| r.iter().all(|a| a.peak == 0));
    let e = Cff2Expect { wants, src_metrics: &src_metrics, src_long_metrics: src_long, src_fields: &src_fields, hvar: hvar.as_ref(), mvar: mvar.as_ref(), exact_default };
    let mut agg = Agg::default();
    check_cff2_instance(&e, &out, &loc, &mut agg).map_err(|f| Fail::new(f.sig, format!("{} (user {:?}): {}", name, user, f.msg)))?;
    rec.class("cff2-fixture:SourceSansVariable-Roman.abc");
    rec.class_if(agg.mvar_checked > 0, "cff2-fixture:MVAR-field-checked");
    rec.class_if(hvar.is_some(), "cff2-fixture:HVAR");
    rec.set_nontrivial(loc.iter().any(|v| *v != 0 && v.abs() != 16384));
    rec.hash_u64(item);
    rec.sample(|| format!("{} at {:?} -> {:?}", name, user, loc));
    Ok(())
}

impl Property for C12 {
    fn id(&self) -> &'static str {
        "C12"
    }
    fn rule(&self) -> String {
        "proptest generates a variation model (1-3 axes with optional avar; 1-5 glyphs: simple with coincident coordinates, big 70-300 point, composite with xy offsets / anchor points, components that refer to glyphs without contours, optional 2.14 component transforms in quarters (scale, x/y scale, 2x2 with shear / rotation / reflection terms) and SCALED_COMPONENT_OFFSET on positive diagonal scales, empty; 0-4 tuple variations per glyph with implied or intermediate regions, all / private / shared point sets incl. phantom points, byte and word deltas; hmtx; optional HVAR built to agree with the phantom deltas, direct or via DeltaSetIndexMaps of 1-4 byte entries; optional MVAR); \
         my own gvar/HVAR/MVAR/fvar/avar/glyf encoders serialise it with free encoding choices (point/delta run splits and widths, count width, shared/embedded peaks, shared point numbers, short/long offsets, padding); \
         variations::instance is called at the default and five further user tuples (region start/peak/end pre-images ±raw units, min, max, inside, outside); the output is read by independent glyf/hmtx/OS2/hhea/post readers and compared with an f64 evaluation of the model (region scalars, explicit deltas, IUP per contour) at the returned normalised tuple, tolerance 1 unit (+1/16 for 16-fractional-bit arithmetic); exact equality at the default location; no *var tables; Font::is_variable() false. \
         Section model-ext: the same model and checks on fonts with up to 4 axes that also carry vhea/vmtx (optional VVAR agreeing with the gvar deltas of phantom points 3/4; advance heights and top side bearings against the reference), an MVAR over every registered value tag plus unknown ones through 1-4 ItemVariationData subtables (LONG_WORDS, extra word columns, unreferenced rows, column subsets; vhea and gasp targets included), OS/2 versions 0 (68 and 78 bytes) to 5, STAT 1.0-1.2 with axis value formats 1-4 or no STAT, named instances (each instanced exactly), a name table with a free choice of records, longer avar maps, USE_MY_METRICS, more anchored components, glyphs beyond 255 points, and corner locations (axes at min/default/max, a region's peaks / starts / ends on all axes at once). \
         Non-trivial = some tuple had a scalar strictly between 0 and 1 and some point received an inferred delta; distinct by hash of the generated font."
            .to_string()
    }
    fn assumptions(&self) -> Vec<String> {
        vec![
            "the normalised tuple returned by instance() is taken as the location (normalisation is C13)".into(),
            "un-referenced components of composite glyphs and un-referenced phantom points receive a zero delta (no contour to interpolate along), as in FreeType/fontTools".into(),
            "regions are generated valid (start ≤ peak ≤ end on one side of zero, some axis with a non-zero peak); packed delta runs do not span the x/y boundary".into(),
            "HVAR advance deltas are generated equal to the gvar phantom point deltas, so either source of the advance is acceptable; with an HVAR lsb map either HVAR's lsb or xMin − pp1 is accepted".into(),
            "lsb of an instanced glyph is compared through phantom point 1 (xMin_out − lsb_out vs. pp1 + Σ scalar·delta) and, for simple glyphs, against the reference outline's xMin".into(),
            "advances whose reference value is < 1 are not asserted (allsorts clamps at 0)".into(),
            "the header box of an instanced composite is the box of its composed output points (a glyph without contours contributes no point): exact without transforms; with 2.14 component transforms each edge within 1 unit (+1/64), and the default instance's lsb of such a composite within 1 unit of the source's (the source header box is the rounded box of the composed points)".into(),
            "SCALED_COMPONENT_OFFSET is generated only on positive diagonal scales (offset' = (xscale·dx, yscale·dy) in every reading); composites with that flag on any other transform (fixtures) are not box-checked".into(),
        ]
    }
    fn run(&self, ctx: &mut Ctx) {
        let n = ctx.cases(40_000, 800_000);
        ctx.section("model", n, case_strategy(), |c, rec| check_case(c, rec));
        // the repository's TrueType variable fonts, decoded by my own gvar/HVAR/MVAR decoders
        let per_font = ctx.cases(FIXTURE_COORDS, 2_000);
        ctx.enumerate("fixtures", FIXTURES.len() as u64 * per_font, false, |i, rec| check_fixture(i, rec));
        // CFF2 instancing: generated CFF2 variable fonts (C18 generator) and the CFF2 fixtures
        let n = ctx.cases(2_000, 400_000);
        ctx.section("cff2-model", n, cff2_case_strategy(), |c, rec| check_cff2_case(c, rec));
        ctx.enumerate("cff2-fixtures", 2 + 2 * per_font, false, |i, rec| check_cff2_fixture(i, rec));
        // extension: vertical metrics (vhea/vmtx/VVAR), every MVAR value tag through a multi-subtable
        // store, OS/2 versions 0-5, STAT formats 1-4 / no STAT, named instances, 4 axes, forced gvar
        // encodings, corner coordinates
        let n = ctx.cases(4_000, 120_000);
        ctx.section("model-ext", n, ext_case_strategy(), |c, rec| check_ext_case(c, rec));
    }
}

// ------------------------------------------------------------------------------------ libFuzzer decoder
//
// `case_from_bytes` maps fuzz bytes onto the `Case` domain of `case_strategy()` (section `model`).
// Every value it produces is one the proptest strategy can produce: the same ranges, the same fixed
// collection sizes (3 axis entries per region, 22 + 4 mask / delta entries per tuple, 5 × 3 coordinate
// specs, 6 × 3 MVAR deltas), the same post-processing of intermediate / invalid axis regions (the
// closures of `axis_reg()` are repeated literally). `domain_violation` re-checks that on every decoded
// case. 32-bit selectors / seeds (any u32 in the strategy) are read from two bytes and spread over the
// word (the first byte lands in the top bits, which `pick` uses, the second in the low bits); long
// fixed-size lists are length-prefixed and filled cyclically, so that short tapes decode to full cases.
// `Unstructured` yields the lower bound / zero / false once the input is exhausted and collections stop
// at their minimum size then. Layout: fixed-size header (flags, coordinate specs, metric structure),
// axes, HVAR / MVAR / cvar, glyph list last.

use arbitrary::Unstructured;

type UResult<T> = arbitrary::Result<T>;

fn fz_u8(u: &mut Unstructured<'_>) -> UResult<u8> {
    u.arbitrary::<u8>()
}

/// any u32 (selector or seed): two bytes, the first in the top byte, the second in the low bytes
fn fz_r32(u: &mut Unstructured<'_>) -> UResult<u32> {
    let a = fz_u8(u)? as u32;
    let b = fz_u8(u)? as u32;
    Ok((a << 24) | (b << 16) | (a << 8) | b)
}

/// `mag()`: 1..=16384, biased to the round values
fn fz_mag(u: &mut Unstructured<'_>) -> UResult<i16> {
    let b = fz_u8(u)?;
    Ok(match b & 7 {
        0..=3 => [16384i16, 8192, 4096, 12288][((b >> 3) & 3) as usize],
        6 => [1i16, 2, 16383][((b >> 3) % 3) as usize],
        _ => u.int_in_range(1i16..=16384)?,
    })
}

/// `axis_reg()`: the closures of the strategy, literally
fn fz_axis_reg(u: &mut Unstructured<'_>) -> UResult<AxisRegSpec> {
    let h = fz_u8(u)?;
    let neg = h & 16 != 0;
    Ok(match (h & 15) % 12 {
        0..=2 => AxisRegSpec::Zero(neg),
        3..=7 => {
            let m = fz_mag(u)?;
            AxisRegSpec::Peak(if neg { -m } else { m })
        }
        8..=10 => {
            let degen = (h >> 5) % 6;
            let a = fz_mag(u)?;
            let b = fz_mag(u)?;
            // c: 0 (weight 1) or a magnitude (weight 3)
            let c = if (h >> 5) & 3 == 3 { 0 } else { fz_mag(u)? };
            let mut v = [a, b, c];
            v.sort();
            let (mut s, mut p, mut e) = (v[0], v[1], v[2]);
            match degen {
                0 => s = p,
                1 => e = p,
                _ => {}
            }
            if p == 0 {
                p = 1;
                s = s.min(p);
                e = e.max(p);
            }
            if neg {
                AxisRegSpec::Inter(-e, -p, -s)
            } else {
                AxisRegSpec::Inter(s, p, e)
            }
        }
        _ => {
            let kind = (h >> 5) % 3;
            let a = u.int_in_range(1i16..=8192)?;
            let b = u.int_in_range(1i16..=8192)?;
            let c = u.int_in_range(1i16..=8192)?;
            let sg = if neg { -1 } else { 1 };
            match kind {
                0 => AxisRegSpec::Invalid(sg * (a + b), sg * a, sg * (a + b + c)),
                1 => AxisRegSpec::Invalid(sg * a, sg * (a + b), sg * (a + b - 1).max(0)),
                _ => AxisRegSpec::Invalid(-a, sg * b.min(a.min(c)), c),
            }
        }
    })
}

fn fz_region(u: &mut Unstructured<'_>) -> UResult<Vec<AxisRegSpec>> {
    Ok(vec![fz_axis_reg(u)?, fz_axis_reg(u)?, fz_axis_reg(u)?])
}

/// `delta()`: union −600..=600; `class` is a nibble
fn fz_delta(u: &mut Unstructured<'_>, class: u8) -> UResult<i16> {
    Ok(match class & 15 {
        0..=3 => 0,
        4..=6 => *u.choose(&[10i16, -10, 50, -50, 100])?,
        7..=10 => fz_u8(u)? as i8 as i16,
        11..=13 => u.int_in_range(-600i16..=600)?,
        _ => *u.choose(&[127i16, 128, -128, -129, 255, 256, -300])?,
    })
}

fn fz_delta_pair(u: &mut Unstructured<'_>) -> UResult<(i16, i16)> {
    let h = fz_u8(u)?;
    Ok((fz_delta(u, h & 15)?, fz_delta(u, h >> 4)?))
}

/// `tuple_spec()`
fn fz_tuple(u: &mut Unstructured<'_>) -> UResult<TupleSpec> {
    let axes = fz_region(u)?;
    let h = fz_u8(u)?;
    let mode = match h & 3 {
        0 => PointMode::All,
        2 => PointMode::Shared,
        _ => PointMode::Private,
    };
    let share_peak = h & 4 != 0;
    let explicit_inter = (h >> 3) % 5 == 0;
    // bits 0..22: point mask; 22..26: phantom mask; 26..30: which phantom deltas are drawn
    let bits: u32 = u.arbitrary()?;
    let mask: Vec<bool> = (0..22).map(|i| bits >> i & 1 != 0).collect();
    let phantom_mask: Vec<bool> = (22..26).map(|i| bits >> i & 1 != 0).collect();
    let mut phantom_deltas = Vec::with_capacity(4);
    for i in 26..30 {
        phantom_deltas.push(if bits >> i & 1 != 0 { fz_delta_pair(u)? } else { (0, 0) });
    }
    // 22 delta pairs: k explicit ones, repeated cyclically (k = 0: all zero)
    let k = u.int_in_range(0usize..=22)?;
    let mut explicit = Vec::with_capacity(k);
    for _ in 0..k {
        explicit.push(fz_delta_pair(u)?);
    }
    let deltas: Vec<(i16, i16)> = (0..22).map(|i| if k == 0 { (0, 0) } else { explicit[i % k] }).collect();
    let seed = fz_r32(u)?;
    Ok(TupleSpec { axes, mode, mask, phantom_mask, deltas, phantom_deltas, share_peak, explicit_inter, seed })
}

/// the `SharedSpec` of `glyph_spec()` / `shared_spec()`
fn fz_shared(u: &mut Unstructured<'_>) -> UResult<SharedSpec> {
    let bits: u32 = u.arbitrary()?;
    Ok(SharedSpec {
        all: (bits >> 26) % 5 == 0,
        mask: (0..22).map(|i| bits >> i & 1 != 0).collect(),
        phantom_mask: (22..26).map(|i| bits >> i & 1 != 0).collect(),
    })
}

/// `coord_val()`: union −1000..=1499; `class` is two bits
fn fz_coord_val(u: &mut Unstructured<'_>, class: u8) -> UResult<i16> {
    Ok(match class & 3 {
        0 | 1 => u.int_in_range(0i16..=10)? * 50,
        2 => u.int_in_range(-100i16..=699)?,
        _ => u.int_in_range(-1000i16..=1499)?,
    })
}

/// `contour()`: 1..=6 points
fn fz_contour(u: &mut Unstructured<'_>) -> UResult<Vec<Pt>> {
    const LEN: [usize; 8] = [3, 4, 5, 6, 3, 4, 1, 2];
    let n = LEN[(fz_u8(u)? & 7) as usize];
    let mut pts = Vec::with_capacity(n);
    for i in 0..n {
        if i >= 1 && u.is_empty() {
            break; // any length 1..=6 is in the domain
        }
        // head: bits 0-1 on-curve (3 of 4), bits 2-3 x class, bits 4-5 y class
        let h = fz_u8(u)?;
        let x = fz_coord_val(u, h >> 2)?;
        let y = fz_coord_val(u, h >> 4)?;
        pts.push((x, y, h & 3 != 0));
    }
    Ok(pts)
}

fn fz_comp_offset(u: &mut Unstructured<'_>, wide: bool) -> UResult<i16> {
    if wide {
        u.int_in_range(-1000i16..=999)
    } else {
        u.int_in_range(-100i16..=100)
    }
}

/// `comp_spec()`
fn fz_comp(u: &mut Unstructured<'_>) -> UResult<CompSpec> {
    let h = fz_u8(u)?;
    let target = fz_r32(u)?;
    let dx = fz_comp_offset(u, h & 3 == 3)?;
    let dy = fz_comp_offset(u, (h >> 2) & 3 == 3)?;
    let anchor = if (h >> 6) == 3 { Some((fz_r32(u)?, fz_r32(u)?)) } else { None };
    Ok(CompSpec { target, dx, dy, anchor, force_words: h & 16 != 0, round: h & 32 != 0, empty: false, transform: None, scaled_offset: false })
}

/// `shape_spec()`
fn fz_shape(u: &mut Unstructured<'_>) -> UResult<ShapeSpec> {
    let h = fz_u8(u)?;
    Ok(match (h & 15) % 13 {
        0 => ShapeSpec::Empty,
        1..=8 => {
            let n = 1 + ((h >> 4) % 3) as usize;
            let mut cs = Vec::with_capacity(n);
            for i in 0..n {
                if i >= 1 && u.is_empty() {
                    break; // 1..=3 contours
                }
                cs.push(fz_contour(u)?);
            }
            ShapeSpec::Simple(cs)
        }
        9 => ShapeSpec::Big { n: [70u16, 130, 200, 300][((h >> 4) & 3) as usize], contours: 1 + (h >> 6), seed: fz_r32(u)? },
        _ => {
            let n = 1 + ((h >> 4) % 3) as usize;
            let mut cs = Vec::with_capacity(n);
            for i in 0..n {
                if i >= 1 && u.is_empty() {
                    break; // 1..=3 components
                }
                cs.push(fz_comp(u)?);
            }
            ShapeSpec::Composite(cs)
        }
    })
}

/// `glyph_spec()`
fn fz_glyph(u: &mut Unstructured<'_>) -> UResult<GlyphSpec> {
    let shape = fz_shape(u)?;
    let advance = u.int_in_range(200u16..=1199)?;
    let h = fz_u8(u)?;
    let pp1 = if h & 3 == 3 { u.int_in_range(-60i16..=59)? } else { 0 };
    let data_gap = if (h >> 2) % 5 == 4 { 1 + ((h >> 5) & 3) } else { 0 };
    // weighted 0.6
    let shared = if fz_u8(u)? % 5 < 3 { Some(fz_shared(u)?) } else { None };
    let n = u.int_in_range(0usize..=4)?;
    let mut tuples = Vec::with_capacity(n);
    for _ in 0..n {
        if u.is_empty() {
            break; // 0..=4 tuples
        }
        tuples.push(fz_tuple(u)?);
    }
    Ok(GlyphSpec { shape, advance, pp1, tuples, shared, data_gap })
}

/// `axis_spec()`
fn fz_axis(u: &mut Unstructured<'_>) -> UResult<AxisSpec> {
    let h = fz_u8(u)?;
    let default_units = match h & 7 {
        0..=2 => 0,
        3..=5 => 400,
        _ => u.int_in_range(-200i16..=899)?,
    };
    let wght = (h >> 3) & 3 == 0;
    let n_avar = ((h >> 5) % 3) as usize;
    let below = u.int_in_range(0u16..=599)?;
    let above = u.int_in_range(0u16..=599)?;
    let mut avar = Vec::with_capacity(n_avar);
    for _ in 0..n_avar {
        avar.push((u.int_in_range(1i16..=16383)?, u.int_in_range(0i16..=16384)?));
    }
    Ok(AxisSpec { default_units, below, above, avar, wght })
}

/// `hvar_spec()`
fn fz_hvar(u: &mut Unstructured<'_>) -> UResult<HvarSpec> {
    let a = fz_u8(u)?;
    let b = fz_u8(u)?;
    Ok(HvarSpec {
        mapped: a & 1 != 0,
        lsb_map: a & 6 == 6,
        entry_size: 1 + ((a >> 3) & 3),
        extra_inner_bits: (a >> 5) & 3,
        format1: a >> 7 != 0,
        subtables: 1 + (b & 3) % 3,
        truncate: b & 4 != 0,
        long_words: (b >> 3) & 7 == 7,
        extra_words: (b >> 6) % 3,
        seed: fz_r32(u)?,
    })
}

/// `mvar_spec()`
fn fz_mvar(u: &mut Unstructured<'_>) -> UResult<MvarSpec> {
    let h = fz_u8(u)?;
    let n_tags = 1 + ((h & 7) % 6) as usize;
    let n_regions = 1 + ((h >> 3) % 3) as usize;
    let subtables = 1 + ((h >> 5) & 1);
    let long_words = h >> 6 == 3;
    let g = fz_u8(u)?;
    let record_extra = if g & 3 == 3 { 1 + (g >> 2) % 5 } else { 0 };
    let mut tags = Vec::with_capacity(n_tags);
    for i in 0..n_tags {
        if i >= 1 && u.is_empty() {
            break; // 1..=6 tags
        }
        tags.push(u.int_in_range(0u8..=MVAR_TAGS.len() as u8 - 1)?);
    }
    let mut regions = Vec::with_capacity(n_regions);
    for i in 0..n_regions {
        if i >= 1 && u.is_empty() {
            break; // 1..=3 regions
        }
        regions.push(fz_region(u)?);
    }
    // 6 × 3 deltas: k explicit rows, repeated cyclically
    let k = u.int_in_range(1usize..=6)?;
    let mut rows: Vec<Vec<i16>> = Vec::with_capacity(k);
    for _ in 0..k {
        let mut row = Vec::with_capacity(3);
        for _ in 0..3 {
            let b = fz_u8(u)?;
            row.push(if b == 255 { u.int_in_range(-300i16..=300)? } else { (b as i16 % 201) - 100 });
        }
        rows.push(row);
    }
    let deltas = (0..6).map(|i| rows[i % k].clone()).collect();
    Ok(MvarSpec { tags, regions, deltas, record_extra, subtables, long_words })
}

/// `cvar_spec()`
fn fz_cvar(u: &mut Unstructured<'_>) -> UResult<CvarSpec> {
    let n_cvts = u.int_in_range(1u8..=59)?;
    let seed = fz_r32(u)?;
    let h = fz_u8(u)?;
    let shared = if h & 1 != 0 { Some(fz_shared(u)?) } else { None };
    let n = ((h >> 1) & 3) as usize;
    let mut tuples = Vec::with_capacity(n);
    for _ in 0..n {
        if u.is_empty() {
            break; // 0..=3 tuples
        }
        tuples.push(fz_tuple(u)?);
    }
    Ok(CvarSpec { n_cvts, seed, tuples, shared })
}

/// `coord_spec()`
fn fz_coord(u: &mut Unstructured<'_>) -> UResult<CoordSpec> {
    const KIND: [u8; 16] = [0, 1, 2, 3, 3, 3, 3, 4, 4, 5, 5, 5, 5, 6, 7, 7];
    let h = fz_u8(u)?;
    Ok(CoordSpec { kind: KIND[(h & 15) as usize], r: fz_r32(u)?, off: [-1i8, 1, 2, -3][((h >> 4) & 3) as usize] })
}

/// `metric_spec()`
fn fz_metric(u: &mut Unstructured<'_>) -> UResult<MetricSpec> {
    const MODE: [u8; 12] = [0, 0, 0, 0, 0, 0, 1, 2, 2, 3, 4, 4];
    let h = fz_u8(u)?;
    let mode = MODE[((h & 15) % 12) as usize];
    let zero = h >> 6 == 3;
    let k = fz_u8(u)?;
    let d1 = u.int_in_range(-120i16..=120)?;
    let d2 = u.int_in_range(-120i16..=120)?;
    let region = fz_region(u)?;
    Ok(MetricSpec { mode, k, zero, region, d1, d2 })
}

fn region_violation(r: &[AxisRegSpec]) -> Option<&'static str> {
    if r.len() != 3 {
        return Some("region without 3 axis entries");
    }
    for a in r {
        let ok = match *a {
            AxisRegSpec::Zero(_) => true,
            AxisRegSpec::Peak(p) => p != 0 && (-16384..=16384).contains(&p),
            AxisRegSpec::Inter(s, p, e) => {
                let (s, p, e) = if p < 0 { (-e, -p, -s) } else { (s, p, e) };
                0 <= s && s <= p && p <= e && e <= 16384 && p >= 1
            }
            AxisRegSpec::Invalid(s, p, e) => axis_region_invalid(AxisRegion { start: s, peak: p, end: e }) && [s, p, e].iter().all(|v| (-24576..=24576).contains(v)),
        };
        if !ok {
            return Some("axis region outside axis_reg()");
        }
    }
    None
}

fn tuple_violation(t: &TupleSpec) -> Option<&'static str> {
    if let Some(w) = region_violation(&t.axes) {
        return Some(w);
    }
    if t.mask.len() != 22 || t.phantom_mask.len() != 4 || t.deltas.len() != 22 || t.phantom_deltas.len() != 4 {
        return Some("tuple list lengths");
    }
    if t.deltas.iter().chain(t.phantom_deltas.iter()).any(|d| d.0.abs() > 600 || d.1.abs() > 600) {
        return Some("tuple delta range");
    }
    None
}

fn shared_violation(s: &SharedSpec) -> Option<&'static str> {
    if s.mask.len() != 22 || s.phantom_mask.len() != 4 {
        return Some("shared point list lengths");
    }
    None
}

/// Some(reason) if `c` is not a value of `case_strategy()`.
fn domain_violation(c: &Case) -> Option<&'static str> {
    if !(1..=3).contains(&c.axes.len()) {
        return Some("axis count");
    }
    for a in &c.axes {
        if !(-200..900).contains(&a.default_units) || a.below >= 600 || a.above >= 600 || a.avar.len() > 2 {
            return Some("axis spec");
        }
        if a.avar.iter().any(|(f, t)| !(1..16384).contains(f) || !(0..=16384).contains(t)) {
            return Some("avar knot");
        }
    }
    if !(1..=5).contains(&c.glyphs.len()) {
        return Some("glyph count");
    }
    for g in &c.glyphs {
        if !(200..1200).contains(&g.advance) || !(-60..60).contains(&g.pp1) || g.tuples.len() > 4 || g.data_gap > 4 {
            return Some("glyph spec");
        }
        match &g.shape {
            ShapeSpec::Empty => {}
            ShapeSpec::Simple(cs) => {
                if !(1..=3).contains(&cs.len()) || cs.iter().any(|c| !(1..=6).contains(&c.len())) {
                    return Some("contour counts");
                }
                if cs.iter().flatten().any(|p| !(-1000..1500).contains(&p.0) || !(-1000..1500).contains(&p.1)) {
                    return Some("point coordinate");
                }
            }
            ShapeSpec::Big { n, contours, .. } => {
                if ![70u16, 130, 200, 300].contains(n) || !(1..=4).contains(contours) {
                    return Some("big glyph");
                }
            }
            ShapeSpec::Composite(cs) => {
                if !(1..=3).contains(&cs.len()) || cs.iter().any(|c| !(-1000..1000).contains(&c.dx) || !(-1000..1000).contains(&c.dy)) {
                    return Some("composite");
                }
            }
        }
        if let Some(w) = g.tuples.iter().find_map(tuple_violation) {
            return Some(w);
        }
        if let Some(w) = g.shared.as_ref().and_then(shared_violation) {
            return Some(w);
        }
    }
    if let Some(h) = &c.hvar {
        if !(1..=4).contains(&h.entry_size) || h.extra_inner_bits > 3 || !(1..=3).contains(&h.subtables) || h.extra_words > 2 {
            return Some("hvar spec");
        }
    }
    if let Some(m) = &c.mvar {
        if !(1..=6).contains(&m.tags.len()) || m.tags.iter().any(|t| *t as usize >= MVAR_TAGS.len()) || !(1..=3).contains(&m.regions.len()) {
            return Some("mvar tags / regions");
        }
        if let Some(w) = m.regions.iter().find_map(|r| region_violation(r)) {
            return Some(w);
        }
        if m.deltas.len() != 6 || m.deltas.iter().any(|r| r.len() != 3 || r.iter().any(|d| d.abs() > 300)) {
            return Some("mvar deltas");
        }
        if m.record_extra > 5 || !(1..=2).contains(&m.subtables) {
            return Some("mvar spec");
        }
    }
    if let Some(cv) = &c.cvar {
        if !(1..60).contains(&cv.n_cvts) || cv.tuples.len() > 3 {
            return Some("cvar spec");
        }
        if let Some(w) = cv.tuples.iter().find_map(tuple_violation) {
            return Some(w);
        }
        if let Some(w) = cv.shared.as_ref().and_then(shared_violation) {
            return Some(w);
        }
    }
    if c.coords.len() != 5 || c.coords.iter().any(|cs| cs.len() != 3 || cs.iter().any(|s| s.kind > 7 || ![-1i8, 1, 2, -3].contains(&s.off))) {
        return Some("coordinate specs");
    }
    if c.metric.mode > 4 || c.metric.d1.abs() > 120 || c.metric.d2.abs() > 120 {
        return Some("metric spec");
    }
    if let Some(w) = region_violation(&c.metric.region) {
        return Some(w);
    }
    if c.extra_shared_tuples > 2 {
        return Some("extra_shared_tuples");
    }
    None
}

/// bytes → a `Case` of `case_strategy()` (section `model`); total: every input is a case.
pub fn case_from_bytes(data: &[u8]) -> arbitrary::Result<Case> {
    let mut u = Unstructured::new(data);
    let u = &mut u;
    // header: flags, counts
    let f = fz_u8(u)?;
    let long_gvar = f & 1 != 0;
    let long_loca = f & 2 != 0;
    let short_hmtx = f & 12 == 12;
    let with_avar = (f >> 4) & 3 == 3;
    let n_axes = 1 + ((f >> 6) % 3) as usize;
    let g = fz_u8(u)?;
    let n_glyphs = 1 + ((g & 7) % 5) as usize;
    let extra_shared_tuples = (g >> 3) % 3;
    // weighted 0.1 in the strategy
    let invalid_regions = g >> 5 == 7;
    let p = fz_u8(u)?;
    let has_hvar = p & 1 != 0;
    let has_mvar = (p >> 1) % 5 < 2;
    let has_cvar = (p >> 4) & 3 == 3;
    let enc_seed: u64 = u.arbitrary()?;
    // the tested locations: 5 × 3 coordinate specs
    let mut coords = Vec::with_capacity(5);
    for _ in 0..5 {
        coords.push(vec![fz_coord(u)?, fz_coord(u)?, fz_coord(u)?]);
    }
    let metric = fz_metric(u)?;
    let mut axes = Vec::with_capacity(n_axes);
    for _ in 0..n_axes {
        axes.push(fz_axis(u)?);
    }
    let hvar = if has_hvar { Some(fz_hvar(u)?) } else { None };
    let mvar = if has_mvar { Some(fz_mvar(u)?) } else { None };
    let cvar = if has_cvar { Some(fz_cvar(u)?) } else { None };
    let mut glyphs = Vec::with_capacity(n_glyphs);
    for i in 0..n_glyphs {
        if i >= 1 && u.is_empty() {
            break; // 1..=5 glyphs
        }
        glyphs.push(fz_glyph(u)?);
    }
    let case = Case { axes, with_avar, glyphs, hvar, mvar, cvar, coords, long_gvar, long_loca, short_hmtx, metric, extra_shared_tuples, enc_seed, invalid_regions };
    if let Some(what) = domain_violation(&case) {
        panic!("C12 case_from_bytes left the domain of case_strategy: {}", what);
    }
    Ok(case)
}
