//! C12 — not built yet.
use crate::engine::{Ctx, Property};

pub struct C12;

impl Property for C12 {
    fn id(&self) -> &'static str {
        "C12"
    }
    fn rule(&self) -> String {
        "not implemented".to_string()
    }
    fn run(&self, _ctx: &mut Ctx) {}
}
