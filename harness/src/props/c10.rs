//! C10 — not built yet.
use crate::engine::{Ctx, Property};

pub struct C10;

impl Property for C10 {
    fn id(&self) -> &'static str {
        "C10"
    }
    fn rule(&self) -> String {
        "not implemented".to_string()
    }
    fn run(&self, _ctx: &mut Ctx) {}
}
