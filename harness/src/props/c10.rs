//! C10 — sfnt, TTC and WOFF containers return exactly the stored tables.
//! Forward construction: container model → `fontgen::container` encoders (free layout choices)
//! → `FontData::read` / `table_provider(i)` / `OpenTypeFont` / `WoffFont` → compared with the model.

use crate::engine::util::{mix64, pick};
use crate::engine::{fixtures, CaseResult, Ctx, Fail, Property, Rec};
use crate::fontgen::container::{
    encode_sfnt, encode_woff, Blob, Comp, DataOrder, Member, Model, SfntLayout, WoffLayout, TTCF,
};
use crate::fontgen::sfnt::{search_fields, Tag, OTTO, TRUE, TTF};
use allsorts::binary::read::ReadScope;
use allsorts::font_data::FontData;
use allsorts::tables::{FontTableProvider, OpenTypeData, OpenTypeFont, SfntVersion};
use allsorts::woff::WoffFont;
use proptest::prelude::*;

pub struct C10;

#[derive(Clone, Copy, Debug, PartialEq)]
pub enum Kind {
    Sfnt,
    Ttc,
    Woff,
}

#[derive(Clone, Debug)]
pub struct BlobGen {
    pub tag: Tag,
    pub same_tag_as_prev: bool,
    pub content: u8,
    pub len: usize,
    pub seed: u64,
    /// address as a sub-range of the nearest earlier plain blob: (start pick, length pick)
    pub sub: Option<(u32, u32)>,
}

#[derive(Clone, Debug)]
pub struct MemberGen {
    pub flavour: u32,
    /// per pool blob (cyclic): selected if < 160
    pub picks: Vec<u8>,
}

#[derive(Clone, Debug)]
pub struct Case {
    pub kind: Kind,
    pub pool: Vec<BlobGen>,
    pub members: Vec<MemberGen>,
    pub layout: SfntLayout,
    pub woff: WoffLayout,
    pub probe_tags: Vec<u32>,
}

const KNOWN: [&Tag; 24] = [
    b"cmap", b"glyf", b"head", b"hhea", b"hmtx", b"loca", b"maxp", b"name", b"post", b"OS/2", b"CFF ", b"cvt ",
    b"fpgm", b"prep", b"GDEF", b"GSUB", b"GPOS", b"kern", b"DSIG", b"gasp", b"CFF2", b"fvar", b"gvar", b"BASE",
];

fn tag_strategy() -> impl Strategy<Value = Tag> {
    prop_oneof![
        6 => (0usize..KNOWN.len()).prop_map(|i| *KNOWN[i]),
        2 => proptest::array::uniform4(0x20u8..0x7F),
        // one byte away from a known tag (prefix / suffix / case collisions)
        2 => (0usize..KNOWN.len(), 0usize..4, 0x20u8..0x7F).prop_map(|(i, p, b)| {
            let mut t = *KNOWN[i];
            t[p] = b;
            t
        }),
    ]
}

fn len_strategy() -> impl Strategy<Value = usize> {
    prop_oneof![
        2 => Just(0usize),
        3 => 1usize..4,
        5 => 4usize..64,
        4 => 64usize..600,
        2 => 600usize..3001,
    ]
}

fn blob_strategy() -> impl Strategy<Value = BlobGen> {
    (
        tag_strategy(),
        proptest::bool::weighted(0.12),
        0u8..7,
        len_strategy(),
        any::<u64>(),
        proptest::option::weighted(0.12, (any::<u32>(), any::<u32>())),
    )
        .prop_map(|(tag, same_tag_as_prev, content, len, seed, sub)| BlobGen {
            tag,
            same_tag_as_prev,
            content,
            len,
            seed,
            sub,
        })
}

fn flavour_strategy() -> impl Strategy<Value = u32> {
    prop_oneof![3 => Just(TTF), 2 => Just(OTTO), 1 => Just(TRUE)]
}

fn order_strategy() -> impl Strategy<Value = DataOrder> {
    prop_oneof![3 => Just(DataOrder::Directory), 1 => Just(DataOrder::Reverse), 3 => Just(DataOrder::Keyed)]
}

fn gaps_strategy() -> impl Strategy<Value = Vec<u8>> {
    prop_oneof![
        5 => Just(Vec::new()),
        3 => proptest::collection::vec(prop_oneof![3 => Just(0u8), 2 => 1u8..9, 1 => Just(4u8), 1 => 9u8..200], 1..6),
    ]
}

fn sfnt_layout_strategy() -> impl Strategy<Value = SfntLayout> {
    (
        (
            proptest::bool::weighted(0.72),
            proptest::collection::vec(any::<u32>(), 1..13),
            order_strategy(),
            proptest::collection::vec(any::<u32>(), 1..20),
            gaps_strategy(),
            prop_oneof![4 => Just(0u8), 1 => any::<u8>()],
        ),
        (
            proptest::bool::weighted(0.8),
            proptest::collection::vec(proptest::bool::weighted(0.7), 1..6),
            proptest::bool::weighted(0.6),
            proptest::bool::weighted(0.5),
            proptest::bool::weighted(0.5),
            prop_oneof![Just(1u16), Just(2u16)],
            prop_oneof![
                2 => Just((0u32, 0u32, 0u32)),
                1 => (any::<u32>(), any::<u32>()).prop_map(|(l, o)| (0x44534947u32, l, o)),
                // (MAX, MAX): the trailing bytes of the file are the DSIG block (resolved by the encoder)
                1 => Just((0x44534947u32, u32::MAX, u32::MAX)),
            ],
            prop_oneof![4 => Just(0u8), 1 => 1u8..40],
        ),
    )
        .prop_map(
            |(
                (sorted_dir, dir_keys, order, chunk_keys, gaps, gap_fill),
                (aligned, store_once, use_subranges, merge_identical, dirs_first, ttc_version, dsig, trailing),
            )| SfntLayout {
                sorted_dir,
                dir_keys,
                order,
                chunk_keys,
                gaps,
                gap_fill,
                aligned,
                store_once,
                use_subranges,
                merge_identical,
                dirs_first,
                ttc_version,
                dsig,
                trailing,
            },
        )
}

fn woff_layout_strategy() -> impl Strategy<Value = WoffLayout> {
    let comp = prop_oneof![
        2 => Just(Comp::Stored),
        5 => (0u32..10).prop_map(Comp::Deflate),
        1 => Just(Comp::Deflate(9)),
        1 => (0u32..10).prop_map(Comp::DeflateAlways),
    ];
    (
        (
            proptest::collection::vec(comp, 1..13),
            order_strategy(),
            proptest::collection::vec(any::<u32>(), 1..13),
            proptest::option::weighted(0.3, (1usize..400, any::<u64>(), 0u32..10)),
            proptest::option::weighted(0.3, (0usize..60, any::<u64>())),
            (any::<u16>(), any::<u16>()),
        ),
        (
            proptest::bool::weighted(0.85),
            proptest::collection::vec(any::<u32>(), 1..13),
            proptest::bool::weighted(0.88),
            prop_oneof![8 => Just(Vec::new()), 1 => proptest::collection::vec(0u8..12, 1..5)],
            prop_oneof![2 => Just(0u8), 1 => any::<u8>()],
        ),
    )
        .prop_map(|((comp, order, chunk_keys, meta, private, version), (sorted_dir, dir_keys, aligned, gaps, gap_fill))| {
            WoffLayout {
                comp,
                order,
                chunk_keys,
                meta: meta.map(|(len, seed, level)| (content(3, len, seed), level)),
                private: private.map(|(len, seed)| content(0, len, seed)),
                version,
                sorted_dir,
                dir_keys,
                aligned,
                gaps,
                gap_fill,
            }
        })
}

pub fn case_strategy(kind: Kind) -> impl Strategy<Value = Case> {
    let nmem = match kind {
        Kind::Ttc => 1usize..5,
        _ => 1usize..2,
    };
    let npool = match kind {
        Kind::Ttc => 1usize..17,
        _ => 0usize..15,
    };
    (
        proptest::collection::vec(blob_strategy(), npool),
        proptest::collection::vec(
            (flavour_strategy(), proptest::collection::vec(any::<u8>(), 1..17))
                .prop_map(|(flavour, picks)| MemberGen { flavour, picks }),
            nmem,
        ),
        sfnt_layout_strategy(),
        woff_layout_strategy(),
        proptest::collection::vec(any::<u32>(), 0..4),
    )
        .prop_map(move |(pool, members, layout, woff, probe_tags)| Case {
            kind,
            pool,
            members,
            layout,
            woff,
            probe_tags,
        })
}

// ------------------------------------------------------------------------------ libFuzzer decoder
//
// `case_from_bytes` maps fuzz bytes onto the `Case` domain of `case_strategy(kind)`; the first byte
// selects the kind (b % 3: sfnt, ttc, woff = the sections of the same names). Same ranges and
// collection sizes as the strategies; selectors keep roughly their weights. Sort keys and pick
// words are read as one / two bytes and spread over the 32 bits (only their order, respectively
// their high bits, are read by the encoders); PRNG seeds are two bytes unless a flag asks for
// eight. The layout of the container kind that the case does not use (the strategy generates both,
// the oracle reads one) is the decoding of an empty input. Tape: kind, the used layout, probe tags,
// members, pool. An exhausted input yields zeros — the conforming layout choices — and collections
// stop at their minimum size, so every byte string is a case. `domain_violation` re-states the
// ranges and is asserted on every decoded case.

use arbitrary::Unstructured;

type UResult<T> = arbitrary::Result<T>;

fn fz_u8(u: &mut Unstructured<'_>) -> UResult<u8> {
    u.arbitrary::<u8>()
}

/// a sort key: one byte spread over the word
fn fz_key(u: &mut Unstructured<'_>) -> UResult<u32> {
    Ok(fz_u8(u)? as u32 * 0x0101_0101)
}

/// a word read through `pick` (high bits): two bytes, in both halves
fn fz_pick_word(u: &mut Unstructured<'_>) -> UResult<u32> {
    let v = u.arbitrary::<u16>()? as u32;
    Ok(v << 16 | v)
}

fn fz_keys(u: &mut Unstructured<'_>, max: usize) -> UResult<Vec<u32>> {
    let n = u.int_in_range(1usize..=max)?;
    let mut v = Vec::with_capacity(n);
    for k in 0..n {
        if k >= 1 && u.is_empty() {
            break;
        }
        v.push(fz_key(u)?);
    }
    Ok(v)
}

fn fz_seed(u: &mut Unstructured<'_>, wide: bool) -> UResult<u64> {
    Ok(if wide { u.arbitrary::<u64>()? } else { u.arbitrary::<u16>()? as u64 })
}

/// `tag_strategy()`
fn fz_tag(u: &mut Unstructured<'_>) -> UResult<Tag> {
    let h = fz_u8(u)?;
    let known = |u: &mut Unstructured<'_>| -> UResult<Tag> { Ok(*KNOWN[u.int_in_range(0usize..=KNOWN.len() - 1)?]) };
    Ok(match h % 10 {
        0..=5 => known(u)?,
        6 | 7 => {
            let mut t = [0x20u8; 4];
            for b in t.iter_mut() {
                *b = u.int_in_range(0x20u8..=0x7E)?;
            }
            t
        }
        _ => {
            let mut t = known(u)?;
            let p = u.int_in_range(0usize..=3)?;
            t[p] = u.int_in_range(0x20u8..=0x7E)?;
            t
        }
    })
}

/// `blob_strategy()`
fn fz_blob(u: &mut Unstructured<'_>) -> UResult<BlobGen> {
    let tag = fz_tag(u)?;
    // flags: bits 0-2 content, bits 3-5 all set = same tag as the previous blob, bits 6-7 both set = sub-range
    let f = fz_u8(u)?;
    let content = (f & 7) % 7;
    let same_tag_as_prev = (f >> 3) & 7 == 7;
    let has_sub = f >> 6 == 3;
    // length class (low nibble; `len_strategy()` weights 2:3:5:4:2) and seed width (high nibble)
    let c = fz_u8(u)?;
    let len = match c & 15 {
        0 | 1 => 0usize,
        2..=4 => u.int_in_range(1usize..=3)?,
        5..=9 => u.int_in_range(4usize..=63)?,
        10..=13 => u.int_in_range(64usize..=599)?,
        _ => u.int_in_range(600usize..=3000)?,
    };
    let seed = fz_seed(u, c >> 4 == 15)?;
    let sub = if has_sub { Some((fz_pick_word(u)?, fz_pick_word(u)?)) } else { None };
    Ok(BlobGen { tag, same_tag_as_prev, content, len, seed, sub })
}

/// `order_strategy()` (3 : 1 : 3)
fn fz_order(u: &mut Unstructured<'_>) -> UResult<DataOrder> {
    Ok(match fz_u8(u)? % 7 {
        0..=2 => DataOrder::Directory,
        3 => DataOrder::Reverse,
        _ => DataOrder::Keyed,
    })
}

/// `sfnt_layout_strategy()`
fn fz_sfnt_layout(u: &mut Unstructured<'_>) -> UResult<SfntLayout> {
    let f = fz_u8(u)?;
    let sorted_dir = f & 3 != 3;
    let aligned = (f >> 2) & 3 != 3;
    let use_subranges = f & 0x10 != 0;
    let merge_identical = f & 0x20 != 0;
    let dirs_first = f & 0x40 == 0;
    let ttc_version = if f & 0x80 != 0 { 2 } else { 1 };
    let order = fz_order(u)?;
    // gaps: empty (5 of 8) or 1..=5 counts in 0..200
    let g = fz_u8(u)?;
    let mut gaps = Vec::new();
    if g & 7 >= 5 {
        let n = 1 + ((g >> 3) % 5) as usize;
        for k in 0..n {
            if k >= 1 && u.is_empty() {
                break;
            }
            let v = fz_u8(u)?;
            gaps.push(match v % 7 {
                0..=2 => 0u8,
                3 | 4 => 1 + (v >> 3) % 8,
                5 => 4,
                _ => u.int_in_range(9u8..=199)?,
            });
        }
    }
    let gap_fill = if fz_u8(u)? % 5 == 4 { fz_u8(u)? } else { 0 };
    // store_once: 1..=5 flags, each true 3 times of 4 (two bits of a 16-bit word, both set = false)
    let n = 1 + (fz_u8(u)? % 5) as usize;
    let w = u.arbitrary::<u16>()?;
    let store_once: Vec<bool> = (0..n).map(|k| (w >> (2 * k)) & 3 != 3).collect();
    let dsig = match fz_u8(u)? % 4 {
        0 | 1 => (0u32, 0u32, 0u32),
        2 => (0x44534947u32, u.arbitrary::<u32>()?, u.arbitrary::<u32>()?),
        _ => (0x44534947u32, u32::MAX, u32::MAX),
    };
    let t = fz_u8(u)?;
    let trailing = if t % 5 == 4 { u.int_in_range(1u8..=39)? } else { 0 };
    let dir_keys = fz_keys(u, 12)?;
    let chunk_keys = fz_keys(u, 19)?;
    Ok(SfntLayout {
        sorted_dir,
        dir_keys,
        order,
        chunk_keys,
        gaps,
        gap_fill,
        aligned,
        store_once,
        use_subranges,
        merge_identical,
        dirs_first,
        ttc_version,
        dsig,
        trailing,
    })
}

/// `woff_layout_strategy()`
fn fz_woff_layout(u: &mut Unstructured<'_>) -> UResult<WoffLayout> {
    let f = fz_u8(u)?;
    let sorted_dir = f & 7 != 7;
    let aligned = (f >> 3) & 7 != 7;
    let has_meta = (f >> 6) & 1 != 0;
    let has_private = f >> 7 != 0;
    let order = fz_order(u)?;
    let version = (u.arbitrary::<u16>()?, u.arbitrary::<u16>()?);
    // gaps: empty (7 of 8) or 1..=4 counts in 0..12
    let g = fz_u8(u)?;
    let mut gaps = Vec::new();
    if g & 7 == 7 {
        let n = 1 + ((g >> 3) & 3) as usize;
        for k in 0..n {
            if k >= 1 && u.is_empty() {
                break;
            }
            gaps.push(u.int_in_range(0u8..=11)?);
        }
    }
    let gap_fill = if fz_u8(u)? % 3 == 2 { fz_u8(u)? } else { 0 };
    let meta = if has_meta {
        let len = u.int_in_range(1usize..=399)?;
        let level = u.int_in_range(0u32..=9)?;
        let seed = fz_seed(u, false)?;
        Some((content(3, len, seed), level))
    } else {
        None
    };
    let private = if has_private {
        let len = u.int_in_range(0usize..=59)?;
        let seed = fz_seed(u, false)?;
        Some(content(0, len, seed))
    } else {
        None
    };
    // comp: 1..=12 per-table choices (2 : 5 : 1 : 1)
    let n = u.int_in_range(1usize..=12)?;
    let mut comp = Vec::with_capacity(n);
    for k in 0..n {
        if k >= 1 && u.is_empty() {
            break;
        }
        let c = fz_u8(u)?;
        let level = ((c / 9) % 10) as u32;
        comp.push(match c % 9 {
            0 | 1 => Comp::Stored,
            2..=6 => Comp::Deflate(level),
            7 => Comp::Deflate(9),
            _ => Comp::DeflateAlways(level),
        });
    }
    let dir_keys = fz_keys(u, 12)?;
    let chunk_keys = fz_keys(u, 12)?;
    Ok(WoffLayout { comp, order, chunk_keys, meta, private, version, sorted_dir, dir_keys, aligned, gaps, gap_fill })
}

/// Decode libFuzzer bytes into a case of the `sfnt`, `ttc` or `woff` section (structure-aware, total).
pub fn case_from_bytes(data: &[u8]) -> arbitrary::Result<Case> {
    let mut u = Unstructured::new(data);
    let u = &mut u;
    let kind = match fz_u8(u)? % 3 {
        0 => Kind::Sfnt,
        1 => Kind::Ttc,
        _ => Kind::Woff,
    };
    let mut empty = Unstructured::new(&[]);
    let (layout, woff) = match kind {
        Kind::Woff => (fz_sfnt_layout(&mut empty)?, fz_woff_layout(u)?),
        _ => (fz_sfnt_layout(u)?, fz_woff_layout(&mut empty)?),
    };
    let n = u.int_in_range(0usize..=3)?;
    let mut probe_tags = Vec::with_capacity(n);
    for _ in 0..n {
        if u.is_empty() {
            break;
        }
        probe_tags.push(u.arbitrary::<u32>()?);
    }
    let nmem = if kind == Kind::Ttc { u.int_in_range(1usize..=4)? } else { 1 };
    let mut members = Vec::with_capacity(nmem);
    for k in 0..nmem {
        if k >= 1 && u.is_empty() {
            break;
        }
        // head: low nibble picks - 1, high nibble flavour (3 : 2 : 1)
        let h = fz_u8(u)?;
        let flavour = match (h >> 4) % 6 {
            0..=2 => TTF,
            3 | 4 => OTTO,
            _ => TRUE,
        };
        let np = 1 + (h & 15) as usize;
        let mut picks = Vec::with_capacity(np);
        for j in 0..np {
            if j >= 1 && u.is_empty() {
                break;
            }
            picks.push(fz_u8(u)?);
        }
        members.push(MemberGen { flavour, picks });
    }
    let (pmin, pmax) = if kind == Kind::Ttc { (1usize, 16usize) } else { (0, 14) };
    let npool = u.int_in_range(pmin..=pmax)?;
    let mut pool = Vec::with_capacity(npool);
    for k in 0..npool {
        if k >= pmin && u.is_empty() {
            break;
        }
        pool.push(fz_blob(u)?);
    }
    let case = Case { kind, pool, members, layout, woff, probe_tags };
    if let Some(what) = domain_violation(&case) {
        panic!("C10 case_from_bytes left the domain of case_strategy: {}", what);
    }
    Ok(case)
}

/// The ranges of `case_strategy(kind)`, re-stated.
fn domain_violation(c: &Case) -> Option<&'static str> {
    let ttc = c.kind == Kind::Ttc;
    if !(if ttc { 1..=16 } else { 0..=14 }).contains(&c.pool.len()) {
        return Some("pool size");
    }
    if !(if ttc { 1..=4 } else { 1..=1 }).contains(&c.members.len()) {
        return Some("member count");
    }
    for b in &c.pool {
        if b.tag.iter().any(|x| !(0x20..0x7F).contains(x)) || b.content > 6 || b.len > 3000 {
            return Some("blob");
        }
    }
    for m in &c.members {
        if ![TTF, OTTO, TRUE].contains(&m.flavour) || !(1..=16).contains(&m.picks.len()) {
            return Some("member");
        }
    }
    let l = &c.layout;
    if !(1..=12).contains(&l.dir_keys.len())
        || !(1..=19).contains(&l.chunk_keys.len())
        || l.gaps.len() > 5
        || l.gaps.iter().any(|g| *g >= 200)
        || !(1..=5).contains(&l.store_once.len())
        || !(1..=2).contains(&l.ttc_version)
        || l.trailing >= 40
        || !(l.dsig == (0, 0, 0) || l.dsig.0 == 0x44534947)
    {
        return Some("sfnt layout");
    }
    let w = &c.woff;
    let level_ok = |c: &Comp| match c {
        Comp::Stored => true,
        Comp::Deflate(l) | Comp::DeflateAlways(l) => *l <= 9,
    };
    if !(1..=12).contains(&w.comp.len())
        || !w.comp.iter().all(level_ok)
        || !(1..=12).contains(&w.chunk_keys.len())
        || !(1..=12).contains(&w.dir_keys.len())
        || w.gaps.len() > 4
        || w.gaps.iter().any(|g| *g >= 12)
        || w.meta.as_ref().map_or(false, |(x, l)| !(1..=399).contains(&x.len()) || *l > 9 || std::str::from_utf8(x).is_err())
        || w.private.as_ref().map_or(false, |x| x.len() > 59)
    {
        return Some("woff layout");
    }
    if c.probe_tags.len() > 3 {
        return Some("probe tags");
    }
    None
}

/// deterministic table content of a given flavour (0 random, 1 zeros, 2 short period, 3 text,
/// 4 sparse, 5 container magic in front, 6 long period)
pub fn content(kind: u8, len: usize, seed: u64) -> Vec<u8> {
    let mut out = Vec::with_capacity(len);
    let mut s = seed;
    let mut next = || {
        s = mix64(s);
        s
    };
    match kind {
        1 => out.resize(len, 0),
        2 | 6 => {
            let period = if kind == 2 { 1 + (next() % 8) as usize } else { 9 + (next() % 120) as usize };
            let pat: Vec<u8> = (0..period).map(|_| next() as u8).collect();
            for i in 0..len {
                out.push(pat[i % period]);
            }
        }
        3 => {
            const WORDS: [&str; 8] = ["<metadata ", "version=\"1.0\">", "glyph", " the ", "font", "</x>", "\n", "é"];
            while out.len() < len {
                out.extend_from_slice(WORDS[(next() % 8) as usize].as_bytes());
            }
            out.truncate(len);
            // keep it valid UTF-8 (the metadata block is read into a String)
            while std::str::from_utf8(&out).is_err() {
                out.pop();
            }
            while out.len() < len {
                out.push(b' ');
            }
        }
        4 => {
            out.resize(len, 0);
            for i in 0..len {
                if next() % 11 == 0 {
                    out[i] = next() as u8;
                }
            }
        }
        _ => {
            while out.len() < len {
                let v = next().to_le_bytes();
                out.extend_from_slice(&v);
            }
            out.truncate(len);
            if kind == 5 && len >= 4 {
                let magic: [&[u8; 4]; 5] = [b"wOFF", b"ttcf", b"OTTO", &[0, 1, 0, 0], b"wOF2"];
                out[..4].copy_from_slice(magic[(seed % 5) as usize]);
            }
        }
    }
    out
}

/// resolve the generated case into the container model
pub fn build_model(case: &Case) -> Model {
    let mut pool: Vec<Blob> = Vec::new();
    for (i, g) in case.pool.iter().enumerate() {
        let tag = if g.same_tag_as_prev && i > 0 { pool[i - 1].tag } else { g.tag };
        let mut blob = Blob { tag, data: Vec::new(), within: None };
        let src = (0..i).rev().find(|&k| pool[k].within.is_none() && !pool[k].data.is_empty());
        match (g.sub, src) {
            (Some((a, b)), Some(src)) => {
                let sl = pool[src].data.len();
                let start = pick(sl + 1, a);
                let l = pick(sl - start + 1, b);
                blob.data = pool[src].data[start..start + l].to_vec();
                blob.within = Some((src, start));
            }
            _ => blob.data = content(g.content, g.len, g.seed),
        }
        pool.push(blob);
    }
    let mut members = Vec::new();
    for m in &case.members {
        let mut tables: Vec<usize> = Vec::new();
        for b in 0..pool.len() {
            let p = m.picks[b % m.picks.len()];
            if p < 160 && tables.len() < 12 && !tables.iter().any(|&t| pool[t].tag == pool[b].tag) {
                tables.push(b);
            }
        }
        members.push(Member { flavour: m.flavour, tables });
    }
    Model { pool, members }
}

fn fail(sig: &str, msg: String) -> Fail {
    Fail::new(format!("C10:{}", sig), msg)
}

fn t32(t: &Tag) -> u32 {
    u32::from_be_bytes(*t)
}

fn tag_str(t: u32) -> String {
    let b = t.to_be_bytes();
    if b.iter().all(|c| (0x20..0x7F).contains(c)) {
        format!("'{}'", String::from_utf8_lossy(&b))
    } else {
        format!("0x{:08X}", t)
    }
}

/// tags that are NOT stored in the member: every other tag of the file, one-byte neighbours of
/// the stored tags, numeric neighbours, extremes and the generated random tags
fn absent_probes(model: &Model, m: usize, extra: &[u32]) -> Vec<u32> {
    let stored: Vec<u32> = model.members[m].tables.iter().map(|&b| t32(&model.pool[b].tag)).collect();
    let mut v: Vec<u32> = Vec::new();
    for b in &model.pool {
        v.push(t32(&b.tag));
    }
    for (k, s) in stored.iter().enumerate() {
        if k < 6 {
            let t = s.to_be_bytes();
            v.push(u32::from_be_bytes([t[0], t[1], t[2], t[3] ^ 0x01]));
            v.push(u32::from_be_bytes([t[0] ^ 0x20, t[1], t[2], t[3]]));
            v.push(u32::from_be_bytes([t[0], t[1], t[2], 0x20]));
            v.push(u32::from_be_bytes([t[3], t[2], t[1], t[0]]));
            v.push(s.wrapping_add(1));
            v.push(s.wrapping_sub(1));
            v.push(s & 0xFFFF_0000);
        }
    }
    v.extend_from_slice(&[0, u32::MAX, 0x0001_0000, OTTO, TTCF, t32(b"head")]);
    v.extend_from_slice(extra);
    v.sort();
    v.dedup();
    v.retain(|t| !stored.contains(t));
    v
}

/// Checks every observable of a table provider against the stored tables of one font.
/// `strict == false` (directory not in the order the container format requires, or data blocks
/// that break its alignment/padding rules): a reader may fail to find a table, so only "no wrong
/// data" is asserted: any data returned for a tag is that tag's data.
fn check_provider<P: FontTableProvider + SfntVersion>(
    p: &P,
    who: &str,
    flavour: u32,
    stored: &[(Tag, &[u8])],
    absent: &[u32],
    strict: bool,
    rec: &mut Rec,
) -> CaseResult {
    if p.sfnt_version() != flavour {
        return Err(fail("flavour", format!("{}: sfnt_version 0x{:08X}, stored flavour 0x{:08X}", who, p.sfnt_version(), flavour)));
    }
    let mut evals = 0u64;
    if strict {
        match p.table_tags() {
            Some(mut got) => {
                let mut want: Vec<u32> = stored.iter().map(|t| t32(&t.0)).collect();
                got.sort();
                want.sort();
                if got != want {
                    return Err(fail(
                        "table-tags",
                        format!("{}: table_tags {:?}, stored {:?}", who, got.iter().map(|t| tag_str(*t)).collect::<Vec<_>>(), want.iter().map(|t| tag_str(*t)).collect::<Vec<_>>()),
                    ));
                }
            }
            None => return Err(fail("table-tags-none", format!("{}: table_tags() is None", who))),
        }
    }
    for (tag, data) in stored {
        evals += 1;
        let t = t32(tag);
        let got = p.table_data(t);
        match &got {
            Ok(Some(d)) => {
                if &d[..] != *data {
                    return Err(fail(
                        "wrong-data",
                        format!("{}: table_data({}) returned {} bytes that differ from the {} stored bytes (first difference at {:?})",
                            who, tag_str(t), d.len(), data.len(), d.iter().zip(data.iter()).position(|(a, b)| a != b)),
                    ));
                }
            }
            Ok(None) if strict => return Err(fail("stored-table-absent", format!("{}: table_data({}) is None for a stored table of {} bytes", who, tag_str(t), data.len()))),
            Err(e) if strict => return Err(fail("stored-table-err", format!("{}: table_data({}) failed with {:?} for a stored table of {} bytes", who, tag_str(t), e, data.len()))),
            _ => rec.class("lenient:table-not-returned"),
        }
        match p.read_table_data(t) {
            Ok(d) => {
                if &d[..] != *data {
                    return Err(fail("wrong-data", format!("{}: read_table_data({}) differs from the stored bytes", who, tag_str(t))));
                }
            }
            Err(e) if strict => return Err(fail("stored-table-err", format!("{}: read_table_data({}) failed with {:?}", who, tag_str(t), e))),
            Err(_) => {}
        }
        if strict && !p.has_table(t) {
            return Err(fail("has-table-false", format!("{}: has_table({}) is false for a stored table", who, tag_str(t))));
        }
    }
    for &t in absent {
        evals += 1;
        match p.table_data(t) {
            Ok(None) => {}
            Ok(Some(d)) => {
                return Err(fail("absent-table-data", format!("{}: table_data({}) returned {} bytes for a tag that is not stored in this font", who, tag_str(t), d.len())))
            }
            Err(e) if strict => return Err(fail("absent-table-err", format!("{}: table_data({}) for an absent tag failed with {:?} instead of reporting absence", who, tag_str(t), e))),
            Err(_) => {}
        }
        if let Ok(d) = p.read_table_data(t) {
            return Err(fail("absent-table-data", format!("{}: read_table_data({}) returned {} bytes for an absent tag", who, tag_str(t), d.len())));
        }
        if strict && p.has_table(t) {
            return Err(fail("absent-has-table", format!("{}: has_table({}) is true for a tag that is not stored", who, tag_str(t))));
        }
    }
    rec.evaluations(evals);
    Ok(())
}

pub fn check_case(case: &Case, rec: &mut Rec) -> CaseResult {
    let model = build_model(case);
    match case.kind {
        Kind::Sfnt | Kind::Ttc => check_sfnt(case, &model, rec),
        Kind::Woff => check_woff(case, &model, rec),
    }
}

fn classify_model(model: &Model, rec: &mut Rec) -> (usize, bool) {
    let max_tables = model.members.iter().map(|m| m.tables.len()).max().unwrap_or(0);
    let zero_len = model.members.iter().any(|m| m.tables.iter().any(|&b| model.pool[b].data.is_empty()));
    rec.class_if(zero_len, "zero-length-table");
    rec.class_if(max_tables == 0, "tables:0");
    rec.class_if(max_tables == 1, "tables:1");
    rec.class_if((2..=4).contains(&max_tables), "tables:2-4");
    rec.class_if(max_tables >= 5, "tables:5-12");
    // same tag, different bytes in different members
    let mut same_tag_diff = false;
    for (i, a) in model.members.iter().enumerate() {
        for b in model.members.iter().skip(i + 1) {
            for &x in &a.tables {
                for &y in &b.tables {
                    if x != y && model.pool[x].tag == model.pool[y].tag && model.pool[x].data != model.pool[y].data {
                        same_tag_diff = true;
                    }
                }
            }
        }
    }
    rec.class_if(same_tag_diff, "members:same-tag-different-table");
    (max_tables, zero_len)
}

fn check_sfnt(case: &Case, model: &Model, rec: &mut Rec) -> CaseResult {
    let ttc = case.kind == Kind::Ttc;
    let enc = encode_sfnt(model, &case.layout, ttc);
    let bytes = &enc.bytes;
    rec.artefact("file", bytes);
    rec.hash_bytes(bytes);
    let f = &enc.facts;
    // the directory order and the alignment/padding rules are requirements of the format; outside
    // them only "no wrong data" is asserted
    // An unsorted directory breaks a format rule, but allsorts looks tables up by a linear scan and
    // serves such files today (as FreeType does); losing tables of files that load today is a
    // regression of exactly what C10 states, so the order of the directory does not relax the oracle.
    // Unaligned blocks and non-zero filler remain lenient ("no panic, no wrong data").
    let strict = f.unaligned_tables == 0 && f.unaligned_dirs == 0 && !f.nonzero_fill;
    rec.class_if(!f.dir_sorted, "strict:unsorted-directory");
    let nm = model.members.len();

    let scope = ReadScope::new(bytes);
    let fd = scope
        .read::<FontData<'_>>()
        .map_err(|e| fail("read-err", format!("FontData::read failed on a generated {:?}: {:?}", case.kind, e)))?;
    if !matches!(fd, FontData::OpenType(_)) {
        return Err(fail("dispatch", "FontData::read did not dispatch an sfnt/ttcf file to OpenTypeFont".into()));
    }
    for m in 0..nm {
        let stored = model.member_tables(m);
        let absent = absent_probes(model, m, &case.probe_tags);
        let who = format!("member {} of {}", m, nm);
        let p = match fd.table_provider(m) {
            Ok(p) => p,
            Err(e) if !strict => {
                let _ = e;
                rec.class("lenient:provider-err");
                continue;
            }
            Err(e) => return Err(fail("provider-err", format!("{}: table_provider failed: {:?}", who, e))),
        };
        check_provider(&p, &who, model.members[m].flavour, &stored, &absent, strict, rec)?;
    }
    // member index beyond the end of a collection
    if ttc {
        for idx in [nm, nm + 1, nm + 7, 255, 256, 65535, 65536, usize::MAX / 4, usize::MAX / 4 + 1, usize::MAX / 4 + 2, 1usize << 62, (1usize << 62) + 1, 1usize << 63, usize::MAX / 2 + 2, usize::MAX - 1, usize::MAX] {
            if idx < nm {
                continue;
            }
            if fd.table_provider(idx).is_ok() {
                return Err(fail("ttc-index-beyond-end", format!("table_provider({}) succeeded on a collection of {} fonts", idx, nm)));
            }
        }
    }

    // ---- lower-level readers
    let otf = scope
        .read::<OpenTypeFont<'_>>()
        .map_err(|e| fail("read-err", format!("OpenTypeFont::read failed: {:?}", e)))?;
    match (&otf.data, ttc) {
        (OpenTypeData::Single(_), false) => {}
        (OpenTypeData::Collection(h), true) => {
            if h.major_version != case.layout.ttc_version || h.offset_tables.len() != nm {
                return Err(fail("ttc-header", format!("TTCHeader version {} / {} fonts; stored version {} / {} fonts", h.major_version, h.offset_tables.len(), case.layout.ttc_version, nm)));
            }
            for (m, o) in h.offset_tables.iter().enumerate() {
                if o as usize != enc.dir_at[m] {
                    return Err(fail("ttc-header", format!("offset table {} at {}, stored at {}", m, o, enc.dir_at[m])));
                }
            }
        }
        _ => return Err(fail("dispatch", "single font / collection confusion in OpenTypeFont::read".into())),
    }
    for m in 0..nm {
        let ot = match otf.offset_table(m) {
            Ok(ot) => ot,
            Err(_) if !strict => continue,
            Err(e) => return Err(fail("provider-err", format!("offset_table({}) failed: {:?}", m, e))),
        };
        let recs = &enc.records[m];
        let (sr, es, rs) = search_fields(recs.len() as u16, 16);
        if ot.sfnt_version != model.members[m].flavour
            || ot.table_records.len() != recs.len()
            || (ot.search_range, ot.entry_selector, ot.range_shift) != (sr, es, rs)
        {
            return Err(fail("offset-table-fields", format!("member {}: header fields differ from the stored ones", m)));
        }
        for (k, r) in recs.iter().enumerate() {
            let got = ot.table_records.get_item(k).map(|x| (x.table_tag, x.checksum, x.offset, x.length));
            if got != Some((t32(&r.0), r.1, r.2, r.3)) {
                return Err(fail("table-record-fields", format!("member {} record {}: {:?}, stored {:?}", m, k, got, r)));
            }
            match ot.find_table_record(t32(&r.0)) {
                Some(x) => {
                    if (x.table_tag, x.checksum, x.offset, x.length) != (t32(&r.0), r.1, r.2, r.3) {
                        return Err(fail("find-table-record", format!("member {}: find_table_record({}) returned the record of {}", m, tag_str(t32(&r.0)), tag_str(x.table_tag))));
                    }
                    let d = x.read_table(&otf.scope);
                    let want = &bytes[r.2 as usize..(r.2 + r.3) as usize];
                    match d {
                        Ok(s) if s.data() == want => {}
                        Ok(_) => return Err(fail("wrong-data", format!("member {}: TableRecord::read_table({}) differs from the stored bytes", m, tag_str(x.table_tag)))),
                        Err(e) => return Err(fail("stored-table-err", format!("member {}: TableRecord::read_table({}) failed: {:?}", m, tag_str(x.table_tag), e))),
                    }
                }
                None if strict => return Err(fail("find-table-record", format!("member {}: find_table_record({}) found nothing", m, tag_str(t32(&r.0))))),
                None => {}
            }
            match ot.read_table(&otf.scope, t32(&r.0)) {
                Ok(Some(s)) => {
                    if s.data() != &bytes[r.2 as usize..(r.2 + r.3) as usize] {
                        return Err(fail("wrong-data", format!("member {}: OffsetTable::read_table({}) differs from the stored bytes", m, tag_str(t32(&r.0)))));
                    }
                }
                Ok(None) | Err(_) if !strict => {}
                other => return Err(fail("stored-table-err", format!("member {}: OffsetTable::read_table({}) gave {:?}", m, tag_str(t32(&r.0)), other.map(|o| o.map(|s| s.data().len()))))),
            }
        }
    }
    if ttc && otf.offset_table(nm).is_ok() {
        return Err(fail("ttc-index-beyond-end", format!("offset_table({}) succeeded on a collection of {} fonts", nm, nm)));
    }

    // ---- classification
    let (max_tables, _) = classify_model(model, rec);
    rec.class(if ttc { "container:ttc" } else { "container:sfnt" });
    rec.class(if strict { "conforming-layout" } else { "lenient-layout" });
    rec.class_if(!f.dir_sorted, "layout:unsorted-directory");
    rec.class_if(f.unaligned_tables > 0, "layout:unaligned-table");
    rec.class_if(f.has_gaps, "layout:gaps");
    rec.class_if(f.shared_ranges > 0, "layout:shared-range");
    rec.class_if(f.subranges > 0, "layout:sub-range");
    rec.class_if(!f.data_in_directory_order, "layout:data-order!=directory-order");
    if ttc {
        rec.class(&format!("ttc:v{}:members:{}", case.layout.ttc_version, nm));
        rec.class_if(f.shared_between_members > 0, "ttc:table-shared-between-members");
        rec.class_if(f.dir_after_data, "ttc:offset-table-behind-its-data");
    }
    let interesting = !f.dir_sorted
        || f.shared_ranges > 0
        || f.subranges > 0
        || f.has_gaps
        || f.unaligned_tables > 0
        || !f.data_in_directory_order
        || (ttc && nm >= 2);
    rec.set_nontrivial(max_tables >= 2 && interesting);
    rec.sample(|| {
        format!(
            "{:?} {} members, tables {:?}, strict {}, facts {:?}, {} bytes",
            case.kind,
            nm,
            model.members.iter().map(|m| m.tables.iter().map(|&b| format!("{}:{}", tag_str(t32(&model.pool[b].tag)), model.pool[b].data.len())).collect::<Vec<_>>()).collect::<Vec<_>>(),
            strict,
            f,
            bytes.len()
        )
    });
    Ok(())
}

fn check_woff(case: &Case, model: &Model, rec: &mut Rec) -> CaseResult {
    let stored = model.member_tables(0);
    let flavour = model.members[0].flavour;
    let lay = &case.woff;
    let enc = encode_woff(flavour, &stored, lay);
    let bytes = &enc.bytes;
    rec.artefact("file", bytes);
    rec.hash_bytes(bytes);
    let has_gaps = !stored.is_empty() && (0..stored.len()).any(|k| !lay.gaps.is_empty() && lay.gaps[k % lay.gaps.len()] > 0);
    let dir_sorted = enc.entries.windows(2).all(|w| w[0].0 < w[1].0);
    let unaligned = enc.entries.iter().any(|e| e.1 % 4 != 0);
    // unsorted directory: strict (see check_sfnt); a table kept as a zlib stream longer than
    // itself (compLength > origLength) makes the file one that encoders should not produce: the
    // reader may refuse it, but must never hand out anything but the stored table
    let strict = !unaligned && !has_gaps && enc.oversize == 0;
    rec.class_if(!dir_sorted, "strict:unsorted-directory");
    rec.class_if(enc.oversize > 0, "woff:compLength>origLength");

    let scope = ReadScope::new(bytes);
    let fd = scope
        .read::<FontData<'_>>()
        .map_err(|e| fail("read-err", format!("FontData::read failed on a generated WOFF: {:?}", e)))?;
    if !matches!(fd, FontData::Woff(_)) {
        return Err(fail("dispatch", "FontData::read did not dispatch a wOFF file to WoffFont".into()));
    }
    let absent = absent_probes(model, 0, &case.probe_tags);
    let p = fd
        .table_provider(0)
        .map_err(|e| fail("provider-err", format!("table_provider(0) failed on a WOFF: {:?}", e)))?;
    check_provider(&p, "woff", flavour, &stored, &absent, strict, rec)?;

    // ---- WoffFont directly
    let wf = scope
        .read::<WoffFont<'_>>()
        .map_err(|e| fail("read-err", format!("WoffFont::read failed: {:?}", e)))?;
    check_provider(&wf, "WoffFont", flavour, &stored, &absent, strict, rec)?;
    let h = &wf.woff_header;
    if h.flavor != flavour
        || h.length as usize != bytes.len()
        || h.num_tables as usize != stored.len()
        || h.total_sfnt_size != enc.total_sfnt_size
        || (h.meta_offset, h.meta_length, h.meta_orig_length) != enc.meta_at
        || (h.priv_offset, h.priv_length) != enc.priv_at
    {
        return Err(fail("woff-header-fields", format!("header {:?} differs from the stored fields", h)));
    }
    for (k, e) in enc.entries.iter().enumerate() {
        let got = wf.table_directory.get_item(k).map(|x| (x.tag, x.offset, x.comp_length, x.orig_length, x.orig_checksum));
        if got != Some((t32(&e.0), e.1, e.2, e.3, e.4)) {
            return Err(fail("woff-entry-fields", format!("entry {}: {:?}, stored {:?}", k, got, e)));
        }
        if let Some(x) = wf.find_table_directory_entry(t32(&e.0)) {
            if x.tag != t32(&e.0) {
                return Err(fail("find-table-record", format!("find_table_directory_entry({}) returned the entry of {}", tag_str(t32(&e.0)), tag_str(x.tag))));
            }
        } else if strict {
            return Err(fail("find-table-record", format!("find_table_directory_entry({}) found nothing", tag_str(t32(&e.0)))));
        }
    }
    // extended metadata: what is returned must be the stored document
    match (&lay.meta, wf.extended_metadata()) {
        (Some((xml, _)), Ok(Some(s))) => {
            if s.as_bytes() != &xml[..] {
                return Err(fail("woff-metadata", "extended_metadata() differs from the stored document".into()));
            }
        }
        (None, Ok(Some(s))) => return Err(fail("woff-metadata", format!("extended_metadata() returned {} bytes, none stored", s.len()))),
        (Some((xml, _)), Ok(None)) if !xml.is_empty() => return Err(fail("woff-metadata", "extended_metadata() is None for a stored document".into())),
        (Some(_), Err(e)) => return Err(fail("woff-metadata", format!("extended_metadata() failed: {:?}", e))),
        _ => {}
    }

    // ---- classification
    let (max_tables, _) = classify_model(model, rec);
    let ndef = enc.deflated.iter().filter(|d| **d).count();
    rec.class("container:woff");
    rec.class(if strict { "conforming-layout" } else { "lenient-layout" });
    rec.class(if ndef == 0 {
        "woff:all-stored"
    } else if ndef == stored.len() {
        "woff:all-deflated"
    } else {
        "woff:mixed-deflated-stored"
    });
    rec.class_if(enc.fell_back > 0, "woff:deflate-not-smaller->stored");
    rec.class_if(lay.meta.is_some(), "woff:metadata");
    rec.class_if(enc.priv_at.1 > 0, "woff:private");
    rec.class_if(!dir_sorted, "layout:unsorted-directory");
    rec.class_if(unaligned, "layout:unaligned-table");
    rec.class_if(has_gaps, "layout:gaps");
    rec.set_nontrivial(max_tables >= 2 && (ndef > 0 || !dir_sorted));
    rec.sample(|| {
        format!(
            "Woff flavour 0x{:08X}, tables {:?}, deflated {:?}, strict {}, meta {:?} priv {:?}, {} bytes",
            flavour,
            stored.iter().map(|t| format!("{}:{}", tag_str(t32(&t.0)), t.1.len())).collect::<Vec<_>>(),
            enc.deflated,
            strict,
            enc.meta_at,
            enc.priv_at,
            bytes.len()
        )
    });
    Ok(())
}

/// WOFF2 fixtures: a member index beyond the end of a collection is an error, not a panic.
fn check_woff2_fixture(i: u64, rec: &mut Rec) -> CaseResult {
    let files = fixtures::list("fonts/woff2", &["woff2"], 1 << 20);
    let Some(rel) = files.get(i as usize) else {
        return Ok(());
    };
    let Some(bytes) = fixtures::read(rel) else {
        return Ok(());
    };
    let fd = match ReadScope::new(&bytes).read::<FontData<'_>>() {
        Ok(fd) => fd,
        Err(_) => return Ok(()),
    };
    let FontData::Woff2(w) = &fd else {
        return Ok(());
    };
    let Some(dir) = &w.collection_directory else {
        rec.class("woff2:single-font (index unspecified, not probed)");
        return Ok(());
    };
    let n = dir.fonts().count();
    rec.class("woff2:collection");
    rec.set_nontrivial(true);
    rec.hash_bytes(&bytes);
    for idx in 0..n {
        if let Err(e) = fd.table_provider(idx) {
            return Err(fail("woff2-member-err", format!("{}: table_provider({}) of {} failed: {:?}", rel, idx, n, e)));
        }
    }
    for idx in [n, n + 1, 255, 65536, usize::MAX / 4 + 1, 1usize << 62, (1usize << 62) + 1, 1usize << 63, usize::MAX] {
        if fd.table_provider(idx).is_ok() {
            return Err(fail("woff2-index-beyond-end", format!("{}: table_provider({}) succeeded on a collection of {} fonts", rel, idx, n)));
        }
    }
    rec.evaluations(9 + n as u64);
    Ok(())
}

impl Property for C10 {
    fn id(&self) -> &'static str {
        "C10"
    }
    fn rule(&self) -> String {
        "proptest generates a container model: a pool of 0-16 table blobs (known tags, arbitrary printable tags, tags one byte away from known ones, repeated tags; \
         lengths 0-3000 biased to 0, 1-3 and non-multiples of 4; random / zero / periodic / text / sparse content; some blobs are sub-ranges of others) and 1 (sfnt, WOFF) or 1-4 (TTC) member fonts \
         selecting up to 12 blobs with unique tags and a flavour in {0x00010000, OTTO, true}. My encoders (fontgen::container) lay it out with free choices: directory sorted or permuted, data in any order, gaps, \
         unaligned data, shared byte ranges and sub-ranges, TTC v1/v2 with offset tables anywhere and tables shared or duplicated between members, WOFF 1.0 with per-table zlib level 0-9 or stored \
         (always stored when deflate is not smaller), metadata and private blocks. For every member and every stored tag table_data/read_table_data must equal the stored bytes, has_table/table_tags/sfnt_version \
         must match, absent tags (tags of other members, one-byte and numeric neighbours, extremes) must report absence, a member index >= collection size must be Err; the lower-level OpenTypeFont/OffsetTable/TableRecord/WoffFont \
         readers are checked the same way. An unsorted directory is checked strictly (allsorts serves such files today). Layouts that break a rule a reader may rely on (unaligned blocks, non-zero filler, WOFF gaps, a WOFF table kept as a zlib stream longer than itself) are checked leniently: no panic and never anything but the stored table. \
         Non-trivial = a font with >= 2 tables and (>= 1 deflated table, or a collection of >= 2 members, or an unsorted directory, or a non-canonical data layout: order != directory order, gaps, unaligned, shared range or sub-range); distinct by hash of the file bytes."
            .to_string()
    }
    fn assumptions(&self) -> Vec<String> {
        vec![
            "table_provider(i > 0) on a single-font sfnt or WOFF is unspecified and not probed".into(),
            "flate2 (zlib backend, the one the library is built with by default) is trusted as the deflate encoder of the generator".into(),
            "the second flate2 backend (rust) named by the property's quantifier is not covered: it needs a second harness build with other cargo features".into(),
        ]
    }
    fn run(&self, ctx: &mut Ctx) {
        let n = ctx.cases(180_000, 3_000_000);
        ctx.section("sfnt", n, case_strategy(Kind::Sfnt), |c, rec| check_case(c, rec));
        let n = ctx.cases(150_000, 2_500_000);
        ctx.section("ttc", n, case_strategy(Kind::Ttc), |c, rec| check_case(c, rec));
        let n = ctx.cases(180_000, 3_000_000);
        ctx.section("woff", n, case_strategy(Kind::Woff), |c, rec| check_case(c, rec));
        let files = fixtures::list("fonts/woff2", &["woff2"], 1 << 20).len() as u64;
        ctx.enumerate("woff2-collection-index", files, true, |i, rec| check_woff2_fixture(i, rec));
    }
}
