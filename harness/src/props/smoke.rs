//! SMOKE — sanity check of the shared fontgen basics (not a listed property): a BasicFont
//! must load in allsorts, map characters, report advances, and survive subsetting.
use crate::engine::{CaseResult, Ctx, Fail, Property, Rec};
use crate::fontgen::basic::BasicFont;
use allsorts::binary::read::ReadScope;
use allsorts::font::{Font, MatchingPresentation};
use allsorts::font_data::FontData;
use allsorts::tables::FontTableProvider;
use proptest::prelude::*;

pub struct SMOKE;


fn check(c: &(u16, Vec<(u32, u16)>, bool), rec: &mut Rec) -> CaseResult {
    let (n, maps, long) = c;
    let mut f = BasicFont::with_glyphs(*n);
    f.long_loca = *long;
    for (ch, g) in maps {
        if char::from_u32(*ch).is_some() {
            f.cmap.insert(*ch, g % n);
        }
    }
    let bytes = f.build();
    rec.artefact("font", &bytes);
    let fd = ReadScope::new(&bytes).read::<FontData<'_>>().map_err(|e| Fail::new("SMOKE:read", format!("{:?}", e)))?;
    let prov = fd.table_provider(0).map_err(|e| Fail::new("SMOKE:provider", format!("{:?}", e)))?;
    let mut font = Font::new(prov).map_err(|e| Fail::new("SMOKE:font", format!("{:?}", e)))?;
    if font.num_glyphs() != *n {
        return Err(Fail::new("SMOKE:num_glyphs", format!("{} != {}", font.num_glyphs(), n)));
    }
    for (ch, g) in &f.cmap {
        let c = char::from_u32(*ch).unwrap();
        let (got, _) = font.lookup_glyph_index(c, MatchingPresentation::NotRequired, None);
        if got != *g {
            return Err(Fail::new("SMOKE:cmap", format!("U+{:04X} -> {} expected {}", ch, got, g)));
        }
    }
    for g in 0..*n {
        let adv = font.horizontal_advance(g);
        if adv != Some(f.metrics[g as usize].0) {
            return Err(Fail::new("SMOKE:advance", format!("glyph {} advance {:?}", g, adv)));
        }
    }
    let ids: Vec<u16> = (0..(*n).min(5)).collect();
    let sub = allsorts::subset::subset(&font.font_table_provider, &ids)
        .map_err(|e| Fail::new("SMOKE:subset", format!("{:?}", e)))?;
    let fd2 = ReadScope::new(&sub).read::<FontData<'_>>().map_err(|e| Fail::new("SMOKE:reread", format!("{:?}", e)))?;
    let p2 = fd2.table_provider(0).map_err(|e| Fail::new("SMOKE:reprovider", format!("{:?}", e)))?;
    if !p2.has_table(allsorts::tag::GLYF) {
        return Err(Fail::new("SMOKE:subset-glyf", "no glyf in subset".to_string()));
    }
    rec.set_nontrivial(!f.cmap.is_empty());
    Ok(())
}

impl Property for SMOKE {
    fn id(&self) -> &'static str {
        "SMOKE"
    }
    fn rule(&self) -> String {
        "BasicFont models; non-trivial = at least one mapped character".into()
    }
    fn run(&self, ctx: &mut Ctx) {
        ctx.section(
            "basicfont",
            ctx.cases(2000, 20000),
            (2u16..300, proptest::collection::vec((0x20u32..0x20000, any::<u16>()), 0..40), any::<bool>()),
            check,
        );
    }
}
