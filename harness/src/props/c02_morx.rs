//! C02 helper: generator of small `morx` tables (written from Apple's TrueType reference manual:
//! extended state tables, lookup tables, contextual / ligature / non-contextual subtables).
//! A `MorxCase` is a model; `encode` turns it into bytes and reports the position of every
//! count / offset / index / flag field it wrote (the anchors of the structural faults).
//! State graphs draw their next-state indices from all states and their flags independently, so
//! cycles of one, two or three DONT_ADVANCE states are common.

use super::layout::{Anchor, Kind};
use proptest::prelude::*;

/// number of glyphs the class tables talk about (glyph ids 1..=CLASSED); the fonts have more
pub const CLASSED: u16 = 14;

#[derive(Clone, Debug)]
pub struct MorxSub {
    /// 0 rearrangement and 5 insertion are kept as opaque bytes by the reader; 1, 2, 4 are read
    pub kind: u8,
    /// bit of the subFeatureFlags this subtable listens to
    pub flag_bit: u8,
    pub class_fmt: u8,
    /// class of glyph 1 + i: 0..k -> class 4 + v; >= k -> not listed (out of bounds, class 1)
    pub glyph_classes: Vec<u8>,
    pub nstates: u8,
    /// number of classes beyond the four predefined ones
    pub k: u8,
    /// state rows: entry index per class (4 + k columns)
    pub rows: Vec<Vec<u8>>,
    /// (next state, flags, index a, index b)
    pub entries: Vec<(u8, u16, u16, u16)>,
    /// contextual substitution tables / the non-contextual table: (lookup format, glyph -> glyph)
    pub substs: Vec<(u8, Vec<(u8, u16)>)>,
    pub actions: Vec<u32>,
    pub comps: Vec<u16>,
    pub ligs: Vec<u16>,
    pub junk: Vec<u8>,
    /// write nClasses as this instead of 4 + k (boundary)
    pub nclasses_override: Option<u8>,
}

#[derive(Clone, Debug)]
pub struct MorxChain {
    pub default_flags: u32,
    pub feats: Vec<(u16, u16, u32, u32)>,
    pub subs: Vec<MorxSub>,
}

#[derive(Clone, Debug)]
pub struct MorxCase {
    pub v3: bool,
    pub chains: Vec<MorxChain>,
    pub with_kern: bool,
}

// ---------------------------------------------------------------------------------------------
// encoder

#[derive(Default)]
struct Blob {
    b: Vec<u8>,
    a: Vec<Anchor>,
}

impl Blob {
    fn anchor(&mut self, width: u8, kind: Kind, what: &'static str, depth: u8) {
        self.a.push(Anchor { off: self.b.len() as u32, width, kind, lookup: 0xFFFF, depth, what });
    }
    fn u16(&mut self, v: u16) -> &mut Self {
        self.b.extend_from_slice(&v.to_be_bytes());
        self
    }
    fn u32(&mut self, v: u32) -> &mut Self {
        self.b.extend_from_slice(&v.to_be_bytes());
        self
    }
    fn u16a(&mut self, v: u16, kind: Kind, what: &'static str, depth: u8) -> &mut Self {
        self.anchor(2, kind, what, depth);
        self.u16(v)
    }
    fn u32a(&mut self, v: u32, kind: Kind, what: &'static str, depth: u8) -> &mut Self {
        self.anchor(4, kind, what, depth);
        self.u32(v)
    }
    fn append(&mut self, other: Blob) {
        let base = self.b.len() as u32;
        for mut x in other.a {
            x.off += base;
            self.a.push(x);
        }
        self.b.extend_from_slice(&other.b);
    }
    fn pad4(&mut self) {
        while self.b.len() % 4 != 0 {
            self.b.push(0);
        }
    }
    fn set_u32(&mut self, at: usize, v: u32) {
        if let Some(s) = self.b.get_mut(at..at + 4) {
            s.copy_from_slice(&v.to_be_bytes());
        }
    }
}

fn bsearch_header(b: &mut Blob, unit: u16, n: u16) {
    let mut pow = 1u16;
    let mut sel = 0u16;
    while (pow as u32) * 2 <= n as u32 {
        pow *= 2;
        sel += 1;
    }
    let sr = if n == 0 { 0 } else { pow.wrapping_mul(unit) };
    b.u16a(unit, Kind::Value, "lookup.unitSize", 1);
    b.u16a(n, Kind::Count, "lookup.nUnits", 1);
    b.u16(sr).u16(sel).u16(n.wrapping_mul(unit).wrapping_sub(sr));
}

/// AAT lookup table; `map` sorted by glyph, `default` = value of glyphs not in the map for the
/// array formats (None: the glyph itself)
fn lookup_table(fmt: u8, map: &[(u16, u16)], nglyphs: u16, default: Option<u16>) -> Blob {
    let mut b = Blob::default();
    let dv = |g: u16| default.unwrap_or(g);
    let get = |g: u16| map.iter().find(|(x, _)| *x == g).map(|(_, v)| *v).unwrap_or(dv(g));
    let fmt = if map.is_empty() && matches!(fmt, 8 | 10 | 4 | 2) { 6 } else { fmt };
    match fmt {
        0 => {
            b.u16a(0, Kind::Format, "lookup.format", 0);
            for g in 0..nglyphs {
                b.u16(get(g));
            }
        }
        2 => {
            b.u16a(2, Kind::Format, "lookup.format", 0);
            // runs of consecutive glyphs with the same value
            let mut segs: Vec<(u16, u16, u16)> = Vec::new();
            for (g, v) in map {
                match segs.last_mut() {
                    Some((last, _, val)) if *last + 1 == *g && *val == *v => *last = *g,
                    _ => segs.push((*g, *g, *v)),
                }
            }
            bsearch_header(&mut b, 6, segs.len() as u16);
            for (i, (last, first, v)) in segs.iter().enumerate() {
                if i == 0 {
                    b.u16a(*last, Kind::Value, "segment.lastGlyph", 1).u16a(*first, Kind::Value, "segment.firstGlyph", 1).u16a(*v, Kind::Class, "segment.value", 1);
                } else {
                    b.u16(*last).u16(*first).u16(*v);
                }
            }
            b.u16(0xFFFF).u16(0xFFFF).u16(0);
        }
        4 => {
            b.u16a(4, Kind::Format, "lookup.format", 0);
            let mut segs: Vec<(u16, u16, Vec<u16>)> = Vec::new();
            for (g, v) in map {
                match segs.last_mut() {
                    Some((last, _, vals)) if *last + 1 == *g => {
                        *last = *g;
                        vals.push(*v);
                    }
                    _ => segs.push((*g, *g, vec![*v])),
                }
            }
            bsearch_header(&mut b, 6, segs.len() as u16);
            let mut off = 12 + 6 * (segs.len() + 1);
            for (i, (last, first, vals)) in segs.iter().enumerate() {
                b.u16(*last).u16(*first);
                if i == 0 {
                    b.u16a(off as u16, Kind::Offset, "segment.valueOffset", 1);
                } else {
                    b.u16(off as u16);
                }
                off += 2 * vals.len();
            }
            b.u16(0xFFFF).u16(0xFFFF).u16(0);
            for (_, _, vals) in &segs {
                for v in vals {
                    b.u16(*v);
                }
            }
        }
        8 | 10 => {
            let first = map.first().map(|x| x.0).unwrap_or(0);
            let last = map.last().map(|x| x.0).unwrap_or(0);
            b.u16a(fmt as u16, Kind::Format, "lookup.format", 0);
            if fmt == 10 {
                b.u16a(2, Kind::Value, "lookup.unitSize", 1);
            }
            b.u16a(first, Kind::Value, "lookup.firstGlyph", 1);
            b.u16a(last - first + 1, Kind::Count, "lookup.glyphCount", 1);
            for g in first..=last {
                b.u16(get(g));
            }
        }
        _ => {
            b.u16a(6, Kind::Format, "lookup.format", 0);
            bsearch_header(&mut b, 4, map.len() as u16);
            for (i, (g, v)) in map.iter().enumerate() {
                if i == 0 {
                    b.u16a(*g, Kind::Value, "single.glyph", 1).u16a(*v, Kind::Class, "single.value", 1);
                } else {
                    b.u16(*g).u16(*v);
                }
            }
            b.u16(0xFFFF).u16(0xFFFF);
        }
    }
    b
}

fn class_map(s: &MorxSub) -> Vec<(u16, u16)> {
    s.glyph_classes.iter().enumerate().filter(|(_, c)| **c < s.k).map(|(i, c)| (1 + i as u16, 4 + *c as u16)).collect()
}

fn subst_map(m: &[(u8, u16)]) -> Vec<(u16, u16)> {
    let mut v: Vec<(u16, u16)> = m.iter().map(|(g, o)| (1 + (*g as u16 % CLASSED), *o)).collect();
    v.sort();
    v.dedup_by_key(|x| x.0);
    v
}

fn state_table(s: &MorxSub, nglyphs: u16, extra_header_words: usize, entry_words: usize) -> (Blob, usize) {
    // STXHeader (4 x u32) + extra offsets, class table, state array, entry table
    let ncols = 4 + s.k as usize;
    let mut b = Blob::default();
    b.u32a(s.nclasses_override.map(|v| v as u32).unwrap_or(ncols as u32), Kind::Count, "stx.nClasses", 0);
    let hdr_at = b.b.len();
    for what in ["stx.classTableOffset", "stx.stateArrayOffset", "stx.entryTableOffset"] {
        b.u32a(0, Kind::Offset, what, 0);
    }
    for _ in 0..extra_header_words {
        b.u32a(0, Kind::Offset, "stx.extraOffset", 0);
    }
    let class_at = b.b.len();
    b.append(lookup_table(s.class_fmt, &class_map(s), nglyphs, Some(1)));
    b.pad4();
    let state_at = b.b.len();
    for (r, row) in s.rows.iter().enumerate() {
        for c in 0..ncols {
            let v = row.get(c).copied().unwrap_or(0) as u16;
            if r < 3 {
                b.u16a(v, Kind::Index, "stateArray.entryIndex", 1);
            } else {
                b.u16(v);
            }
        }
    }
    let entry_at = b.b.len();
    for (i, (next, flags, x, y)) in s.entries.iter().enumerate() {
        let d = if i < 2 { 0 } else { 1 };
        b.u16a(*next as u16, Kind::Index, "entry.newState", d);
        b.u16a(*flags, Kind::Value, "entry.flags", d);
        b.u16a(*x, Kind::Index, "entry.index", d);
        if entry_words == 4 {
            b.u16a(*y, Kind::Index, "entry.index2", d);
        }
    }
    b.set_u32(hdr_at, class_at as u32);
    b.set_u32(hdr_at + 4, state_at as u32);
    b.set_u32(hdr_at + 8, entry_at as u32);
    (b, hdr_at + 12)
}

fn subtable_body(s: &MorxSub, nglyphs: u16) -> Blob {
    match s.kind {
        1 => {
            let (mut b, extra_at) = state_table(s, nglyphs, 1, 4);
            b.pad4();
            let subst_at = b.b.len();
            b.set_u32(extra_at, subst_at as u32);
            // offsets (from the start of the offset array) to the per-entry lookup tables
            let tables: Vec<Blob> = s.substs.iter().map(|(f, m)| lookup_table(*f, &subst_map(m), nglyphs, None)).collect();
            let mut off = 4 * tables.len();
            let mut arr = Blob::default();
            for t in &tables {
                arr.u32a(off as u32, Kind::Offset, "contextual.substitutionTableOffset", 1);
                off += t.b.len();
            }
            b.append(arr);
            for t in tables {
                b.append(t);
            }
            b
        }
        2 => {
            let (mut b, extra_at) = state_table(s, nglyphs, 3, 3);
            b.pad4();
            let act_at = b.b.len();
            for (i, a) in s.actions.iter().enumerate() {
                if i < 3 {
                    b.u32a(*a, Kind::Value, "ligature.action", 1);
                } else {
                    b.u32(*a);
                }
            }
            let comp_at = b.b.len();
            for c in &s.comps {
                b.u16(*c);
            }
            let lig_at = b.b.len();
            for l in &s.ligs {
                b.u16(*l);
            }
            b.set_u32(extra_at, act_at as u32);
            b.set_u32(extra_at + 4, comp_at as u32);
            b.set_u32(extra_at + 8, lig_at as u32);
            b
        }
        4 => {
            let (f, m) = s.substs.first().cloned().unwrap_or((6, Vec::new()));
            lookup_table(f, &subst_map(&m), nglyphs, None)
        }
        _ => {
            let mut b = Blob::default();
            b.b.extend_from_slice(&s.junk);
            b
        }
    }
}

/// Encode the table; anchors are relative to the start of the table.
pub fn encode(m: &MorxCase, nglyphs: u16) -> (Vec<u8>, Vec<Anchor>) {
    let mut t = Blob::default();
    t.u16a(if m.v3 { 3 } else { 2 }, Kind::Value, "morx.version", 0);
    t.u16(0);
    t.u32a(m.chains.len() as u32, Kind::Count, "morx.nChains", 0);
    for ch in &m.chains {
        let mut c = Blob::default();
        c.u32a(ch.default_flags, Kind::Value, "chain.defaultFlags", 0);
        let len_at = c.b.len();
        c.u32a(0, Kind::Count, "chain.chainLength", 0);
        c.u32a(ch.feats.len() as u32, Kind::Count, "chain.nFeatureEntries", 0);
        c.u32a(ch.subs.len() as u32, Kind::Count, "chain.nSubtables", 0);
        for (ty, set, en, dis) in &ch.feats {
            c.u16(*ty).u16(*set).u32(*en).u32(*dis);
        }
        for s in &ch.subs {
            let mut body = subtable_body(s, nglyphs);
            body.pad4();
            c.u32a(12 + body.b.len() as u32, Kind::Count, "subtable.length", 0);
            c.u32a(s.kind as u32, Kind::Value, "subtable.coverage", 0);
            c.u32a(1u32 << (s.flag_bit % 32), Kind::Value, "subtable.subFeatureFlags", 0);
            c.append(body);
        }
        if m.v3 {
            // subtable glyph coverage array: one (absent) offset per subtable
            for _ in &ch.subs {
                c.u32(0xFFFF_FFFF);
            }
        }
        let total = c.b.len() as u32;
        c.set_u32(len_at, total);
        t.append(c);
    }
    (t.b, t.a)
}

// ---------------------------------------------------------------------------------------------
// strategy

fn sub_strategy() -> impl Strategy<Value = MorxSub> {
    let kind = prop_oneof![4 => Just(1u8), 4 => Just(2u8), 2 => Just(4u8), 1 => Just(0u8), 1 => Just(5u8)];
    let class_fmt = prop_oneof![Just(0u8), Just(2), Just(4), Just(6), Just(8), Just(10)];
    (kind, 0u8..4, class_fmt, 2u8..=6, 1u8..=3).prop_flat_map(|(kind, flag_bit, class_fmt, nstates, k)| {
        let ncols = 4 + k as usize;
        let nentries = 2usize..=8;
        let entry = (
            // next state: mostly in range
            prop_oneof![9 => 0u8..nstates, 1 => any::<u8>()],
            // flags: the three top bits independently, the rest rarely
            (proptest::bool::weighted(0.35), proptest::bool::weighted(0.4), proptest::bool::weighted(0.3), prop_oneof![9 => Just(0u16), 1 => any::<u16>()])
                .prop_map(|(a, b, c, rest)| (if a { 0x8000 } else { 0 }) | (if b { 0x4000 } else { 0 }) | (if c { 0x2000 } else { 0 }) | (rest & 0x1FFF)),
            // indices: small, 0xFFFF (= none for contextual), or anything
            prop_oneof![5 => 0u16..6, 3 => Just(0xFFFFu16), 1 => any::<u16>()],
            prop_oneof![5 => 0u16..6, 3 => Just(0xFFFFu16), 1 => any::<u16>()],
        );
        // substitution values: glyphs of the font, 0xFFFF (the AAT "deleted glyph": well-formed, the
        // glyph is to be removed from the run), or anything
        let subst = (prop_oneof![Just(0u8), Just(2), Just(4), Just(6), Just(8), Just(10)], proptest::collection::vec((0u8..CLASSED as u8, prop_oneof![7 => 1u16..60, 2 => Just(0xFFFFu16), 1 => any::<u16>()]), 0..6));
        // ligature actions: offset (30 bit, signed) small around zero, LAST / STORE bits
        let action = (prop_oneof![8 => 0u32..16, 1 => Just(0x3FFF_FFFFu32), 1 => any::<u32>()], any::<bool>(), proptest::bool::weighted(0.3))
            .prop_map(|(off, last, store)| (off & 0x3FFF_FFFF) | if last { 0x8000_0000 } else { 0 } | if store { 0x4000_0000 } else { 0 });
        (
            proptest::collection::vec(prop_oneof![8 => 0u8..k, 2 => Just(255u8)], CLASSED as usize),
            proptest::collection::vec(proptest::collection::vec(any::<u8>(), ncols), nstates as usize),
            proptest::collection::vec(entry, nentries),
            proptest::collection::vec(subst, 0..5),
            proptest::collection::vec(action, 0..8),
            proptest::collection::vec(prop_oneof![8 => 0u16..4, 1 => any::<u16>()], 0..40),
            (proptest::collection::vec(prop_oneof![8 => 1u16..60, 1 => any::<u16>()], 0..8), proptest::collection::vec(any::<u8>(), 0..24), proptest::option::weighted(0.06, any::<u8>())),
        )
            .prop_map(move |(glyph_classes, rows, entries, substs, actions, comps, (ligs, junk, nclasses_override))| {
                let ne = entries.len() as u8;
                // state cells: an entry index, mostly in range
                let rows = rows.into_iter().map(|r| r.into_iter().map(|v| if v >= 250 { v } else { v % ne }).collect()).collect();
                MorxSub { kind, flag_bit, class_fmt, glyph_classes, nstates, k, rows, entries, substs, actions, comps, ligs, junk, nclasses_override }
            })
    })
}

pub fn strategy() -> impl Strategy<Value = MorxCase> {
    let chain = (proptest::collection::vec(sub_strategy(), 1..=3), any::<u32>(), proptest::collection::vec((prop_oneof![Just(1u16), Just(21), Just(6), Just(11), any::<u16>()], 0u16..22, any::<u32>(), any::<u32>()), 0..3)).prop_map(
        |(subs, extra, feats)| {
            // the default flags enable every subtable, plus or minus a few random bits
            let mut flags = 0u32;
            for s in &subs {
                flags |= 1 << (s.flag_bit % 32);
            }
            let default_flags = if extra & 0xF == 0 { extra } else { flags | (extra & 0xF0) };
            MorxChain { default_flags, feats, subs }
        },
    );
    (proptest::bool::weighted(0.3), proptest::collection::vec(chain, 1..=2), any::<bool>()).prop_map(|(v3, chains, with_kern)| MorxCase { v3, chains, with_kern })
}

// ---------------------------------------------------------------------------------------------
// deterministic enumeration: every state graph with `nstates` states over two glyph classes in
// which every (state, class) cell has its own entry with a next state and a DONT_ADVANCE bit

pub fn graph_count(nstates: u32) -> u64 {
    ((2 * nstates) as u64).pow(2 * nstates)
}

/// graph number `i` of `graph_count(nstates)`, as a contextual (kind 1) or ligature (kind 2) subtable
pub fn graph_case(kind: u8, nstates: u32, mut i: u64) -> MorxCase {
    let choices = (2 * nstates) as u64;
    let mut entries: Vec<(u8, u16, u16, u16)> = vec![(0, 0, if kind == 1 { 0xFFFF } else { 0 }, 0xFFFF)];
    let mut rows = Vec::new();
    for _s in 0..nstates {
        let mut row = vec![0u8; 6];
        for c in 0..2 {
            let v = i % choices;
            i /= choices;
            let next = (v / 2) as u8;
            let dont_advance = v % 2 == 1;
            entries.push((next, if dont_advance { 0x4000 } else { 0 }, if kind == 1 { 0xFFFF } else { 0 }, 0xFFFF));
            row[4 + c] = (entries.len() - 1) as u8;
        }
        rows.push(row);
    }
    let sub = MorxSub {
        kind,
        flag_bit: 0,
        class_fmt: 6,
        // glyph 1 ('a') -> class 4, glyph 2 ('b') -> class 5
        glyph_classes: (0..CLASSED as u8).map(|g| if g < 2 { g } else { 255 }).collect(),
        nstates: nstates as u8,
        k: 2,
        rows,
        entries,
        substs: Vec::new(),
        actions: vec![0x8000_0000],
        comps: vec![0; 8],
        ligs: vec![1],
        junk: Vec::new(),
        nclasses_override: None,
    };
    MorxCase { v3: false, chains: vec![MorxChain { default_flags: 1, feats: Vec::new(), subs: vec![sub] }], with_kern: false }
}
