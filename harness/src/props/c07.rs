//! C07 — subsetting preserves the outlines and metrics of retained glyphs.
//!
//! (font, glyph id list) pairs → `subset::subset` / `subset::prince::subset` → the output is
//! read back and compared glyph by glyph with the source font:
//!
//! * TrueType: my own glyf/loca/hmtx readers (`refmodel::glyf_lite`) on *both* fonts: identical
//!   contours, points, on-curve bits, instructions and bounding box; composite trees equal
//!   modulo the id renumbering; the ids appended after the list are exactly the composite
//!   closure computed by my own reader; numGlyphs = list + closure.
//! * CFF / CFF2→CFF: the path delivered by allsorts' outline visitor on the subset equals the
//!   path delivered on the source (bit-exact f32).
//! * hmtx: advance and lsb of new id k equal those of old id list[k] (my own hmtx reader,
//!   including glyphs past numberOfHMetrics).

use crate::engine::util::{pick, truncate};
use super::c18;
use crate::engine::{fixtures, CaseResult, Ctx, Fail, Property, Rec};
use crate::fontgen::basic::SimpleGlyph;
use crate::fontgen::sfnt::{find_table, parse_directory};
use crate::fontgen::type2::{diff_commands, Cmd};
use crate::refmodel::type2::{Deviations, T2Font};
use crate::fontgen::ttgen::cffgen::{self, cff_model, CffModel};
use crate::fontgen::ttgen::{tt_model, woff1_wrap, ArgsModel, GlyphModel, TransformModel, TtModel};
use crate::fontgen::cffx::{self, CffXLayout};
use crate::fontgen::wrap::{glyph_info, tables_of, wrap, wrap_strategy, GlyphInfo, WrapSpec};
use crate::refmodel::glyf_lite::{self as gl, Args, Component, GlyphLite, Transform, TtTables};
use allsorts::binary::read::ReadScope;
use allsorts::cff::cff2::CFF2;
use allsorts::cff::outline::CFF2Outlines;
use allsorts::cff::{CFFVariant, CFF};
use allsorts::font_data::FontData;
use allsorts::outline::{OutlineBuilder, OutlineSink};
use allsorts::pathfinder_geometry::line_segment::LineSegment2F;
use allsorts::pathfinder_geometry::vector::Vector2F;
use allsorts::subset::prince::PrinceCmapTarget;
use allsorts::subset::SubsetError;
use allsorts::tables::FontTableProvider;
use proptest::prelude::*;
use std::collections::{BTreeMap, BTreeSet, VecDeque};
use std::sync::{Arc, Mutex, OnceLock};

pub struct C07;

fn fail(sig: &str, msg: String) -> Fail {
    Fail::new(format!("C07:{}", sig), msg)
}

// ------------------------------------------------------------------------------------------
// case model

#[derive(Clone, Debug)]
pub enum Api {
    /// `subset::subset`
    Plain,
    /// `subset::prince::subset`; target 0 unrestricted, 1 MacRoman, 2 omit, 3 supplied array
    Prince { target: u8, cid: bool },
}

#[derive(Clone, Debug)]
pub struct ListSpec {
    /// 0 ascending, 1 as drawn (shuffled), 2 descending
    pub order: u8,
    /// 0 any glyph, 1 composite parents only, 2 component glyphs only, 3 half parents + any
    pub mode: u8,
    /// one draw per requested glyph besides glyph 0
    pub picks: Vec<u32>,
}

#[derive(Clone, Debug)]
pub struct FixtureCase {
    pub font: u32,
    pub list: ListSpec,
    pub api: Api,
    /// re-wrap a bare sfnt fixture as WOFF 1.0 with my own encoder
    pub rewrap: bool,
}

#[derive(Clone, Debug)]
pub struct GenCffCase {
    pub model: CffModel,
    pub list: ListSpec,
    pub api: Api,
    pub rewrap: bool,
}

#[derive(Clone, Debug)]
pub struct GenCase {
    pub model: TtModel,
    pub list: ListSpec,
    pub api: Api,
    pub rewrap: bool,
}

fn api_strategy() -> impl Strategy<Value = Api> {
    prop_oneof![
        4 => Just(Api::Plain),
        4 => (0u8..4, any::<bool>()).prop_map(|(target, cid)| Api::Prince { target, cid }),
    ]
}

fn list_strategy(big: bool) -> impl Strategy<Value = ListSpec> {
    let size = if big {
        prop_oneof![40 => 1usize..=12, 3 => 250usize..=300, 2 => 254usize..=258, 2 => 598usize..=602].boxed()
    } else {
        // generated fonts: small lists, or most of the font (the draw is capped by the font)
        prop_oneof![20 => 1usize..=12, 1 => 250usize..=300, 1 => 254usize..=258].boxed()
    };
    (size, 0u8..3, prop_oneof![3 => Just(0u8), 2 => Just(1u8), 2 => Just(2u8), 2 => Just(3u8)])
        .prop_flat_map(|(n, order, mode)| {
            (prop::collection::vec(any::<u32>(), n - 1), Just(order), Just(mode))
        })
        .prop_map(|(picks, order, mode)| ListSpec { order, mode, picks })
}

/// `[0] ++` distinct ids drawn from the pools selected by `spec.mode`.
fn build_list(num_glyphs: u16, composites: &[u16], components: &[u16], spec: &ListSpec) -> Vec<u16> {
    let any: Vec<u16> = (1..num_glyphs).collect();
    let parents: Vec<u16> = composites.iter().copied().filter(|g| *g != 0).collect();
    let comps: Vec<u16> = components.iter().copied().filter(|g| *g != 0).collect();
    let want = spec.picks.len().min(any.len());
    let mut chosen: Vec<u16> = Vec::with_capacity(want + 1);
    let mut taken: BTreeSet<u16> = BTreeSet::new();
    let draw_from = |pool: &[u16], count: usize, picks: &[u32], chosen: &mut Vec<u16>, taken: &mut BTreeSet<u16>| {
        let mut pool: Vec<u16> = pool.iter().copied().filter(|g| !taken.contains(g)).collect();
        for r in picks.iter().take(count) {
            if pool.is_empty() {
                break;
            }
            let g = pool.swap_remove(pick(pool.len(), *r));
            taken.insert(g);
            chosen.push(g);
        }
    };
    match spec.mode {
        1 if !parents.is_empty() => draw_from(&parents, want, &spec.picks, &mut chosen, &mut taken),
        2 if !comps.is_empty() => draw_from(&comps, want, &spec.picks, &mut chosen, &mut taken),
        3 if !parents.is_empty() => {
            let half = (want + 1) / 2;
            draw_from(&parents, half, &spec.picks, &mut chosen, &mut taken);
            let got = chosen.len();
            draw_from(&any, want - got, &spec.picks[got.min(spec.picks.len())..], &mut chosen, &mut taken);
        }
        _ => draw_from(&any, want, &spec.picks, &mut chosen, &mut taken),
    }
    match spec.order {
        0 => chosen.sort(),
        2 => {
            chosen.sort();
            chosen.reverse();
        }
        _ => {}
    }
    let mut list = vec![0u16];
    list.extend(chosen);
    list
}

// ------------------------------------------------------------------------------------------
// extended glyph lists (sections `lists` and `containers`): modes 4.. of `ListSpec::mode`

/// Extras of the two extension sections: container wrapping and source metric layout.
#[derive(Clone, Debug, Default)]
pub struct Extra {
    pub wrap: Option<WrapSpec>,
    /// TrueType sources: 1 = every lsb equals the glyph's xMin (what the WOFF2 hmtx transform
    /// needs). Generated CFF sources: 1 = numberOfHMetrics 1, 2 = numGlyphs - 1, 3 = half.
    pub metrics_sel: u8,
    /// generated CFF sources: re-encode the table with another charset format / Encoding /
    /// offset style (`fontgen::cffx`)
    pub cff_layout: Option<CffXLayout>,
}

fn extra_strategy(wrapped: bool) -> BoxedStrategy<Extra> {
    let m = prop_oneof![3 => Just(0u8), 2 => Just(1u8), 1 => Just(2u8), 1 => Just(3u8)];
    let l = prop::option::weighted(0.75, cffx::layout_strategy());
    if wrapped {
        (wrap_strategy(), m, l).prop_map(|(w, metrics_sel, cff_layout)| Extra { wrap: Some(w), metrics_sel, cff_layout }).boxed()
    } else {
        (m, l).prop_map(|(metrics_sel, cff_layout)| Extra { wrap: None, metrics_sel, cff_layout }).boxed()
    }
}

/// Lists of the extension sections: long lists up to 700 ids, and the modes
/// 4 tail of the font (always the last glyph; ids around and past numberOfHMetrics),
/// 5 only glyphs without outline, 6 composites interleaved with their components (as drawn),
/// 7 one glyph of every Font DICT in turn (CID-keyed generated fonts), 8 a run of consecutive ids.
fn list_strategy_x() -> impl Strategy<Value = ListSpec> {
    let size = prop_oneof![30 => 1usize..=12, 4 => 13usize..=60, 3 => 250usize..=700, 1 => 254usize..=258];
    let mode = prop_oneof![3 => Just(0u8), 1 => Just(1u8), 1 => Just(2u8), 1 => Just(3u8), 4 => Just(4u8), 2 => Just(5u8), 3 => Just(6u8), 2 => Just(7u8), 1 => Just(8u8)];
    (size, 0u8..3, mode)
        .prop_flat_map(|(n, order, mode)| (prop::collection::vec(any::<u32>(), n - 1), Just(order), Just(mode)))
        .prop_map(|(picks, order, mode)| ListSpec { order, mode, picks })
}

struct ListCtx<'a> {
    num_glyphs: u16,
    nhm: u16,
    composites: &'a [u16],
    components: &'a [u16],
    /// glyph ids (without 0) that draw nothing
    blank: &'a dyn Fn() -> Vec<u16>,
    comps_of: &'a dyn Fn(u16) -> Vec<u16>,
    /// partition of the glyph ids (Font DICTs)
    groups: &'a [Vec<u16>],
}

fn build_list_x(cx: &ListCtx<'_>, spec: &ListSpec) -> Vec<u16> {
    let n = cx.num_glyphs;
    let plain = |mode: u8| build_list(n, cx.composites, cx.components, &ListSpec { mode, ..spec.clone() });
    if spec.mode < 4 || n < 2 {
        return plain(spec.mode);
    }
    let want = spec.picks.len().min(n as usize - 1);
    let mut chosen: Vec<u16> = Vec::with_capacity(want);
    let mut taken: BTreeSet<u16> = BTreeSet::new();
    taken.insert(0);
    match spec.mode {
        4 => {
            let lo = if cx.nhm >= 2 && cx.nhm < n { cx.nhm - 1 } else { n.saturating_sub(16).max(1) };
            let mut pool: Vec<u16> = (lo.max(1)..n - 1).collect();
            if want > 0 {
                chosen.push(n - 1);
            }
            for r in spec.picks.iter().take(want.saturating_sub(1)) {
                if pool.is_empty() {
                    break;
                }
                chosen.push(pool.swap_remove(pick(pool.len(), *r)));
            }
        }
        5 => {
            let mut pool = (cx.blank)();
            if pool.is_empty() {
                return plain(0);
            }
            for r in spec.picks.iter().take(want) {
                if pool.is_empty() {
                    break;
                }
                chosen.push(pool.swap_remove(pick(pool.len(), *r)));
            }
        }
        6 => {
            let mut parents: Vec<u16> = cx.composites.iter().copied().filter(|g| *g != 0).collect();
            if parents.is_empty() {
                return plain(0);
            }
            for r in spec.picks.iter() {
                if chosen.len() >= want || parents.is_empty() {
                    break;
                }
                let p = parents.swap_remove(pick(parents.len(), *r));
                let cs: Vec<u16> = (cx.comps_of)(p).into_iter().filter(|c| *c < n).collect();
                let first = r & 1 == 1;
                if !first && taken.insert(p) {
                    chosen.push(p);
                }
                for c in cs {
                    if chosen.len() < want && taken.insert(c) {
                        chosen.push(c);
                    }
                }
                if first && chosen.len() < want && taken.insert(p) {
                    chosen.push(p);
                }
            }
            let mut list = vec![0u16];
            list.extend(chosen);
            return list;
        }
        7 => {
            if cx.groups.len() < 2 {
                return plain(0);
            }
            let mut pools: Vec<Vec<u16>> = cx.groups.iter().map(|g| g.iter().copied().filter(|x| *x != 0).collect()).collect();
            for (i, r) in spec.picks.iter().take(want).enumerate() {
                let k = (0..pools.len()).map(|d| (i + d) % pools.len()).find(|k| !pools[*k].is_empty());
                match k {
                    Some(k) => {
                        let at = pick(pools[k].len(), *r);
                        let g = pools[k].swap_remove(at);
                        chosen.push(g);
                    }
                    None => break,
                }
            }
        }
        _ => {
            let start = 1 + pick(n as usize - 1, spec.picks.first().copied().unwrap_or(0)) as u16;
            for k in 0..want as u16 {
                let g = start as u32 + k as u32;
                chosen.push(if g < n as u32 { g as u16 } else { (g - n as u32 + 1) as u16 });
            }
        }
    }
    match spec.order {
        0 => chosen.sort(),
        2 => {
            chosen.sort();
            chosen.reverse();
        }
        _ => {}
    }
    let mut list = vec![0u16];
    list.extend(chosen);
    list
}

fn list_of(src: &Source, groups: &[Vec<u16>], blank: &dyn Fn() -> Vec<u16>, spec: &ListSpec) -> Vec<u16> {
    let comps_of = |g: u16| src.tt.as_ref().and_then(|t| t.components_of(g).ok()).unwrap_or_default();
    build_list_x(
        &ListCtx {
            num_glyphs: src.num_glyphs,
            nhm: src.num_h_metrics,
            composites: &src.composites,
            components: &src.components,
            blank,
            comps_of: &comps_of,
            groups,
        },
        spec,
    )
}

/// blank glyphs of a TrueType source (independent reader)
fn tt_blank(src: &Source) -> Vec<u16> {
    match &src.tt {
        Some(tt) => (1..src.num_glyphs).filter(|g| tt.glyph(*g).map_or(false, |x| x.is_blank())).collect(),
        None => Vec::new(),
    }
}

/// Wrap a bare sfnt per `extra.wrap`; (bytes to subset, member index).
fn wrap_source(sfnt: &[u8], src: &Source, extra: &Extra, info: Option<&GlyphInfo>, rec: &mut Rec) -> Option<(Vec<u8>, usize)> {
    let spec = extra.wrap.as_ref()?;
    let (flavour, tables) = tables_of(sfnt)?;
    let own;
    let info = match (info, &src.tt) {
        (Some(i), _) => Some(i),
        (None, Some(tt)) if spec.kind == 1 || spec.kind == 2 => {
            own = glyph_info(tt);
            own.as_ref()
        }
        _ => None,
    };
    let w = wrap(flavour, &tables, spec, info);
    for c in &w.classes {
        rec.class(c);
    }
    Some((w.bytes, w.index))
}

// ------------------------------------------------------------------------------------------
// fixture catalogue and cache

#[derive(Clone, Debug)]
struct Entry {
    path: String,
    weight: u32,
    thorough_only: bool,
}

fn catalogue() -> &'static Vec<Entry> {
    static CAT: OnceLock<Vec<Entry>> = OnceLock::new();
    CAT.get_or_init(|| {
        let mut v = Vec::new();
        for path in fixtures::list("fonts", &["ttf", "otf", "woff", "woff2"], 4 << 20) {
            let len = std::fs::metadata(fixtures::tests_dir().join(&path)).map(|m| m.len()).unwrap_or(0);
            let name = path.rsplit('/').next().unwrap_or("");
            let special = [
                "SFNT-TTF-Composite.ttf",
                "SFNT-TTF-Composite.woff2",
                "OpenSans-Regular.ttf",
                "Klei.otf",
                "SourceCodePro-Regular.otf",
                "SourceSans3-Instance.256.otf",
                "SourceSans3.abc.otf",
                "test-font.ttf",
                "test-font.woff2",
            ]
            .contains(&name);
            let weight = if special {
                24
            } else if len < 16 << 10 {
                6
            } else if len < 128 << 10 {
                3
            } else {
                2
            };
            // the one big CID-keyed font: few cases in the quick tier, many in the thorough tier
            let big = len > 1 << 20;
            v.push(Entry {
                path,
                weight: if big { 5 } else { weight },
                thorough_only: false,
            });
            if big {
                v.push(Entry {
                    path: v.last().unwrap().path.clone(),
                    weight: 40,
                    thorough_only: true,
                });
            }
        }
        v
    })
}

fn choose_entry(r: u32, thorough: bool) -> Option<&'static Entry> {
    let cat = catalogue();
    let usable: Vec<&Entry> = cat.iter().filter(|e| thorough || !e.thorough_only).collect();
    let total: u32 = usable.iter().map(|e| e.weight).sum();
    if total == 0 {
        return None;
    }
    let mut x = pick(total as usize, r) as u32;
    for e in usable {
        if x < e.weight {
            return Some(e);
        }
        x -= e.weight;
    }
    None
}

#[derive(Clone, Copy, Debug, PartialEq)]
enum Kind {
    Tt,
    Cff,
    Cff2,
}

/// What the oracle knows about a source font. For a bare sfnt the tables are located with my
/// own directory reader; for WOFF/WOFF2 fixtures they are the tables the provider hands to
/// the subsetter (decoding those containers is C10/C11's subject).
struct Source {
    name: String,
    container: &'static str,
    kind: Kind,
    num_glyphs: u16,
    tt: Option<TtTables>,
    hmtx: Vec<u8>,
    num_h_metrics: u16,
    /// `CFF ` or `CFF2` table
    cff: Vec<u8>,
    composites: Vec<u16>,
    components: Vec<u16>,
}

impl Source {
    fn metric(&self, g: u16) -> Option<(u16, i16)> {
        if g >= self.num_glyphs {
            return None;
        }
        gl::hmtx_metric(&self.hmtx, self.num_h_metrics, g)
    }
}

fn container_of(bytes: &[u8]) -> &'static str {
    match bytes.get(0..4) {
        Some(b"wOFF") => "woff",
        Some(b"wOF2") => "woff2",
        Some(b"ttcf") => "ttc",
        _ => "sfnt",
    }
}

fn analyse(name: &str, bytes: &[u8]) -> Result<Source, String> {
    let container = container_of(bytes);
    let get: Box<dyn Fn(&[u8; 4]) -> Option<Vec<u8>>> = if container == "sfnt" {
        Box::new(|t: &[u8; 4]| find_table(bytes, t).map(|s| s.to_vec()))
    } else {
        let fd = ReadScope::new(bytes).read::<FontData<'_>>().map_err(|e| format!("container: {:?}", e))?;
        let prov = fd.table_provider(0).map_err(|e| format!("provider: {:?}", e))?;
        let mut m: BTreeMap<[u8; 4], Vec<u8>> = BTreeMap::new();
        for t in [b"head", b"maxp", b"hhea", b"hmtx", b"loca", b"glyf", b"CFF ", b"CFF2"] {
            if let Ok(Some(d)) = prov.table_data(u32::from_be_bytes(*t)) {
                m.insert(*t, d.into_owned());
            }
        }
        Box::new(move |t: &[u8; 4]| m.get(t).cloned())
    };
    let maxp = get(b"maxp").ok_or("no maxp")?;
    let hhea = get(b"hhea").ok_or("no hhea")?;
    let hmtx = get(b"hmtx").ok_or("no hmtx")?;
    let num_glyphs = gl::maxp_num_glyphs(&maxp).ok_or("short maxp")?;
    let num_h_metrics = gl::hhea_num_h_metrics(&hhea).ok_or("short hhea")?;
    let (kind, tt, cff) = if get(b"glyf").is_some() && get(b"loca").is_some() {
        (Kind::Tt, Some(TtTables::from_tables(&get)?), Vec::new())
    } else if let Some(c) = get(b"CFF ") {
        (Kind::Cff, None, c)
    } else if let Some(c) = get(b"CFF2") {
        (Kind::Cff2, None, c)
    } else {
        return Err("no glyf, CFF or CFF2 table".into());
    };
    let mut composites = Vec::new();
    let mut components: BTreeSet<u16> = BTreeSet::new();
    if let Some(tt) = &tt {
        for g in 0..num_glyphs {
            if let Ok(cs) = tt.components_of(g) {
                if !cs.is_empty() {
                    composites.push(g);
                    components.extend(cs.into_iter().filter(|c| *c < num_glyphs));
                }
            }
        }
    }
    Ok(Source {
        name: name.to_string(),
        container,
        kind,
        num_glyphs,
        tt,
        hmtx,
        num_h_metrics,
        cff,
        composites,
        components: components.into_iter().collect(),
    })
}

struct Loaded {
    bytes: Vec<u8>,
    source: Source,
    rewrapped: OnceLock<Option<Vec<u8>>>,
    /// glyph model for the WOFF2 glyf transform (extension sections)
    info: OnceLock<Option<GlyphInfo>>,
    blank: OnceLock<Vec<u16>>,
}

fn load(path: &str) -> Option<Arc<Loaded>> {
    static CACHE: OnceLock<Mutex<BTreeMap<String, Option<Arc<Loaded>>>>> = OnceLock::new();
    let cache = CACHE.get_or_init(|| Mutex::new(BTreeMap::new()));
    if let Some(hit) = cache.lock().unwrap_or_else(|e| e.into_inner()).get(path) {
        return hit.clone();
    }
    let loaded = fixtures::read(path).and_then(|bytes| {
        let source = analyse(path, &bytes).ok()?;
        Some(Arc::new(Loaded {
            bytes,
            source,
            rewrapped: OnceLock::new(),
            info: OnceLock::new(),
            blank: OnceLock::new(),
        }))
    });
    cache.lock().unwrap_or_else(|e| e.into_inner()).insert(path.to_string(), loaded.clone());
    loaded
}

// ------------------------------------------------------------------------------------------
// calling the subsetter

fn err_class(e: &SubsetError) -> String {
    match e {
        SubsetError::Parse(p) => format!("err:parse:{:?}", p).chars().take(40).collect(),
        SubsetError::Write(w) => format!("err:write:{:?}", w).chars().take(40).collect(),
        SubsetError::CFF(c) => format!("err:cff:{:?}", c).chars().take(40).collect(),
        SubsetError::NotDef => "err:notdef".into(),
        SubsetError::TooManyGlyphs => "err:too-many-glyphs".into(),
        SubsetError::InvalidFontCount => "err:invalid-font-count".into(),
    }
}

fn run_subset(font: &[u8], index: usize, list: &[u16], api: &Api) -> Result<Result<Vec<u8>, SubsetError>, String> {
    let fd = ReadScope::new(font).read::<FontData<'_>>().map_err(|e| format!("{:?}", e))?;
    let prov = fd.table_provider(index).map_err(|e| format!("{:?}", e))?;
    Ok(match api {
        Api::Plain => allsorts::subset::subset(&prov, list),
        Api::Prince { target, cid } => {
            let target = match target {
                0 => PrinceCmapTarget::Unrestricted,
                1 => PrinceCmapTarget::MacRoman,
                2 => PrinceCmapTarget::Omit,
                _ => {
                    let mut a = Box::new([0u8; 256]);
                    for (k, slot) in a.iter_mut().enumerate().skip(0x41) {
                        let id = k - 0x40;
                        if id < list.len() && id < 256 {
                            *slot = id as u8;
                        }
                    }
                    PrinceCmapTarget::MacRomanCmap(a)
                }
            };
            allsorts::subset::prince::subset(&prov, list, target, *cid)
        }
    })
}

// ------------------------------------------------------------------------------------------
// TrueType oracle

struct TtOutcome {
    new_to_old: Vec<u16>,
    nonblank: usize,
}

fn cmp_simple_or_blank(g: u16, k: usize, old: &GlyphLite, new: &GlyphLite) -> Result<(), Fail> {
    if old == new {
        return Ok(());
    }
    if old.is_blank() && new.is_blank() {
        // a zero-length record and a record without points draw the same (nothing)
        return Ok(());
    }
    Err(fail(
        "glyph-differs",
        format!(
            "new glyph {} differs from source glyph {}: source {} / subset {}",
            k,
            g,
            truncate(&format!("{:?}", old), 500),
            truncate(&format!("{:?}", new), 500)
        ),
    ))
}

/// Compare the subset `dst` with the source `src` for the requested `list`.
fn check_tt(src: &TtTables, src_metric: &dyn Fn(u16) -> Option<(u16, i16)>, list: &[u16], dst: &TtTables, rec: &mut Rec) -> Result<TtOutcome, Fail> {
    let closure = match src.closure(list) {
        Ok(c) => c,
        Err(e) => {
            // the source's composite graph is not readable: nothing can be demanded
            rec.class("tt:source-closure-unreadable");
            return Err(fail("skip", e));
        }
    };
    let in_list: BTreeSet<u16> = list.iter().copied().collect();
    let extra: BTreeSet<u16> = closure.difference(&in_list).copied().collect();
    let n_new = dst.num_glyphs as usize;
    if n_new != list.len() + extra.len() {
        return Err(fail(
            "num-glyphs",
            format!(
                "maxp.numGlyphs of the subset is {}, expected {} requested + {} pulled-in components {:?}",
                n_new,
                list.len(),
                extra.len(),
                extra.iter().take(20).collect::<Vec<_>>()
            ),
        ));
    }
    let mut new_to_old: Vec<Option<u16>> = vec![None; n_new];
    for (k, g) in list.iter().enumerate() {
        new_to_old[k] = Some(*g);
    }
    let mut queue: VecDeque<usize> = (0..list.len()).collect();
    let mut nonblank = 0usize;
    let (mut pulled_in, mut renumbered, mut src_unreadable) = (false, false, false);
    while let Some(k) = queue.pop_front() {
        let g = new_to_old[k].unwrap();
        let new = dst
            .glyph(k as u16)
            .map_err(|e| fail("subset-glyph-unreadable", format!("new glyph {} (source glyph {}): {}", k, g, e)))?;
        let old = match src.glyph(g) {
            Ok(o) => o,
            Err(e) => {
                // source record not decodable by the spec reader: demand nothing for this glyph
                src_unreadable = true;
                let _ = e;
                continue;
            }
        };
        if !old.is_blank() {
            nonblank += 1;
        }
        match (&old, &new) {
            (
                GlyphLite::Composite {
                    bbox: ob,
                    components: oc,
                    instructions: oi,
                },
                GlyphLite::Composite {
                    bbox: nb,
                    components: nc,
                    instructions: ni,
                },
            ) => {
                if ob != nb || oi != ni || oc.len() != nc.len() {
                    return Err(fail(
                        "composite-differs",
                        format!(
                            "new glyph {} vs source glyph {}: bbox {:?}/{:?}, {} / {} components, instructions {:?} / {:?}",
                            k,
                            g,
                            ob,
                            nb,
                            oc.len(),
                            nc.len(),
                            truncate(&format!("{:?}", oi), 100),
                            truncate(&format!("{:?}", ni), 100)
                        ),
                    ));
                }
                for (i, (o, n)) in oc.iter().zip(nc.iter()).enumerate() {
                    if o.flags != n.flags || o.args != n.args || o.transform != n.transform {
                        return Err(fail(
                            "component-record-differs",
                            format!("new glyph {} (source {}), component {}: source {:?} subset {:?}", k, g, i, o, n),
                        ));
                    }
                    let c_new = n.glyph as usize;
                    if c_new >= n_new {
                        return Err(fail(
                            "component-renumbering",
                            format!("new glyph {} (source {}), component {}: refers to glyph {} but the subset has {} glyphs", k, g, i, c_new, n_new),
                        ));
                    }
                    match new_to_old[c_new] {
                        Some(m) if m == o.glyph => {}
                        Some(m) => {
                            return Err(fail(
                                "component-renumbering",
                                format!(
                                    "new glyph {} (source {}), component {}: source refers to glyph {}, subset refers to new glyph {} which is source glyph {}",
                                    k, g, i, o.glyph, c_new, m
                                ),
                            ));
                        }
                        None => {
                            new_to_old[c_new] = Some(o.glyph);
                            queue.push_back(c_new);
                            pulled_in = true;
                        }
                    }
                    if o.glyph as usize != c_new {
                        renumbered = true;
                    }
                }
            }
            (GlyphLite::Composite { .. }, _) | (_, GlyphLite::Composite { .. }) => {
                return Err(fail(
                    "glyph-differs",
                    format!("new glyph {} vs source glyph {}: one is composite, the other is not", k, g),
                ));
            }
            _ => cmp_simple_or_blank(g, k, &old, &new)?,
        }
    }
    rec.class_if(pulled_in, "tt:component-pulled-in");
    rec.class_if(renumbered, "tt:component-renumbered");
    rec.class_if(src_unreadable, "tt:source-glyph-unreadable");
    // every appended id must be a distinct pulled-in component
    let mut seen_old: BTreeSet<u16> = BTreeSet::new();
    for (k, m) in new_to_old.iter().enumerate() {
        let g = m.ok_or_else(|| {
            fail(
                "unreferenced-extra-glyph",
                format!("new glyph {} is neither requested nor referenced by a retained composite", k),
            )
        })?;
        if !seen_old.insert(g) {
            return Err(fail("glyph-duplicated", format!("source glyph {} appears twice in the subset (second time as new glyph {})", g, k)));
        }
        if k >= list.len() && !extra.contains(&g) {
            return Err(fail("unexpected-extra-glyph", format!("new glyph {} = source glyph {} is not in the composite closure of the list", k, g)));
        }
    }
    let new_to_old: Vec<u16> = new_to_old.into_iter().map(|m| m.unwrap()).collect();
    // metrics
    for (k, g) in new_to_old.iter().enumerate() {
        let want = match src_metric(*g) {
            Some(m) => m,
            None => {
                rec.class("hmtx:source-unreadable");
                continue;
            }
        };
        let got = dst.metric(k as u16).ok_or_else(|| fail("hmtx-short", format!("hmtx of the subset has no entry for new glyph {}", k)))?;
        if got != want {
            return Err(fail(
                "hmtx",
                format!("new glyph {} (source glyph {}): (advance, lsb) = {:?}, source has {:?}", k, g, got, want),
            ));
        }
    }
    if new_to_old.len() > list.len() {
        match src.append_discovery_order(list) {
            Ok(o) if o == new_to_old => rec.class("tt:appended-in-discovery-order"),
            _ => rec.class("tt:appended-in-other-order"),
        }
    }
    Ok(TtOutcome { new_to_old, nonblank })
}

fn tables_of_sfnt(out: &[u8]) -> Result<TtTables, Fail> {
    TtTables::from_tables(|t| find_table(out, t).map(|s| s.to_vec())).map_err(|e| fail("output-unreadable", format!("subset output: {}", e)))
}

// ------------------------------------------------------------------------------------------
// CFF oracle: allsorts' own outline visitor on both sides, the independent Type 2 interpreter
// (refmodel::type2) on both sides, and - for generated fonts - the model path

/// What a generated source font knows about its glyphs.
struct CffHooks<'a> {
    /// (base glyph, accent glyph) of a seac glyph
    seac: &'a dyn Fn(u16) -> Option<(u16, u16)>,
    /// the path the model assigns to source glyph g (forward construction)
    expect: &'a dyn Fn(u16) -> Option<Vec<Cmd>>,
}

fn no_hooks() -> CffHooks<'static> {
    CffHooks {
        seac: &|_| None,
        expect: &|_| None,
    }
}

/// Operand-stack depths of a CFF2 glyph program (subroutines followed): the largest number of
/// operands any path/hint operator finds on the stack, and the number the *first*
/// stack-clearing operator finds. CFF2 allows 513 operands, Type 2 in CFF only 48 - and a CFF
/// charstring may need one more in front of its first operator (the width).
fn cff2_operand_depths(t2: &T2Font<'_>, gid: usize) -> Result<(usize, usize), String> {
    struct Scan<'a, 'b> {
        t2: &'a T2Font<'b>,
        lsubrs: &'a [&'b [u8]],
        stack: Vec<f64>,
        max: usize,
        first: Option<usize>,
        stems: usize,
        vsindex: usize,
        steps: u32,
    }
    impl<'a, 'b> Scan<'a, 'b> {
        fn op(&mut self) {
            self.max = self.max.max(self.stack.len());
            self.first.get_or_insert(self.stack.len());
            self.stack.clear();
        }
        fn run(&mut self, cs: &[u8], depth: u32) -> Result<(), String> {
            if depth > 10 {
                return Err("nesting".into());
            }
            let mut i = 0;
            while i < cs.len() {
                self.steps += 1;
                if self.steps > 200_000 {
                    return Err("too long".into());
                }
                let b0 = cs[i];
                i += 1;
                match b0 {
                    28 => {
                        let s = cs.get(i..i + 2).ok_or("short")?;
                        self.stack.push(i16::from_be_bytes([s[0], s[1]]) as f64);
                        i += 2;
                    }
                    32..=246 => self.stack.push(b0 as f64 - 139.0),
                    247..=250 => {
                        let b1 = *cs.get(i).ok_or("short")? as f64;
                        self.stack.push((b0 as f64 - 247.0) * 256.0 + b1 + 108.0);
                        i += 1;
                    }
                    251..=254 => {
                        let b1 = *cs.get(i).ok_or("short")? as f64;
                        self.stack.push(-(b0 as f64 - 251.0) * 256.0 - b1 - 108.0);
                        i += 1;
                    }
                    255 => {
                        let s = cs.get(i..i + 4).ok_or("short")?;
                        self.stack.push(i32::from_be_bytes([s[0], s[1], s[2], s[3]]) as f64 / 65536.0);
                        i += 4;
                    }
                    10 | 29 => {
                        let subrs: &[&[u8]] = if b0 == 10 { self.lsubrs } else { &self.t2.gsubrs };
                        let bias = if subrs.len() < 1240 {
                            107
                        } else if subrs.len() < 33900 {
                            1131
                        } else {
                            32768
                        };
                        let n = self.stack.pop().ok_or("empty stack")? as i64 + bias;
                        let body = *subrs.get(usize::try_from(n).map_err(|_| "subr index")?).ok_or("subr index")?;
                        self.run(body, depth + 1)?;
                    }
                    15 => {
                        self.vsindex = self.stack.pop().ok_or("empty stack")? as usize;
                    }
                    16 => {
                        let n = self.stack.pop().ok_or("empty stack")? as usize;
                        let k = self.t2.vstore.as_ref().and_then(|v| v.data.get(self.vsindex)).map(|d| d.len()).ok_or("blend without regions")?;
                        let drop = n.checked_mul(k).ok_or("blend")?;
                        if self.stack.len() < drop + n {
                            return Err("blend underflow".into());
                        }
                        let keep = self.stack.len() - drop;
                        self.stack.truncate(keep);
                    }
                    1 | 3 | 18 | 23 => {
                        self.stems += self.stack.len() / 2;
                        self.op();
                    }
                    19 | 20 => {
                        self.stems += self.stack.len() / 2;
                        self.op();
                        i += (self.stems + 7) / 8;
                    }
                    12 => {
                        i += 1;
                        self.op();
                    }
                    _ => self.op(),
                }
            }
            Ok(())
        }
    }
    let cs = *t2.charstrings.get(gid).ok_or("glyph id")?;
    let fd = t2.fds.get(t2.fd_of(gid)).ok_or("font dict")?;
    let mut s = Scan {
        t2,
        lsubrs: &fd.lsubrs,
        stack: Vec::new(),
        max: 0,
        first: None,
        stems: 0,
        vsindex: fd.vsindex,
        steps: 0,
    };
    s.run(cs, 0)?;
    Ok((s.max, s.first.unwrap_or(0)))
}

fn render_cmds(c: &[Cmd]) -> String {
    truncate(&format!("{:?}", c), 600)
}


#[derive(Clone, Debug, PartialEq, Eq)]
enum Seg {
    M(u32, u32),
    L(u32, u32),
    Q([u32; 4]),
    C([u32; 6]),
    Z,
}

#[derive(Default)]
struct PathRec(Vec<Seg>);

impl OutlineSink for PathRec {
    fn move_to(&mut self, to: Vector2F) {
        self.0.push(Seg::M(to.x().to_bits(), to.y().to_bits()));
    }
    fn line_to(&mut self, to: Vector2F) {
        self.0.push(Seg::L(to.x().to_bits(), to.y().to_bits()));
    }
    fn quadratic_curve_to(&mut self, c: Vector2F, to: Vector2F) {
        self.0.push(Seg::Q([c.x().to_bits(), c.y().to_bits(), to.x().to_bits(), to.y().to_bits()]));
    }
    fn cubic_curve_to(&mut self, c: LineSegment2F, to: Vector2F) {
        self.0.push(Seg::C([
            c.from_x().to_bits(),
            c.from_y().to_bits(),
            c.to_x().to_bits(),
            c.to_y().to_bits(),
            to.x().to_bits(),
            to.y().to_bits(),
        ]));
    }
    fn close(&mut self) {
        self.0.push(Seg::Z);
    }
}

fn render(path: &[Seg]) -> String {
    let f = |b: &u32| f32::from_bits(*b);
    let mut s = String::new();
    for seg in path.iter().take(40) {
        match seg {
            Seg::M(x, y) => s.push_str(&format!("M{},{} ", f(x), f(y))),
            Seg::L(x, y) => s.push_str(&format!("L{},{} ", f(x), f(y))),
            Seg::Q(v) => s.push_str(&format!("Q{:?} ", v.iter().map(f).collect::<Vec<_>>())),
            Seg::C(v) => s.push_str(&format!("C{:?} ", v.iter().map(f).collect::<Vec<_>>())),
            Seg::Z => s.push_str("Z "),
        }
    }
    if path.len() > 40 {
        s.push_str(&format!("…({} segments)", path.len()));
    }
    s
}

type Paths = Vec<Result<Vec<Seg>, String>>;

/// Drop `close` calls that close nothing (no subpath open): allsorts' CFF2 visitor emits one
/// for a charstring without any path operator, its CFF visitor does not; neither draws anything.
fn normalise(path: Vec<Seg>) -> Vec<Seg> {
    let mut open = false;
    let mut out = Vec::with_capacity(path.len());
    for s in path {
        match s {
            Seg::Z => {
                if open {
                    out.push(Seg::Z);
                }
                open = false;
            }
            other => {
                open = true;
                out.push(other);
            }
        }
    }
    out
}

fn visit_all<B: OutlineBuilder>(b: &mut B, gids: impl Iterator<Item = u16>) -> Paths {
    gids.map(|g| {
        let mut p = PathRec::default();
        match b.visit(g, &mut p) {
            Ok(()) => Ok(normalise(p.0)),
            Err(e) => Err(format!("{}", e)),
        }
    })
    .collect()
}

struct CffOutInfo {
    num_glyphs: usize,
    cid: bool,
    has_gsubrs: bool,
    has_lsubrs: bool,
}

/// Paths of glyphs 0..n of the CFF table produced by the subsetter.
fn cff_out_paths(cff_bytes: &[u8], n: usize) -> Result<(Paths, CffOutInfo), Fail> {
    let mut cff = ReadScope::new(cff_bytes)
        .read::<CFF<'_>>()
        .map_err(|e| fail("output-unreadable", format!("CFF table of the subset does not parse: {:?}", e)))?;
    let font = cff.fonts.first().ok_or_else(|| fail("output-unreadable", "CFF table of the subset has no font".into()))?;
    let info = CffOutInfo {
        num_glyphs: font.char_strings_index.len(),
        cid: font.is_cid_keyed(),
        has_gsubrs: cff.global_subr_index.len() > 0,
        has_lsubrs: match &font.data {
            CFFVariant::CID(c) => c.local_subr_indices.iter().any(|i| i.is_some()),
            CFFVariant::Type1(t) => t.local_subr_index.is_some(),
        },
    };
    let paths = visit_all(&mut cff, (0..n.min(info.num_glyphs)).map(|k| k as u16));
    Ok((paths, info))
}

fn check_cff(src: &Source, list: &[u16], out: &[u8], api: &Api, hooks: &CffHooks<'_>, rec: &mut Rec) -> Result<usize, Fail> {
    let seac = hooks.seac;
    // source paths
    let mut src_cid = false;
    let mut fds: BTreeSet<u8> = BTreeSet::new();
    let src_paths: Paths = match src.kind {
        Kind::Cff => {
            let mut cff = match ReadScope::new(&src.cff).read::<CFF<'_>>() {
                Ok(c) => c,
                Err(e) => return Err(fail("skip", format!("source CFF: {:?}", e))),
            };
            if let Some(f) = cff.fonts.first() {
                src_cid = f.is_cid_keyed();
                if let CFFVariant::CID(c) = &f.data {
                    rec.class_if(c.font_dict_index.len() > 1, "cff:source-multi-fd");
                    for g in list {
                        if let Some(fd) = c.fd_select.font_dict_index(*g) {
                            fds.insert(fd);
                        }
                    }
                }
            }
            visit_all(&mut cff, list.iter().copied())
        }
        Kind::Cff2 => {
            let cff2 = match ReadScope::new(&src.cff).read::<CFF2<'_>>() {
                Ok(c) => c,
                Err(e) => return Err(fail("skip", format!("source CFF2: {:?}", e))),
            };
            rec.class_if(cff2.vstore.is_some(), "cff2:source-has-vstore");
            rec.class_if(cff2.fonts.len() > 1, "cff2:source-multi-fd");
            let mut o = CFF2Outlines {
                table: &cff2,
                tuple: None,
            };
            visit_all(&mut o, list.iter().copied())
        }
        Kind::Tt => unreachable!(),
    };
    rec.class_if(fds.len() > 1, "cff:list-spans-fds");

    // locate the CFF table of the output
    let bare = out.first() == Some(&1) && out.get(0..4) != Some(b"OTTO");
    let (cff_bytes, sfnt): (Vec<u8>, bool) = if out.get(0..4) == Some(b"OTTO") {
        (
            find_table(out, b"CFF ").ok_or_else(|| fail("output-unreadable", "OTTO output without CFF table".into()))?.to_vec(),
            true,
        )
    } else if bare {
        (out.to_vec(), false)
    } else {
        return Err(fail("output-unreadable", format!("output is neither OTTO nor a CFF table: {:02x?}", &out[..out.len().min(8)])));
    };
    rec.class(if sfnt { "cff:output-otf" } else { "cff:output-bare-cff" });
    if matches!(api, Api::Prince { .. }) && sfnt {
        // documented: prince::subset returns just the CFF table for CFF sources
        return Err(fail("prince-cff-not-bare", "prince::subset returned a complete font for a CFF source".into()));
    }
    let (out_paths, info) = cff_out_paths(&cff_bytes, list.len())?;
    if info.num_glyphs != list.len() {
        return Err(fail(
            "num-glyphs",
            format!("CharStrings INDEX of the subset has {} entries, {} glyphs were requested", info.num_glyphs, list.len()),
        ));
    }
    rec.class_if(info.has_gsubrs, "cff:global-subrs-retained");
    rec.class_if(info.has_lsubrs, "cff:local-subrs-retained");
    rec.class_if(src.kind == Kind::Cff && !src_cid && info.cid, "cff:type1-to-cid");
    rec.class_if(src.kind == Kind::Cff && !src_cid && !info.cid, "cff:type1-to-type1");
    rec.class_if(src_cid, "cff:cid-source");
    rec.class_if(src.kind == Kind::Cff2, if info.cid { "cff2:to-cid" } else { "cff2:to-type1" });

    let mut nonblank = 0;
    // Known limitation (see known_findings.json): the CFF subsetter does not retain the base and
    // accent glyphs a `seac` endchar refers to, and a Type1→CID conversion leaves `seac` codes
    // without meaning. A failure is attributed to it only for a seac glyph in exactly that
    // situation; it is reported after all other glyphs have been compared.
    let mut seac_failure: Option<Fail> = None;
    let seac_unsupported_only = |g: u16| match seac(g) {
        Some((b, a)) => info.cid || !list.contains(&b) || !list.contains(&a),
        None => false,
    };
    // Second known limitation: the CFF2->CFF conversion copies operand lists verbatim; CFF2 allows
    // 513 operands per operator, a Type 2 charstring in CFF 48 (including the width the
    // conversion puts in front of the first operator). Input class: CFF2 source glyphs in which an
    // operator finds more than 48 operands (or the first one exactly 48).
    let src_t2_for_depths = if src.kind == Kind::Cff2 { T2Font::parse_cff2(&src.cff).ok() } else { None };
    let over_48 = |g: u16| match &src_t2_for_depths {
        Some(t) => matches!(cff2_operand_depths(t, g as usize), Ok((max, first)) if max > 48 || first >= 48),
        None => false,
    };
    let known_sig = |g: u16| -> Option<&'static str> {
        if seac_unsupported_only(g) {
            Some("cff-seac-components-not-retained")
        } else if over_48(g) {
            Some("cff2-operand-list-over-48-not-split")
        } else {
            None
        }
    };
    let seac_unsupported = |g: u16| known_sig(g).is_some();
    for (k, g) in list.iter().enumerate() {
        match (&src_paths[k], &out_paths[k]) {
            (Ok(a), Ok(b)) => {
                if !a.is_empty() {
                    nonblank += 1;
                }
                if a != b {
                    let f = fail(
                        known_sig(*g).unwrap_or("cff-outline-differs"),
                        format!("new glyph {} (source glyph {}): source path {} / subset path {}", k, g, render(a), render(b)),
                    );
                    if seac_unsupported(*g) {
                        seac_failure.get_or_insert(f);
                    } else {
                        return Err(f);
                    }
                }
            }
            (Err(_), _) => {
                // the source glyph itself cannot be drawn: nothing to preserve
                rec.class("cff:source-glyph-undrawable");
            }
            (Ok(a), Err(e)) => {
                let f = fail(
                    known_sig(*g).unwrap_or("cff-outline-lost"),
                    format!("new glyph {} (source glyph {}) cannot be drawn: {}; source path {}", k, g, e, render(a)),
                );
                if seac_unsupported(*g) {
                    seac_failure.get_or_insert(f);
                } else {
                    return Err(f);
                }
            }
        }
    }

    // the same comparison through the independent Type 2 interpreter (refmodel::type2) on the
    // bytes of both fonts: a change that breaks both allsorts visits alike is still seen
    let src_t2 = match src.kind {
        Kind::Cff => T2Font::parse_cff(&src.cff),
        _ => T2Font::parse_cff2(&src.cff),
    };
    match src_t2 {
        Err(_) => rec.class("t2:source-unreadable"),
        Ok(src_t2) => {
            let out_t2 = T2Font::parse_cff(&cff_bytes)
                .map_err(|e| fail("cff-output-unreadable", format!("independent Type 2 reader on the subset's CFF table: {}", e)))?;
            // a variable CFF2 source is converted at its default location
            let zeros: Option<Vec<f64>> = src_t2.vstore.as_ref().map(|v| vec![0.0; v.axis_count]);
            let tol = if src.kind == Kind::Cff2 { 1e-9 } else { 0.0 };
            let mut compared = 0;
            let mut with_model = false;
            for (k, g) in list.iter().enumerate() {
                // a subset glyph allsorts itself cannot draw has been dealt with above (failure or
                // known finding); the reference interpreter has no nesting limit for seac, and a
                // subset whose seac codes resolve to the glyph itself would recurse without end
                if out_paths[k].is_err() || src_paths[k].is_err() {
                    continue;
                }
                let want = match src_t2.outline(*g as usize, zeros.as_deref(), &Deviations::default()) {
                    Ok(w) => w,
                    Err(_) => {
                        rec.class("t2:source-glyph-uninterpretable");
                        continue;
                    }
                };
                let attributed = seac_unsupported(*g);
                let f = match out_t2.outline(k, None, &Deviations::default()) {
                    Err(e) => Some(fail(
                        known_sig(*g).unwrap_or("cff-t2-outline-lost"),
                        format!("new glyph {} (source glyph {}): the independent interpreter cannot draw the subset glyph: {}; source path {}", k, g, e, render_cmds(&want)),
                    )),
                    Ok(got) => {
                        let mut f = diff_commands(&got, &want, tol).map(|d| {
                            fail(
                                known_sig(*g).unwrap_or("cff-t2-outline-differs"),
                                format!("new glyph {} (source glyph {}), independent interpreter: {}; source path {} / subset path {}", k, g, d, render_cmds(&want), render_cmds(&got)),
                            )
                        });
                        if f.is_none() {
                            if let Some(model) = (hooks.expect)(*g) {
                                f = diff_commands(&got, &model, 1e-6).map(|d| {
                                    fail(
                                        known_sig(*g).unwrap_or("cff-outline-differs-from-model"),
                                        format!("new glyph {} (model glyph {}): {}; model path {} / subset path {}", k, g, d, render_cmds(&model), render_cmds(&got)),
                                    )
                                });
                                with_model = true;
                            }
                        }
                        f
                    }
                };
                match f {
                    Some(f) if attributed => {
                        seac_failure.get_or_insert(f);
                    }
                    Some(f) => return Err(f),
                    None => compared += 1,
                }
            }
            rec.class_if(compared > 0, "t2:independent-interpreter-compared");
            rec.class_if(with_model, "t2:compared-with-model-path");
        }
    }

    // advance widths declared by the charstrings, read by the independent CFF reader
    let out_lite = gl::cff_width::CffLite::parse(&cff_bytes)
        .map_err(|e| fail("cff-output-unreadable", format!("independent CFF reader on the subset's CFF table: {}", e)))?;
    if out_lite.char_strings.len() != list.len() {
        return Err(fail(
            "num-glyphs",
            format!("CharStrings INDEX of the subset has {} entries (independent reader), {} glyphs were requested", out_lite.char_strings.len(), list.len()),
        ));
    }
    let src_lite = if src.kind == Kind::Cff { gl::cff_width::CffLite::parse(&src.cff).ok() } else { None };
    let mut widths_checked = 0;
    for (k, g) in list.iter().enumerate() {
        let want: f64 = match (&src_lite, src.kind) {
            (Some(sl), _) => match sl.width(*g) {
                Ok(w) => w,
                Err(_) => {
                    rec.class("cff:source-width-unmodelled");
                    continue;
                }
            },
            (None, Kind::Cff2) => match src.metric(*g) {
                Some(m) => m.0 as f64,
                None => continue,
            },
            _ => {
                rec.class("cff:source-unreadable-by-independent-reader");
                break;
            }
        };
        if src_paths[k].is_err() {
            continue;
        }
        match out_lite.width(k as u16) {
            Ok(w) if (w - want).abs() <= 1e-3 => widths_checked += 1,
            Ok(w) => {
                return Err(fail(
                    if src.kind == Kind::Cff2 { "cff2-width" } else { "cff-width" },
                    format!(
                        "new glyph {} (source glyph {}): the charstring declares advance width {}, the source {} says {}",
                        k,
                        g,
                        w,
                        if src.kind == Kind::Cff2 { "hmtx" } else { "charstring" },
                        want
                    ),
                ));
            }
            Err(e) => {
                return Err(fail("cff-width-lost", format!("new glyph {} (source glyph {}): width not readable from the subset charstring: {}", k, g, e)));
            }
        }
    }
    rec.class_if(widths_checked > 0, "cff:charstring-widths-compared");

    if sfnt {
        let maxp = find_table(out, b"maxp").ok_or_else(|| fail("output-unreadable", "no maxp".into()))?;
        let hhea = find_table(out, b"hhea").ok_or_else(|| fail("output-unreadable", "no hhea".into()))?;
        let hmtx = find_table(out, b"hmtx").ok_or_else(|| fail("output-unreadable", "no hmtx".into()))?;
        let n = gl::maxp_num_glyphs(maxp).ok_or_else(|| fail("output-unreadable", "short maxp".into()))?;
        let nhm = gl::hhea_num_h_metrics(hhea).ok_or_else(|| fail("output-unreadable", "short hhea".into()))?;
        if n as usize != list.len() {
            return Err(fail("num-glyphs", format!("maxp.numGlyphs of the subset is {}, {} glyphs were requested", n, list.len())));
        }
        for (k, g) in list.iter().enumerate() {
            let want = match src.metric(*g) {
                Some(m) => m,
                None => {
                    rec.class("hmtx:source-unreadable");
                    continue;
                }
            };
            let got = gl::hmtx_metric(hmtx, nhm, k as u16).ok_or_else(|| fail("hmtx-short", format!("hmtx of the subset has no entry for new glyph {}", k)))?;
            if got != want {
                return Err(fail(
                    "hmtx",
                    format!("new glyph {} (source glyph {}): (advance, lsb) = {:?}, source has {:?}", k, g, got, want),
                ));
            }
        }
    }
    if let Some(f) = seac_failure {
        return Err(f);
    }
    Ok(nonblank)
}

// ------------------------------------------------------------------------------------------
// cases

fn classify_common(rec: &mut Rec, src: &Source, list: &[u16], api: &Api, spec: &ListSpec) {
    rec.class(match src.kind {
        Kind::Tt => "kind:truetype",
        Kind::Cff => "kind:cff",
        Kind::Cff2 => "kind:cff2",
    });
    rec.class(match api {
        Api::Plain => "api:subset",
        Api::Prince { target: 0, .. } => "api:prince-unrestricted",
        Api::Prince { target: 1, .. } => "api:prince-macroman",
        Api::Prince { target: 2, .. } => "api:prince-omit",
        Api::Prince { .. } => "api:prince-supplied-cmap",
    });
    if let Api::Prince { cid, .. } = api {
        rec.class(if *cid { "api:cid-switch-on" } else { "api:cid-switch-off" });
    }
    rec.class(match list.len() {
        1 => "list:len=1",
        2..=12 => "list:len=2..12",
        13..=255 => "list:len=13..255",
        256 => "list:len=256",
        257..=599 => "list:len=257..599",
        _ => "list:len>=600",
    });
    rec.class(match spec.order {
        0 => "list:ascending",
        2 => "list:descending",
        _ => "list:shuffled",
    });
    rec.class_if(list.iter().any(|g| *g >= src.num_h_metrics), "hmtx:id>=numberOfHMetrics");
    rec.class_if(src.num_h_metrics < src.num_glyphs, "hmtx:source-nhm<numGlyphs");
    if src.kind == Kind::Tt {
        let comps: BTreeSet<u16> = src.components.iter().copied().collect();
        let parents: BTreeSet<u16> = src.composites.iter().copied().collect();
        let l: BTreeSet<u16> = list.iter().copied().collect();
        let has_parent = l.iter().any(|g| parents.contains(g));
        let has_comp = l.iter().any(|g| comps.contains(g));
        rec.class_if(has_parent, "list:has-composite-parent");
        rec.class_if(has_comp && !has_parent, "list:components-without-parents");
    }
}

/// Shared tail of both sections: run the subsetter on `font_bytes` and compare with `src`.
fn subset_and_compare(font_bytes: &[u8], index: usize, bare: Option<&[u8]>, src: &Source, list: &[u16], api: &Api, spec: &ListSpec, hooks: &CffHooks<'_>, rec: &mut Rec) -> Result<Option<(Vec<u16>, Vec<u8>)>, Fail> {
    classify_common(rec, src, list, api, spec);
    rec.class(match container_of(font_bytes) {
        "woff" => "container:woff",
        "woff2" => "container:woff2",
        "ttc" => "container:ttc",
        _ => "container:sfnt",
    });
    let out = match run_subset(font_bytes, index, list, api) {
        Err(e) => {
            rec.class("container-unreadable");
            if bare.is_some() {
                return Err(fail("container-only-subset-error", format!("the {} container written by the harness (member {}) cannot be opened: {}", container_of(font_bytes), index, e)));
            }
            return Ok(None);
        }
        Ok(Err(e)) => {
            // "a successful subset ...": failures are outside the statement; count them
            rec.class(&err_class(&e));
            if container_of(font_bytes) != "sfnt" {
                rec.class(&format!("{}@{}", err_class(&e), container_of(font_bytes)));
            }
            // extension sections: the font was wrapped by the harness's own (conformant) encoder.
            // The same tables, list and options must not fail only because of the container
            // ("... whether read from OpenType, WOFF or WOFF2").
            if let Some(bare) = bare {
                if let Ok(Ok(_)) = run_subset(bare, 0, list, api) {
                    return Err(fail(
                        "container-only-subset-error",
                        format!("subsetting through the {} container (member {}) fails with {:?}; the same font as a bare sfnt subsets fine", container_of(font_bytes), index, e),
                    ));
                }
                rec.class("wrap:subset-err-also-as-bare-sfnt");
            }
            return Ok(None);
        }
        Ok(Ok(out)) => out,
    };
    rec.artefact("subset", &out[..out.len().min(200_000)]);
    match src.kind {
        Kind::Tt => {
            let dst = tables_of_sfnt(&out)?;
            if parse_directory(&out).map(|d| d.0) != Some(0x0001_0000) {
                return Err(fail("output-unreadable", "TrueType subset without sfnt version 1.0".into()));
            }
            let tt = src.tt.as_ref().unwrap();
            match check_tt(tt, &|g| src.metric(g), list, &dst, rec) {
                Ok(o) => {
                    rec.class_if(o.new_to_old.len() > 255, "out:glyphs>255");
                    rec.set_nontrivial(o.new_to_old.len() >= 2 && o.nonblank >= 1);
                    Ok(Some((o.new_to_old, out)))
                }
                Err(f) if f.sig == "C07:skip" => Ok(None),
                Err(f) => Err(f),
            }
        }
        Kind::Cff | Kind::Cff2 => match check_cff(src, list, &out, api, hooks, rec) {
            Ok(nonblank) => {
                rec.class_if(list.len() > 255, "out:glyphs>255");
                rec.set_nontrivial(list.len() >= 2 && nonblank >= 1);
                Ok(Some((list.to_vec(), out)))
            }
            Err(f) if f.sig == "C07:skip" => {
                rec.class("cff:source-unreadable");
                Ok(None)
            }
            Err(f) => Err(f),
        },
    }
}

fn check_fixture(c: &FixtureCase, thorough: bool, rec: &mut Rec) -> CaseResult {
    check_fixture_x(c, thorough, &Extra::default(), false, rec)
}

fn check_fixture_x(c: &FixtureCase, thorough: bool, extra: &Extra, cid_fixture: bool, rec: &mut Rec) -> CaseResult {
    let chosen = if cid_fixture {
        // the CID-keyed fixture (the one font above 1 MiB), at a low count also in the quick tier
        catalogue().iter().find(|e| e.thorough_only).or_else(|| choose_entry(c.font, thorough))
    } else if extra.wrap.is_some() {
        // wrapping re-encodes the whole font per case: small and medium fixtures in bare sfnt form only
        let cat = catalogue();
        let usable: Vec<&Entry> = cat.iter().filter(|e| !e.thorough_only && e.weight >= 3 && !e.path.ends_with(".woff") && !e.path.ends_with(".woff2")).collect();
        if usable.is_empty() {
            None
        } else {
            Some(usable[pick(usable.len(), c.font)])
        }
    } else {
        choose_entry(c.font, thorough)
    };
    let entry = match chosen {
        Some(e) => e,
        None => {
            rec.class("no-fixtures");
            return Ok(());
        }
    };
    let loaded = match load(&entry.path) {
        Some(l) => l,
        None => {
            rec.class("fixture-unusable");
            return Ok(());
        }
    };
    let src = &loaded.source;
    let blank = || loaded.blank.get_or_init(|| tt_blank(src)).clone();
    let list = list_of(src, &[], &blank, &c.list);
    rec.class_if(cid_fixture, "fixture:cid-keyed-forced");
    let wrapped = if src.container == "sfnt" && loaded.bytes.len() <= 320 << 10 {
        let info = if src.kind == Kind::Tt && extra.wrap.as_ref().map_or(false, |w| w.kind == 1 || w.kind == 2) {
            loaded.info.get_or_init(|| src.tt.as_ref().and_then(glyph_info)).as_ref()
        } else {
            None
        };
        rec.class_if(extra.wrap.is_some() && src.kind == Kind::Tt && info.is_none() && extra.wrap.as_ref().map_or(false, |w| (w.kind == 1 || w.kind == 2) && w.xform_glyf), "wrap:fixture-not-expressible");
        // a fixture whose glyph model is unavailable is wrapped with the null transform
        let x = Extra { wrap: extra.wrap.clone().map(|mut w| { if info.is_none() { w.xform_glyf = false; } w }), ..extra.clone() };
        wrap_source(&loaded.bytes, src, &x, info, rec)
    } else {
        None
    };
    let index = wrapped.as_ref().map_or(0, |w| w.1);
    let rewrap = wrapped.is_none() && c.rewrap && src.container == "sfnt" && loaded.bytes.len() <= 700 << 10;
    let font_bytes: &[u8] = if let Some(w) = &wrapped {
        &w.0
    } else if rewrap {
        match loaded.rewrapped.get_or_init(|| woff1_wrap(&loaded.bytes)) {
            Some(w) => w,
            None => &loaded.bytes,
        }
    } else {
        &loaded.bytes
    };
    rec.class_if(rewrap, "container:rewrapped-by-fontgen");
    rec.hash_bytes(src.name.as_bytes());
    rec.hash_bytes(&[rewrap as u8]);
    rec.hash_bytes(format!("{:?}{:?}", c.api, list).as_bytes());
    if let Some(w) = &extra.wrap {
        rec.hash_bytes(format!("{:?}", w).as_bytes());
    }
    rec.sample(|| format!("{} ({}) api={:?} list={}", src.name, container_of(font_bytes), c.api, truncate(&format!("{:?}", list), 200)));
    rec.artefact("glyph-ids", format!("{} {:?}", src.name, list).as_bytes());
    subset_and_compare(font_bytes, index, wrapped.as_ref().map(|_| &loaded.bytes[..]), src, &list, &c.api, &c.list, &no_hooks(), rec).map(|_| ())
}

fn model_to_lite(g: &GlyphModel) -> GlyphLite {
    match g {
        GlyphModel::Empty => GlyphLite::Empty,
        GlyphModel::Simple(s) => {
            let s: &SimpleGlyph = s;
            GlyphLite::Simple {
                bbox: s.bbox(),
                contours: s
                    .contours
                    .iter()
                    .filter(|c| !c.is_empty())
                    .map(|c| c.iter().map(|p| (p.0 as i32, p.1 as i32, p.2)).collect())
                    .collect(),
                instructions: s.instructions.clone(),
            }
        }
        GlyphModel::Composite {
            bbox,
            comps,
            instructions,
        } => GlyphLite::Composite {
            bbox: *bbox,
            components: comps
                .iter()
                .map(|c| Component {
                    glyph: c.glyph,
                    flags: c.flags,
                    args: match c.args {
                        ArgsModel::Xy(x, y) => Args::Xy(x, y),
                        ArgsModel::Points(p, q) => Args::Points(p, q),
                    },
                    transform: match c.transform {
                        TransformModel::None => Transform::None,
                        TransformModel::Scale(s) => Transform::Scale(s),
                        TransformModel::XY(x, y) => Transform::XY(x, y),
                        TransformModel::Matrix(m) => Transform::Matrix(m),
                    },
                })
                .collect(),
            instructions: instructions.clone().unwrap_or_default(),
        },
    }
}

fn check_generated(c: &GenCase, rec: &mut Rec) -> CaseResult {
    check_generated_x(c, &Extra::default(), rec)
}

fn check_generated_x(c: &GenCase, extra: &Extra, rec: &mut Rec) -> CaseResult {
    let adjusted;
    let m = if extra.metrics_sel == 1 {
        // every left side bearing equals the glyph's xMin (the precondition of the WOFF2 hmtx transform)
        let mut x = c.model.clone();
        for (g, metric) in x.glyphs.iter().zip(x.metrics.iter_mut()) {
            metric.1 = match g {
                GlyphModel::Empty => 0,
                GlyphModel::Simple(s) => s.bbox().0,
                GlyphModel::Composite { bbox, .. } => bbox.0,
            };
        }
        rec.class("gen:lsb=xMin");
        adjusted = x;
        &adjusted
    } else {
        &c.model
    };
    let sfnt = m.build();
    let src = analyse("generated", &sfnt).expect("generated font must be readable by the harness's own readers");
    let tt = src.tt.as_ref().expect("generated font is TrueType");
    // forward construction: my reader must give back the model on the source font
    for g in 0..src.num_glyphs {
        let got = tt.glyph(g).expect("generated glyph must parse");
        assert_eq!(got, model_to_lite(&m.glyphs[g as usize]), "glyph {} of the generated font does not read back", g);
        assert_eq!(src.metric(g), Some(m.metric(g)), "metric {} of the generated font does not read back", g);
    }
    let list = list_of(&src, &[], &|| tt_blank(&src), &c.list);
    let wrapped;
    let by_spec = wrap_source(&sfnt, &src, extra, None, rec);
    let index = by_spec.as_ref().map_or(0, |w| w.1);
    let font_bytes: &[u8] = if let Some(w) = &by_spec {
        &w.0
    } else if c.rewrap {
        wrapped = woff1_wrap(&sfnt).expect("woff wrapper");
        &wrapped
    } else {
        &sfnt
    };
    rec.class_if(c.rewrap && by_spec.is_none(), "container:rewrapped-by-fontgen");
    rec.artefact("font", font_bytes);
    rec.artefact("glyph-ids", format!("{:?}", list).as_bytes());
    rec.hash_bytes(&sfnt);
    rec.hash_bytes(format!("{:?}{:?}{}{:?}", c.api, list, c.rewrap, extra.wrap).as_bytes());
    rec.sample(|| {
        format!(
            "generated {} glyphs (nhm {}, {} composites) api={:?} list={}",
            src.num_glyphs,
            src.num_h_metrics,
            src.composites.len(),
            c.api,
            truncate(&format!("{:?}", list), 200)
        )
    });
    let max_depth = list.iter().map(|g| m.depth(*g)).max().unwrap_or(0);
    rec.class(&format!("gen:depth={}", max_depth));
    rec.class_if(m.long_loca, "gen:long-loca");
    // shared component: some glyph is referenced by two different retained parents
    let mut refs: BTreeMap<u16, BTreeSet<u16>> = BTreeMap::new();
    if let Ok(cl) = tt.closure(&list) {
        for g in &cl {
            if let GlyphModel::Composite { comps, .. } = &m.glyphs[*g as usize] {
                for c in comps {
                    refs.entry(c.glyph).or_default().insert(*g);
                }
            }
        }
    }
    rec.class_if(refs.values().any(|p| p.len() > 1), "gen:shared-component");
    let in_list: BTreeSet<u16> = list.iter().copied().collect();
    rec.class_if(
        refs.iter().any(|(c, ps)| in_list.contains(c) && ps.iter().any(|p| in_list.contains(p) && list.iter().position(|x| x == c) < list.iter().position(|x| x == p))),
        "gen:component-listed-before-parent",
    );
    rec.class_if(
        refs.iter().any(|(c, ps)| in_list.contains(c) && ps.iter().any(|p| in_list.contains(p) && list.iter().position(|x| x == c) > list.iter().position(|x| x == p))),
        "gen:component-listed-after-parent",
    );
    let mapping = subset_and_compare(font_bytes, index, by_spec.as_ref().map(|_| &sfnt[..]), &src, &list, &c.api, &c.list, &no_hooks(), rec)?;
    if let Some((new_to_old, out)) = mapping {
        // and the subset against the model itself (not only old-vs-new through one reader)
        let dst = tables_of_sfnt(&out)?;
        for (k, g) in new_to_old.iter().enumerate() {
            let want = m.metric(*g);
            if dst.metric(k as u16) != Some(want) {
                return Err(fail("hmtx", format!("new glyph {} (model glyph {}): {:?}, model says {:?}", k, g, dst.metric(k as u16), want)));
            }
            if let (GlyphModel::Simple(_), Ok(got)) = (&m.glyphs[*g as usize], dst.glyph(k as u16)) {
                if got != model_to_lite(&m.glyphs[*g as usize]) {
                    return Err(fail("glyph-differs", format!("new glyph {} differs from model glyph {}: {:?}", k, g, got)));
                }
            }
        }
    }
    Ok(())
}

fn check_generated_cff(c: &GenCffCase, rec: &mut Rec) -> CaseResult {
    check_generated_cff_x(c, &Extra::default(), rec)
}

fn check_generated_cff_x(c: &GenCffCase, extra: &Extra, rec: &mut Rec) -> CaseResult {
    let m = &c.model;
    let mut otf = m.build_otf();
    let ng = m.glyphs.len();
    // numberOfHMetrics of the OTTO wrapper: numGlyphs, or (extension sections) 1 / numGlyphs - 1 / half
    let nhm = match extra.metrics_sel {
        1 => 1,
        2 => ng.saturating_sub(1).max(1),
        3 => (ng / 2).max(1),
        _ => ng,
    };
    if nhm != ng || extra.cff_layout.is_some() {
        use crate::fontgen::basic;
        let (flavour, mut tables) = tables_of(&otf).expect("generated OTTO font");
        if let Some(l) = &extra.cff_layout {
            let (table, classes) = cffx::recode(m, l);
            for c in classes {
                rec.class(c);
            }
            tables.iter_mut().find(|t| &t.0 == b"CFF ").expect("CFF table").1 = table;
        }
        let metrics: Vec<(u16, i16)> = m.glyphs.iter().map(|g| (g.width, g.lsb)).collect();
        let adv_max = metrics.iter().map(|x| x.0).max().unwrap_or(0);
        for t in tables.iter_mut() {
            if &t.0 == b"hmtx" {
                t.1 = basic::hmtx(&metrics, nhm as u16);
            } else if &t.0 == b"hhea" {
                t.1 = basic::hhea(800, -200, adv_max, nhm as u16);
            }
        }
        otf = crate::fontgen::sfnt::build_sfnt(flavour, &tables);
        rec.class_if(nhm != ng, if nhm == 1 { "gencff:nhm=1" } else { "gencff:1<nhm<numGlyphs" });
    }
    let src = analyse("generated-cff", &otf).expect("generated CFF font must be readable by the harness's own readers");
    // forward construction: the independent width reader must give back the model
    let lite = gl::cff_width::CffLite::parse(&src.cff).expect("generated CFF table must parse");
    assert_eq!(lite.char_strings.len(), m.glyphs.len());
    for (g, gm) in m.glyphs.iter().enumerate() {
        assert_eq!(lite.width(g as u16), Ok(gm.width as f64), "width of generated glyph {}", g);
        // hmtx rule: glyphs at/after numberOfHMetrics take the advance of the last long metric
        let adv = if g < nhm { gm.width } else { m.glyphs[nhm - 1].width };
        assert_eq!(src.metric(g as u16), Some((adv, gm.lsb)));
    }
    let groups: Vec<Vec<u16>> = (0..m.fds.len()).map(|fd| (0..ng as u16).filter(|g| m.glyphs[*g as usize].fd as usize == fd).collect()).collect();
    let blank = || (1..ng as u16).filter(|g| m.glyphs[*g as usize].start.is_none() && m.glyphs[*g as usize].seac.is_none()).collect::<Vec<u16>>();
    let list = list_of(&src, &groups, &blank, &c.list);
    let wrapped;
    let by_spec = wrap_source(&otf, &src, extra, None, rec);
    let index = by_spec.as_ref().map_or(0, |w| w.1);
    let font_bytes: &[u8] = if let Some(w) = &by_spec {
        &w.0
    } else if c.rewrap {
        wrapped = woff1_wrap(&otf).expect("woff wrapper");
        &wrapped
    } else {
        &otf
    };
    rec.class_if(c.rewrap && by_spec.is_none(), "container:rewrapped-by-fontgen");
    rec.class_if(m.cid && fds_all(&list, m), "gencff:list-has-every-fd");
    rec.artefact("font", font_bytes);
    rec.artefact("glyph-ids", format!("{:?}", list).as_bytes());
    rec.hash_bytes(&otf);
    rec.hash_bytes(format!("{:?}{:?}{}{:?}", c.api, list, c.rewrap, extra.wrap).as_bytes());
    rec.sample(|| {
        format!(
            "generated CFF {} glyphs cid={} gsubrs={} lsubrs={:?} api={:?} list={}",
            m.glyphs.len(),
            m.cid,
            m.n_gsubrs,
            m.fds.iter().map(|f| f.n_lsubrs).collect::<Vec<_>>(),
            c.api,
            truncate(&format!("{:?}", list), 200)
        )
    });
    // classes: which subroutine INDEX sizes are in play for the retained glyphs
    let bias_class = |n: usize| match n {
        0 => "none",
        1..=1239 => "bias107",
        1240..=33899 => "bias1131",
        _ => "bias32768",
    };
    let mut uses_l = BTreeSet::new();
    let mut uses_g = false;
    let mut nested = false;
    let mut fds_used = BTreeSet::new();
    for g in &list {
        let gm = &m.glyphs[*g as usize];
        fds_used.insert(gm.fd);
        if gm.start.is_some() {
            for s in &gm.segs {
                match s {
                    cffgen::Seg::Local(k) => {
                        uses_l.insert(bias_class(m.fds[gm.fd as usize].n_lsubrs));
                        if cffgen::nested_global(*k, m.n_gsubrs).is_some() {
                            nested = true;
                        }
                    }
                    cffgen::Seg::Global(_) => uses_g = true,
                    _ => {}
                }
            }
        }
    }
    for b in uses_l {
        rec.class(&format!("gencff:local-subr-used:{}", b));
    }
    rec.class_if(uses_g, &format!("gencff:global-subr-used:{}", bias_class(m.n_gsubrs)));
    rec.class_if(nested, "gencff:nested-subr-call");
    rec.class(if m.cid { "gencff:cid-keyed" } else { "gencff:name-keyed" });
    rec.class_if(m.cid && m.fds.len() > 1, "gencff:multi-fd");
    rec.class_if(fds_used.len() > 1, "gencff:list-spans-fds");
    // sanity of the builder (not asserted, only counted): allsorts draws the model's path
    if let Ok(mut cff) = ReadScope::new(&src.cff).read::<CFF<'_>>() {
        let probe: Vec<u16> = list.iter().copied().take(8).collect();
        let paths = visit_all(&mut cff, probe.iter().copied());
        let agree = probe.iter().zip(paths.iter()).all(|(g, p)| match p {
            Ok(p) => {
                let want: Vec<(char, Vec<i32>)> = m.path(&m.glyphs[*g as usize]).into_iter().filter(|s| s.0 != 'Z').collect();
                let got: Vec<(char, Vec<i32>)> = p
                    .iter()
                    .filter_map(|s| match s {
                        Seg::M(x, y) => Some(('M', vec![f32::from_bits(*x) as i32, f32::from_bits(*y) as i32])),
                        Seg::L(x, y) => Some(('L', vec![f32::from_bits(*x) as i32, f32::from_bits(*y) as i32])),
                        Seg::C(v) => Some(('C', v.iter().map(|b| f32::from_bits(*b) as i32).collect())),
                        Seg::Q(v) => Some(('Q', v.iter().map(|b| f32::from_bits(*b) as i32).collect())),
                        Seg::Z => None,
                    })
                    .collect();
                want == got
            }
            Err(_) => false,
        });
        rec.class(if agree { "gencff:source-path=model" } else { "gencff:source-path!=model" });
    }
    rec.class_if(list.iter().any(|g| m.glyphs[*g as usize].seac.is_some()), "gencff:seac-glyph-retained");
    let seac = |g: u16| m.glyphs.get(g as usize).and_then(|gm| gm.seac).map(|s| (s.2, s.3));
    subset_and_compare(font_bytes, index, by_spec.as_ref().map(|_| &otf[..]), &src, &list, &c.api, &c.list, &CffHooks { seac: &seac, expect: &|_| None }, rec).map(|_| ())
}

fn fds_all(list: &[u16], m: &CffModel) -> bool {
    let used: BTreeSet<u8> = list.iter().map(|g| m.glyphs[*g as usize].fd).collect();
    m.fds.len() > 1 && used.len() == m.fds.len()
}

// ------------------------------------------------------------------------------------------
// fonts from the C18 generator (every operator form, hints/masks, nested subroutines at the
// bias bands, CFF2 static and variable) and seac fonts built from the same pieces

#[derive(Clone, Debug)]
pub struct SeacSpec {
    pub seed: u64,
    pub hints: bool,
    pub component_width: bool,
    pub seac_width: bool,
    /// 0: ISOAdobe (229 glyphs, glyph id = SID), 1: charset format 0, 2: format 1 (4 glyphs)
    pub charset: u8,
    pub free_forms: bool,
}

#[derive(Clone, Debug)]
pub enum C18Font {
    Gen(c18::Case),
    Seac(SeacSpec),
}

#[derive(Clone, Debug)]
pub struct C18Case {
    pub font: C18Font,
    pub list: ListSpec,
    pub api: Api,
    pub rewrap: bool,
    /// (advance, lsb) seeds and numberOfHMetrics selector for the OTTO wrapper
    pub metrics_seed: u32,
}

pub fn c18_case_strategy() -> impl Strategy<Value = c18::Case> {
    let a = (
        any::<u64>(),
        prop_oneof![4 => Just(c18::Kind::NameKeyed), 3 => Just(c18::Kind::Cid), 3 => Just(c18::Kind::Cff2)],
        prop_oneof![12 => 2usize..=8, 1 => 257usize..=300],
        prop_oneof![3 => Just(0u8), 2 => Just(1u8), 1 => Just(2u8), 2 => Just(3u8)],
        prop::bool::weighted(0.6),
        prop::bool::weighted(0.5),
        prop::bool::weighted(0.6),
        prop_oneof![2 => Just(0usize), 3 => 1usize..=5],
        prop_oneof![2 => Just(0usize), 3 => 1usize..=4],
        prop::bool::weighted(0.08),
    );
    let b = (
        prop_oneof![3 => 1usize..=8, 2 => 9usize..=30],
        prop_oneof![80 => Just(0u8), 16 => 1u8..=4, 2 => 5u8..=8],
        1usize..=3,
        prop::bool::weighted(0.5),
        1usize..=3,
        any::<u8>(),
        prop_oneof![3 => Just(1u8), 1 => 2u8..=4],
        prop_oneof![3 => Just(0u8), 1 => 1u8..=3],
    );
    (a, b).prop_map(|((seed, kind, nglyphs, grid, hints, width, free_forms, nfrags, cuts, deep), (max_segs, pad, nfd, variable, axes, block_order, off_size, header_extra))| {
        let big = nglyphs > 100;
        c18::Case {
            kind,
            seed,
            nglyphs,
            grid,
            hints,
            width: width && kind != c18::Kind::Cff2,
            free_forms,
            nfrags,
            cuts: if big { cuts.min(1) } else { cuts },
            deep: deep && !big,
            max_segs: if big { max_segs.min(5) } else { max_segs },
            pad,
            nfd: match kind {
                c18::Kind::NameKeyed => 1,
                c18::Kind::Cid => nfd.max(2),
                c18::Kind::Cff2 => nfd,
            },
            variable: variable && kind == c18::Kind::Cff2,
            axes,
            block_order,
            off_size,
            header_extra,
            via_sfnt: false,
        }
    })
}

fn c18_font_strategy() -> impl Strategy<Value = C18Font> {
    prop_oneof![
        9 => c18_case_strategy().prop_map(C18Font::Gen),
        1 => (any::<u64>(), any::<bool>(), any::<bool>(), any::<bool>(), prop_oneof![1 => Just(0u8), 2 => Just(1u8), 2 => Just(2u8)], any::<bool>())
            .prop_map(|(seed, hints, component_width, seac_width, charset, free_forms)| C18Font::Seac(SeacSpec { seed, hints, component_width, seac_width, charset, free_forms })),
    ]
}

struct C18Built {
    table: Vec<u8>,
    cff2: bool,
    /// model path per glyph
    paths: Vec<Vec<Cmd>>,
    seac: BTreeMap<u16, (u16, u16)>,
    classes: Vec<String>,
    /// per glyph: uses hintmask/cntrmask, calls subroutines
    masks: Vec<bool>,
    calls: Vec<bool>,
}

fn build_c18_seac(c: &SeacSpec) -> C18Built {
    use crate::fontgen::cff::{build_cff, CffKind, CffModel, CharsetModel, PrivateModel};
    use crate::fontgen::type2::{gen_glyph_plan, op, serialize, Dec, EncOpts, Encoder, Grid, NumForm, PathOpts, Tok, ONE};
    use crate::refmodel::type2::standard_encoding_sid;
    let mut dec = Dec::new(c.seed);
    let codes: Vec<u8> = (0u16..256).map(|v| v as u8).filter(|v| standard_encoding_sid(*v) != 0).collect();
    let bcode = codes[dec.below(codes.len())];
    let mut acode = codes[dec.below(codes.len())];
    if acode == bcode {
        acode = if bcode == 65 { 194 } else { 65 };
    }
    let (bsid, asid) = (standard_encoding_sid(bcode), standard_encoding_sid(acode));
    let po = PathOpts {
        grid: Grid::SMALL,
        max_contours: 2,
        max_segs: 6,
        scale: 300,
        long_runs: false,
    };
    let mut comp = |dec: &mut Dec| {
        let plan = gen_glyph_plan(dec, &po, &[], &|_| false);
        let eo = EncOpts {
            cff2: false,
            free_number_forms: c.free_forms,
            hints: c.hints,
            width: if c.component_width { Some(dec.range(1, 1000) * ONE) } else { None },
            regions: 0,
            vsindex: None,
            blend_permille: 0,
            delta_scale: 0,
            inexact: false,
        };
        let mut e = Encoder::new(&eo);
        e.glyph(dec, &plan, &[]);
        (serialize(&e.toks, &|_, _| 0), plan.model(&[]).commands(None), e.stats.masks > 0)
    };
    let (bcs, bpath, bmask) = comp(&mut dec);
    let (acs, apath, amask) = comp(&mut dec);
    let adx = dec.range(-500, 500);
    let ady = dec.range(-500, 500);
    let num = |v: i32| Tok::Num {
        v: v * ONE,
        form: NumForm::Short,
        comp: None,
        var: None,
        blendable: false,
    };
    let mut toks = Vec::new();
    if c.seac_width {
        toks.push(num(dec.range(1, 1000)));
    }
    toks.extend([num(adx), num(ady), num(bcode as i32), num(acode as i32), Tok::Op(op::ENDCHAR)]);
    let seac_cs = serialize(&toks, &|_, _| 0);
    let endchar = vec![op::ENDCHAR as u8];
    let mut seac_path = bpath.clone();
    seac_path.extend(apath.iter().map(|c| match c {
        Cmd::Move(x, y) => Cmd::Move(x + adx as f64, y + ady as f64),
        Cmd::Line(x, y) => Cmd::Line(x + adx as f64, y + ady as f64),
        Cmd::Curve(a, b, c2, d, e, f) => Cmd::Curve(a + adx as f64, b + ady as f64, c2 + adx as f64, d + ady as f64, e + adx as f64, f + ady as f64),
        Cmd::Close => Cmd::Close,
    }));
    let (charstrings, charset, ids) = if c.charset == 0 {
        let mut cs = vec![endchar.clone(); 229];
        cs[bsid as usize] = bcs;
        cs[asid as usize] = acs;
        let g = (1..229u16).find(|g| *g != bsid && *g != asid).unwrap();
        cs[g as usize] = seac_cs;
        (cs, CharsetModel::IsoAdobe, (g, bsid, asid))
    } else {
        let cs = vec![endchar.clone(), acs, seac_cs, bcs];
        let sids = vec![asid, 200, bsid];
        (cs, if c.charset == 1 { CharsetModel::Format0(sids) } else { CharsetModel::Format1(sids) }, (2u16, 3u16, 1u16))
    };
    let n = charstrings.len();
    let mut m = CffModel::simple(charstrings);
    m.charset = charset;
    m.kind = CffKind::NameKeyed {
        private: PrivateModel {
            nominal_width_x: Some(500),
            default_width_x: Some(400),
            ..Default::default()
        },
    };
    let (sg, bg, ag) = ids;
    let mut paths = vec![Vec::new(); n];
    paths[bg as usize] = bpath;
    paths[ag as usize] = apath;
    paths[sg as usize] = seac_path;
    let mut masks = vec![false; n];
    masks[bg as usize] = bmask;
    masks[ag as usize] = amask;
    masks[sg as usize] = bmask || amask;
    let mut seac = BTreeMap::new();
    seac.insert(sg, (bg, ag));
    let mut classes = vec!["c18gen:seac-font".to_string()];
    if c.component_width {
        classes.push("c18gen:seac-components-with-width".into());
    }
    C18Built {
        table: build_cff(&m),
        cff2: false,
        paths,
        seac,
        classes,
        masks,
        calls: vec![false; n],
    }
}

fn build_c18(f: &C18Font) -> C18Built {
    match f {
        C18Font::Seac(s) => build_c18_seac(s),
        C18Font::Gen(c) => {
            // half of the fonts use a non-canonical (but legal) container layout of the C18
            // builder: header padding, wide offSizes, reordered DICT operators, gaps, ...
            let lseed = if c.seed & 1 == 1 { Some(c.seed.rotate_left(17) ^ 0x9E37_79B9_7F4A_7C15) } else { None };
            let b = c18::build_with(c, &c18::layout_of(lseed));
            let mut classes: Vec<String> = b.classes.iter().map(|c| format!("c18gen:{}", c)).collect();
            if lseed.is_some() {
                classes.push("c18gen:non-canonical-layout".to_string());
            }
            classes.push(
                match (c.kind, c.variable) {
                    (c18::Kind::NameKeyed, _) => "c18gen:name-keyed",
                    (c18::Kind::Cid, _) => "c18gen:cid-keyed",
                    (c18::Kind::Cff2, false) => "c18gen:cff2-static",
                    (c18::Kind::Cff2, true) => "c18gen:cff2-variable",
                }
                .to_string(),
            );
            C18Built {
                cff2: c.kind == c18::Kind::Cff2,
                paths: {
                    // default location of a variable font: regions whose peaks are all zero still
                    // contribute, so the scalars at the origin are evaluated, not assumed to be 0
                    let vs = if c.variable { T2Font::parse_cff2(&b.table).ok().and_then(|t| t.vstore) } else { None };
                    b.glyphs
                        .iter()
                        .map(|g| match &vs {
                            Some(v) => {
                                let sc = v.scalars(g.vsindex, &vec![0.0; v.axis_count]).expect("vsindex of the model is in range");
                                g.model.commands(Some(&sc))
                            }
                            None => g.model.commands(None),
                        })
                        .collect()
                },
                seac: BTreeMap::new(),
                classes,
                masks: b.glyphs.iter().map(|g| g.stats.masks > 0).collect(),
                calls: b.glyphs.iter().map(|g| g.depth > 0).collect(),
                table: b.table,
            }
        }
    }
}

fn check_generated_c18(c: &C18Case, rec: &mut Rec) -> CaseResult {
    check_generated_c18_x(c, &Extra::default(), rec)
}

fn check_generated_c18_x(c: &C18Case, extra: &Extra, rec: &mut Rec) -> CaseResult {
    use crate::fontgen::basic;
    let b = build_c18(&c.font);
    let n = b.paths.len() as u16;
    // metrics of the wrapper: varied advances / bearings, numberOfHMetrics sometimes < numGlyphs
    let mut x = c.metrics_seed;
    let mut next = || {
        x = x.wrapping_mul(1_664_525).wrapping_add(1_013_904_223);
        x >> 8
    };
    let metrics: Vec<(u16, i16)> = (0..n).map(|_| ((next() % 1400) as u16, (next() % 400) as i16 - 200)).collect();
    let nhm = match c.metrics_seed % 4 {
        0 => 1,
        1 => n.saturating_sub(1).max(1),
        _ => n,
    };
    let adv_max = metrics.iter().map(|m| m.0).max().unwrap_or(0);
    let extra_tables = [(*b"hmtx", basic::hmtx(&metrics, nhm)), (*b"hhea", basic::hhea(800, -200, adv_max, nhm))];
    let otf = crate::fontgen::cff::build_otf(b.table.clone(), b.cff2, n, &extra_tables);
    let src = analyse("generated-c18", &otf).expect("generated C18 font must be readable by the harness's own readers");
    // self-check: the independent interpreter reads the model back from the source bytes
    let t2 = if b.cff2 { T2Font::parse_cff2(&src.cff) } else { T2Font::parse_cff(&src.cff) }.expect("generated table must parse");
    let zeros: Option<Vec<f64>> = t2.vstore.as_ref().map(|v| vec![0.0; v.axis_count]);
    for g in 0..n {
        match t2.outline(g as usize, zeros.as_deref(), &Deviations::default()) {
            Ok(p) => assert!(diff_commands(&p, &b.paths[g as usize], 1e-6).is_none(), "generated glyph {} does not read back as the model path", g),
            Err(e) => panic!("generated glyph {} is not interpretable: {}", g, e),
        }
    }
    let blank = || (1..n).filter(|g| b.paths[*g as usize].is_empty()).collect::<Vec<u16>>();
    let list = list_of(&src, &[], &blank, &c.list);
    let wrapped;
    let by_spec = wrap_source(&otf, &src, extra, None, rec);
    let index = by_spec.as_ref().map_or(0, |w| w.1);
    let font_bytes: &[u8] = if let Some(w) = &by_spec {
        &w.0
    } else if c.rewrap {
        wrapped = woff1_wrap(&otf).expect("woff wrapper");
        &wrapped
    } else {
        &otf
    };
    rec.class_if(c.rewrap && by_spec.is_none(), "container:rewrapped-by-fontgen");
    rec.artefact("font", font_bytes);
    rec.artefact("glyph-ids", format!("{:?}", list).as_bytes());
    rec.hash_bytes(&otf);
    rec.hash_bytes(format!("{:?}{:?}{}{:?}", c.api, list, c.rewrap, extra.wrap).as_bytes());
    rec.sample(|| format!("c18 font {} glyphs cff2={} classes={:?} api={:?} list={}", n, b.cff2, b.classes, c.api, truncate(&format!("{:?}", list), 160)));
    for cl in b.classes.iter().take(12) {
        rec.class(cl);
    }
    rec.class_if(list.iter().any(|g| b.masks[*g as usize]), "c18gen:retained-glyph-with-hintmask");
    rec.class_if(list.iter().any(|g| b.calls[*g as usize]), "c18gen:retained-glyph-calls-subrs");
    rec.class_if(list.iter().any(|g| b.seac.contains_key(g)), "c18gen:seac-glyph-retained");
    let seac = |g: u16| b.seac.get(&g).copied();
    let expect = |g: u16| b.paths.get(g as usize).cloned();
    subset_and_compare(font_bytes, index, by_spec.as_ref().map(|_| &otf[..]), &src, &list, &c.api, &c.list, &CffHooks { seac: &seac, expect: &expect }, rec).map(|_| ())
}

// ------------------------------------------------------------------------------------------
// extension sections: every source class x extended lists x every API option, bare (`lists`)
// and through every container (`containers`)

#[derive(Clone, Debug)]
pub enum XSource {
    Tt(GenCase),
    Cff(GenCffCase),
    C18(C18Case),
    /// .1: force the CID-keyed fixture
    Fixture(FixtureCase, bool),
}

#[derive(Clone, Debug)]
pub struct XCase {
    pub src: XSource,
    pub extra: Extra,
}

fn x_strategy(wrapped: bool) -> impl Strategy<Value = XCase> {
    let (w_tt, w_cff, w_c18, w_fix) = if wrapped { (5, 2, 2, 3) } else { (3, 3, 2, 4) };
    let cid = if wrapped { 0.0 } else { 0.012 };
    let src = prop_oneof![
        w_tt => (tt_model(), list_strategy_x(), api_strategy()).prop_map(|(model, list, api)| XSource::Tt(GenCase { model, list, api, rewrap: false })),
        w_cff => (cff_model(), list_strategy_x(), api_strategy()).prop_map(|(model, list, api)| XSource::Cff(GenCffCase { model, list, api, rewrap: false })),
        w_c18 => (c18_font_strategy(), list_strategy_x(), api_strategy(), any::<u32>())
            .prop_map(|(font, list, api, metrics_seed)| XSource::C18(C18Case { font, list, api, rewrap: false, metrics_seed })),
        w_fix => (any::<u32>(), list_strategy_x(), api_strategy(), prop::bool::weighted(cid))
            .prop_map(|(font, list, api, cid)| XSource::Fixture(FixtureCase { font, list, api, rewrap: false }, cid)),
    ];
    (src, extra_strategy(wrapped)).prop_map(|(src, extra)| XCase { src, extra })
}

fn check_x(c: &XCase, thorough: bool, rec: &mut Rec) -> CaseResult {
    let spec = match &c.src {
        XSource::Tt(g) => &g.list,
        XSource::Cff(g) => &g.list,
        XSource::C18(g) => &g.list,
        XSource::Fixture(g, _) => &g.list,
    };
    rec.class(match spec.mode {
        0..=3 => "xlist:classic-mode",
        4 => "xlist:tail-of-font",
        5 => "xlist:blank-glyphs-only",
        6 => "xlist:composites-interleaved-with-components",
        7 => "xlist:one-glyph-per-font-dict-in-turn",
        _ => "xlist:consecutive-run",
    });
    match &c.src {
        XSource::Tt(g) => check_generated_x(g, &c.extra, rec),
        XSource::Cff(g) => check_generated_cff_x(g, &c.extra, rec),
        XSource::C18(g) => check_generated_c18_x(g, &c.extra, rec),
        XSource::Fixture(g, cid) => check_fixture_x(g, thorough, &c.extra, *cid, rec),
    }
}

// ------------------------------------------------------------------------------------------
// cross-check of the independent glyf reader against allsorts' parser on intact fixtures

fn crosscheck_reader(i: u64, rec: &mut Rec) -> CaseResult {
    use allsorts::tables::glyf::{CompositeGlyphFlag, CompositeGlyphScale, GlyfTable, Glyph};
    use allsorts::tables::loca::LocaTable;
    use allsorts::tables::IndexToLocFormat;
    let cat = catalogue();
    let entry = match cat.get(i as usize) {
        Some(e) => e,
        None => return Ok(()),
    };
    let loaded = match load(&entry.path) {
        Some(l) => l,
        None => return Ok(()),
    };
    let tt = match &loaded.source.tt {
        Some(t) => t,
        None => return Ok(()),
    };
    let fmt = if tt.long_loca { IndexToLocFormat::Long } else { IndexToLocFormat::Short };
    let loca = match ReadScope::new(&tt.loca).read_dep::<LocaTable<'_>>((tt.num_glyphs as usize, fmt)) {
        Ok(l) => l,
        Err(_) => return Ok(()),
    };
    let mut glyf = match ReadScope::new(&tt.glyf).read_dep::<GlyfTable<'_>>(&loca) {
        Ok(g) => g,
        Err(_) => return Ok(()),
    };
    let mut compared = 0u64;
    for g in 0..tt.num_glyphs {
        let theirs = glyf.get_parsed_glyph(g);
        let mine = tt.glyph(g);
        let (theirs, mine) = match (theirs, mine) {
            (Ok(t), Ok(m)) => (t, m),
            (Err(_), Err(_)) => continue,
            (t, m) => {
                return Err(fail(
                    "reader-crosscheck",
                    format!("{} glyph {}: allsorts {:?}, independent reader {:?}", entry.path, g, t.map(|_| "parses").map_err(|e| format!("{:?}", e)), m.map(|_| "parses")),
                ));
            }
        };
        let same = match (theirs, &mine) {
            (Glyph::Empty(_), m) => m.is_blank(),
            (Glyph::Simple(s), GlyphLite::Simple { bbox, contours, instructions }) => {
                let pts: Vec<(i32, i32, bool)> = s.coordinates.iter().map(|(f, p)| (p.0 as i32, p.1 as i32, f.is_on_curve())).collect();
                let flat: Vec<(i32, i32, bool)> = contours.iter().flatten().copied().collect();
                let ends: Vec<u16> = contours
                    .iter()
                    .scan(0usize, |acc, c| {
                        *acc += c.len();
                        Some((*acc - 1) as u16)
                    })
                    .collect();
                pts == flat
                    && ends == s.end_pts_of_contours
                    && instructions.as_slice() == s.instructions
                    && *bbox == (s.bounding_box.x_min, s.bounding_box.y_min, s.bounding_box.x_max, s.bounding_box.y_max)
            }
            (Glyph::Composite(c), GlyphLite::Composite { bbox, components, instructions }) => {
                *bbox == (c.bounding_box.x_min, c.bounding_box.y_min, c.bounding_box.x_max, c.bounding_box.y_max)
                    && instructions.as_slice() == c.instructions
                    && components.len() == c.glyphs.len()
                    && components.iter().zip(c.glyphs.iter()).all(|(m, t)| {
                        let a1 = i32::from(t.argument1);
                        let a2 = i32::from(t.argument2);
                        let args_ok = match m.args {
                            Args::Xy(x, y) => t.flags.contains(CompositeGlyphFlag::ARGS_ARE_XY_VALUES) && (x as i32, y as i32) == (a1, a2),
                            Args::Points(p, q) => !t.flags.contains(CompositeGlyphFlag::ARGS_ARE_XY_VALUES) && (p as i32, q as i32) == (a1, a2),
                        };
                        let tr_ok = match (m.transform, t.scale) {
                            (Transform::None, None) => true,
                            (Transform::Scale(s), Some(CompositeGlyphScale::Scale(v))) => s == v.raw_value(),
                            (Transform::XY(x, y), Some(CompositeGlyphScale::XY { x_scale, y_scale })) => x == x_scale.raw_value() && y == y_scale.raw_value(),
                            (Transform::Matrix(a), Some(CompositeGlyphScale::Matrix(b))) => {
                                a == [b[0][0].raw_value(), b[0][1].raw_value(), b[1][0].raw_value(), b[1][1].raw_value()]
                            }
                            _ => false,
                        };
                        m.glyph == t.glyph_index && m.flags == t.flags.bits() & gl::SEMANTIC_FLAGS && args_ok && tr_ok
                    })
            }
            _ => false,
        };
        if !same {
            return Err(fail(
                "reader-crosscheck",
                format!("{} glyph {}: independent reader {} / allsorts {}", entry.path, g, truncate(&format!("{:?}", mine), 400), truncate(&format!("{:?}", theirs), 400)),
            ));
        }
        compared += 1;
    }
    rec.evaluations(compared);
    rec.class("crosscheck:font");
    rec.hash_bytes(entry.path.as_bytes());
    rec.sample(|| format!("{}: {} glyphs read identically by allsorts and the independent reader", entry.path, compared));
    rec.set_nontrivial(compared >= 2);
    Ok(())
}

impl Property for C07 {
    fn id(&self) -> &'static str {
        "C07"
    }
    fn rule(&self) -> String {
        "cases are (font, glyph id list, API option) triples: fonts are the fixture fonts under tests/fonts (TrueType, CFF name-keyed and CID-keyed, CFF2; \
         as sfnt, as WOFF/WOFF2 fixtures and re-wrapped as WOFF by the harness) and generated TrueType fonts (nested composites to depth 4, shared components, \
         numberOfHMetrics < numGlyphs) and generated CFF fonts (name-keyed and CID-keyed with 1-3 Font DICTs, global/local subroutine INDEXes sized around the \
         bias edges 1240 and 33900, nested subroutine calls, seac glyphs) and fonts of the C18 generator (name-keyed, CID-keyed, CFF2 static/variable: every Type 2 operator form and \
         number encoding, stem hints with hintmask/cntrmask, subroutines nested to depth 10 at every bias band, seac with hinted components) wrapped as OTTO; lists are [0] ++ distinct ids of size 1-12 mostly, sometimes 250-300 and ~600, ascending/shuffled/descending, biased to \
         composite parents or to components. A case is non-trivial when the subset succeeded, at least 2 glyphs were retained and at least one retained glyph \
         has an outline; distinct = distinct (font, list, API option, container). Extension sections `lists` and `containers` draw every source class again (generated TrueType, generated CFF \
         re-encoded with charset formats 0/1/2 with id gaps, custom Encodings 0/1, FDSelect 0/3, short or 5-byte DICT offsets, numberOfHMetrics 1 / numGlyphs-1 / half; C18 fonts; fixtures incl. the CID-keyed one) with lists of up to 700 ids and \
         the modes tail-of-font (always the last glyph, ids around/past numberOfHMetrics), blank glyphs only, composites interleaved with their components, one glyph per Font DICT in turn, consecutive runs; `containers` subsets \
         through WOFF, WOFF2 (null/transformed glyf+loca, transformed hmtx), WOFF2 collections and TTC files written by the harness (target member index 0..2 among decoy members sharing glyf/loca/CFF but not hmtx) and compares with the bare tables."
            .into()
    }
    fn assumptions(&self) -> Vec<String> {
        vec![
            "TrueType outputs and bare-sfnt sources are read only by the harness's own sfnt/glyf/loca/hmtx readers (cross-checked against allsorts' glyf parser on every fixture glyph in section reader-crosscheck)".into(),
            "CFF and CFF2 outlines are compared through allsorts' own charstring visitor on both the source and the subset (its Type 2 semantics are C18's subject)".into(),
            "for WOFF/WOFF2 fixture sources the 'source font' is the set of tables the provider hands to the subsetter (container decoding is C10/C11's subject); sources re-wrapped as WOFF by the harness are compared with the original sfnt".into(),
            "CFF/CFF2->CFF subsets are additionally compared through the independent Type 2 interpreter (refmodel::type2) on the bytes of both fonts, and for C18-generated fonts with the model path (forward construction); variable CFF2 sources are converted at the default location (allsorts refuses blended charstrings: counted as err:*)".into(),
            "generated CFF fonts are accepted as faithful because allsorts' visitor draws exactly the model path on the source (class gencff:source-path=model, measured) and the independent width reader returns the model widths (asserted)".into(),
            "the order of the appended component glyphs is not asserted (only that they are exactly the composite closure, each once, after the requested glyphs)".into(),
            "an Err from the subsetter is outside the statement ('a successful subset') and only counted".into(),
            "section containers: the WOFF/WOFF2/TTC files come from the harness's own conformant encoders (fontgen::wrap on top of fontgen::container and fontgen::woff2); a subset error that occurs only through such a container while the bare sfnt subsets fine is reported (C07:container-only-subset-error); WOFF2 hmtx transform flag bit 1 is never used (known finding C11:hmtx-lsb-array-not-skipping-long-metrics)".into(),
            "vmtx/vhea are not carried by the subsetter (src/subset.rs writes only hhea/hmtx): nothing is asserted about vertical metrics".into(),
        ]
    }
    fn run(&self, ctx: &mut Ctx) {
        let thorough = ctx.thorough();
        let n = ctx.cases(30_000, 600_000);
        ctx.section(
            "fixtures",
            n,
            (any::<u32>(), list_strategy(true), api_strategy(), prop::bool::weighted(0.15)).prop_map(|(font, list, api, rewrap)| FixtureCase { font, list, api, rewrap }),
            move |c, rec| check_fixture(c, thorough, rec),
        );
        let n = ctx.cases(30_000, 600_000);
        ctx.section(
            "generated",
            n,
            (tt_model(), list_strategy(false), api_strategy(), prop::bool::weighted(0.1)).prop_map(|(model, list, api, rewrap)| GenCase { model, list, api, rewrap }),
            |c, rec| check_generated(c, rec),
        );
        let n = ctx.cases(16_000, 300_000);
        ctx.section(
            "generated-cff",
            n,
            (cff_model(), list_strategy(false), api_strategy(), prop::bool::weighted(0.1)).prop_map(|(model, list, api, rewrap)| GenCffCase { model, list, api, rewrap }),
            |c, rec| check_generated_cff(c, rec),
        );
        let n = ctx.cases(12_000, 200_000);
        ctx.section(
            "generated-c18",
            n,
            (c18_font_strategy(), list_strategy(false), api_strategy(), prop::bool::weighted(0.05), any::<u32>())
                .prop_map(|(font, list, api, rewrap, metrics_seed)| C18Case { font, list, api, rewrap, metrics_seed }),
            |c, rec| check_generated_c18(c, rec),
        );
        let n = ctx.cases(6_000, 250_000);
        ctx.section("lists", n, x_strategy(false), move |c, rec| check_x(c, thorough, rec));
        let n = ctx.cases(6_000, 250_000);
        ctx.section("containers", n, x_strategy(true), move |c, rec| check_x(c, thorough, rec));
        let n = catalogue().len() as u64;
        ctx.enumerate("reader-crosscheck", n, false, |i, rec| crosscheck_reader(i, rec));
    }
}
