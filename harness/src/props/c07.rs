//! C07 — not built yet.
use crate::engine::{Ctx, Property};

pub struct C07;

impl Property for C07 {
    fn id(&self) -> &'static str {
        "C07"
    }
    fn rule(&self) -> String {
        "not implemented".to_string()
    }
    fn run(&self, _ctx: &mut Ctx) {}
}
