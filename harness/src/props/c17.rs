//! C17 — text preprocessing only reorders marks and applies documented decompositions.
//!
//! Generated strings (per-script alphabets, long mark runs, every documented rewrite) × script
//! tags go through `allsorts::scripts::preprocess_text` (and `Font::map_glyphs`); the result is
//! checked (1) against relational invariants that need no transcription of the algorithm
//! (content preserved up to the documented expansions, canonical-class-0 characters immobile,
//! marks stay inside their run, runs stably sorted by the library's own modified class) and
//! (2) for equality with `refmodel::preprocess`, a transcription of the documented steps.

use crate::engine::util::{mix64, pick};
use crate::engine::{CaseResult, Ctx, Fail, Property, Rec};
use crate::fontgen::basic::BasicFont;
use crate::refmodel::preprocess as rm;
use crate::refmodel::preprocess::{ccc, tag, ScriptClass, Variant};
use allsorts::binary::read::ReadScope;
use allsorts::font::{Font, MatchingPresentation};
use allsorts::font_data::FontData;
use allsorts::gsub::GlyphOrigin;
use allsorts::scripts::preprocess_text;
use allsorts::unicode::mcc::modified_combining_class;
use proptest::prelude::*;
use std::sync::OnceLock;

pub struct C17;

const MAX_LEN: usize = 48;

/// signature of the known SARA AM defect (attributed by defect model only)
pub const SIG_AM_DEFECT: &str = "C17:thai-lao-later-am-vowel-not-decomposed";

fn fail(sig: &str, msg: String) -> Fail {
    Fail::new(format!("C17:{}", sig), msg)
}

/// The sort key the property speaks of: the library's own public modified combining class.
fn key(c: char) -> u8 {
    modified_combining_class(c) as u8
}

fn show(cs: &[char]) -> String {
    let mut s = String::new();
    for (i, c) in cs.iter().enumerate() {
        if i > 0 {
            s.push(' ');
        }
        s.push_str(&format!("{:04X}", *c as u32));
    }
    s
}

fn tag_str(t: u32) -> String {
    let b = t.to_be_bytes();
    if b.iter().all(|x| (0x20..0x7F).contains(x)) {
        format!("'{}'", String::from_utf8_lossy(&b))
    } else {
        format!("0x{:08X}", t)
    }
}

// ------------------------------------------------------------------------------------------
// alphabets
// ------------------------------------------------------------------------------------------

#[derive(Clone, Copy, Debug, PartialEq, Eq)]
pub enum Family {
    Arabic,
    Default,
    ThaiLao,
    Indic,
    Khmer,
    Myanmar,
}

const ARABIC_TAGS: &[u32] = &[tag(b"arab")];
const DEFAULT_TAGS: &[u32] = &[
    tag(b"latn"),
    tag(b"cyrl"),
    tag(b"grek"),
    tag(b"syrc"),
    tag(b"syrc"),
    tag(b"hebr"),
    tag(b"DFLT"),
    tag(b"tibt"),
    tag(b"dev2"),
    tag(b"knd2"),
    tag(b"bng2"),
    tag(b"hang"),
    0,
    0xFFFF_FFFF,
];
const THAILAO_TAGS: &[u32] = &[tag(b"thai"), tag(b"lao ")];
const INDIC_TAGS: &[u32] = &[
    tag(b"deva"),
    tag(b"beng"),
    tag(b"guru"),
    tag(b"gujr"),
    tag(b"orya"),
    tag(b"taml"),
    tag(b"telu"),
    tag(b"knda"),
    tag(b"mlym"),
    tag(b"sinh"),
    tag(b"beng"),
    tag(b"knda"),
];
const KHMER_TAGS: &[u32] = &[tag(b"khmr")];
const MYANMAR_TAGS: &[u32] = &[tag(b"mymr"), tag(b"mym2")];

fn all_tags() -> Vec<u32> {
    let mut v = Vec::new();
    for l in [ARABIC_TAGS, DEFAULT_TAGS, THAILAO_TAGS, INDIC_TAGS, KHMER_TAGS, MYANMAR_TAGS] {
        for t in l {
            if !v.contains(t) {
                v.push(*t);
            }
        }
    }
    v
}

fn family_tags(f: Family) -> &'static [u32] {
    match f {
        Family::Arabic => ARABIC_TAGS,
        Family::Default => DEFAULT_TAGS,
        Family::ThaiLao => THAILAO_TAGS,
        Family::Indic => INDIC_TAGS,
        Family::Khmer => KHMER_TAGS,
        Family::Myanmar => MYANMAR_TAGS,
    }
}

/// every scalar value with a non-zero canonical combining class (independent crate)
fn all_marks() -> &'static Vec<char> {
    static M: OnceLock<Vec<char>> = OnceLock::new();
    M.get_or_init(|| (0x300u32..0x110000).filter_map(char::from_u32).filter(|&c| ccc(c) != 0).collect())
}

fn chars(v: &[u32]) -> Vec<char> {
    v.iter().filter_map(|&x| char::from_u32(x)).collect()
}

const SHADDA: char = '\u{0651}';

fn arabic_marks() -> &'static Vec<char> {
    static M: OnceLock<Vec<char>> = OnceLock::new();
    M.get_or_init(|| {
        let mut v = vec![SHADDA; 5];
        v.extend_from_slice(&rm::MCM);
        v.extend(chars(&[
            0x654, 0x654, 0x655, 0x655, 0x64B, 0x64C, 0x64D, 0x64E, 0x64F, 0x650, 0x652, 0x670, 0x653, 0x653, 0x656, 0x657, 0x65C, 0x65C,
            0x65F, 0x610, 0x618, 0x619, 0x61A, 0x6D6, 0x6E1, 0x6EA, 0x6ED, 0x8F0, 0x8E4, 0x8D4, 0x711, 0x730, 0x731, 0x5B0, 0x5BC,
            0x301, 0x323,
        ]));
        v
    })
}

fn default_marks() -> &'static Vec<char> {
    static M: OnceLock<Vec<char>> = OnceLock::new();
    M.get_or_init(|| {
        let mut v = chars(&[
            0x300, 0x301, 0x302, 0x308, 0x323, 0x327, 0x328, 0x31B, 0x334, 0x345, 0x35C, 0x360, 0x315, 0x316, 0x591, 0x5AB, 0x5BF,
            0x5C1, 0x5C2, 0x5C7, 0xFB1E, 0xF71, 0xF72, 0xF74, 0xF7A, 0xF80, 0xF39, 0xF18, 0xF35, 0x711, 0x730, 0x731, 0x732, 0x73A,
            0x748, 0x3099, 0x302A, 0x302E, 0x20D0, 0x20E1, 0x1D165, 0x1D16D, 0x16FF0, 0x93C, 0x94D, 0xE38, 0xE3A, 0xC55, 0xC56, 0xEB8,
            0xEC8, 0x651, 0x654,
        ]);
        v.extend((0x5B0u32..=0x5BD).filter_map(char::from_u32));
        v
    })
}

fn thai_marks(lao: bool) -> Vec<char> {
    if lao {
        chars(&[
            0xEB1, 0xEB4, 0xEB5, 0xEB6, 0xEB7, 0xEB8, 0xEB9, 0xEBA, 0xEBB, 0xEBC, 0xEC8, 0xEC9, 0xECA, 0xECB, 0xECC, 0xECD, 0xECE, 0xEC8,
            0xEC9,
        ])
    } else {
        chars(&[
            0xE31, 0xE34, 0xE35, 0xE36, 0xE37, 0xE38, 0xE39, 0xE3A, 0xE47, 0xE48, 0xE49, 0xE4A, 0xE4B, 0xE4C, 0xE4D, 0xE4E, 0xE48, 0xE49,
        ])
    }
}

fn indic_block(t: u32) -> Option<u32> {
    match rm::classify_tag(t) {
        ScriptClass::Indic(s) => Some(match s {
            rm::Indic::Devanagari => 0x900,
            rm::Indic::Bengali => 0x980,
            rm::Indic::Gurmukhi => 0xA00,
            rm::Indic::Gujarati => 0xA80,
            rm::Indic::Oriya => 0xB00,
            rm::Indic::Tamil => 0xB80,
            rm::Indic::Telugu => 0xC00,
            rm::Indic::Kannada => 0xC80,
            rm::Indic::Malayalam => 0xD00,
            rm::Indic::Sinhala => 0xD80,
        }),
        _ => None,
    }
}

/// pseudo-random sequence of `n` members of `pool` derived from a seed (pure function)
fn seq(pool: &[char], n: usize, seed: u64) -> Vec<char> {
    (0..n).map(|i| pool[(mix64(seed.wrapping_add(i as u64 * 0x9E37)) % pool.len() as u64) as usize]).collect()
}

// ------------------------------------------------------------------------------------------
// case model
// ------------------------------------------------------------------------------------------

#[derive(Clone, Debug)]
pub enum Seg {
    /// a base character of the family's script
    Base(u32),
    /// any code point of the script's block(s)
    Block(u32),
    /// a run of combining marks (top 3 bits: pool, rest: index)
    Marks(Vec<u32>),
    /// a family specific construct (documented rewrite trigger)
    Special(u8, u32, u32),
    /// any scalar value
    Any(u32),
    /// ZWJ, ZWNJ, dotted circle, CGJ, variation selectors, space
    Joiner(u8),
}

#[derive(Clone, Debug)]
pub struct Case {
    pub family: Family,
    pub tag: u32,
    pub segs: Vec<Seg>,
}

fn seg_strategy() -> impl Strategy<Value = Seg> {
    let marks = prop_oneof![
        3 => proptest::collection::vec(any::<u32>(), 1..=4),
        2 => proptest::collection::vec(any::<u32>(), 5..=12),
        1 => proptest::collection::vec(any::<u32>(), 13..=30),
    ];
    prop_oneof![
        3 => any::<u32>().prop_map(Seg::Base),
        1 => any::<u32>().prop_map(Seg::Block),
        4 => marks.prop_map(Seg::Marks),
        4 => (0u8..12, any::<u32>(), any::<u32>()).prop_map(|(k, a, b)| Seg::Special(k, a, b)),
        1 => any::<u32>().prop_map(Seg::Any),
        1 => (0u8..9).prop_map(Seg::Joiner),
    ]
}

fn case_strategy(family: Family) -> impl Strategy<Value = Case> {
    let segs = prop_oneof![
        1 => Just(Vec::new()),
        49 => proptest::collection::vec(seg_strategy(), 1..=8),
    ];
    (0u32..16, any::<u32>(), segs).prop_map(move |(sel, r, segs)| {
        let tag = match sel {
            0 => {
                let all = all_tags();
                all[pick(all.len(), r)]
            }
            1 => r, // arbitrary tag value
            _ => {
                let l = family_tags(family);
                l[pick(l.len(), r)]
            }
        };
        Case { family, tag, segs }
    })
}

fn any_scalar(r: u32) -> char {
    let cp = match r & 7 {
        0 => 0x10000 + (r >> 3) % 0x100000,
        1 => 0x1D100 + (r >> 3) % 0x200, // musical symbols (astral combining marks)
        2 => 0x300 + (r >> 3) % 0x70,
        3 => (r >> 3) % 0x300,
        _ => (r >> 3) % 0x10000,
    };
    char::from_u32(cp).unwrap_or('\u{FFFD}')
}

fn joiner(k: u8) -> char {
    match k {
        0 => '\u{200D}',
        1 => '\u{200C}',
        2 => '\u{25CC}',
        3 => '\u{034F}',
        4 => '\u{FE0F}',
        5 => '\u{FE00}',
        6 => ' ',
        7 => '\u{00A0}',
        _ => '\u{200D}',
    }
}

fn render_mark(family: Family, lao: bool, r: u32) -> char {
    let pool_sel = r >> 29;
    let idx = r << 3;
    let global = all_marks();
    if pool_sel == 7 {
        return global[pick(global.len(), idx)];
    }
    match family {
        Family::Arabic => {
            let p = arabic_marks();
            p[pick(p.len(), idx)]
        }
        Family::Default => {
            let p = default_marks();
            p[pick(p.len(), idx)]
        }
        Family::ThaiLao => {
            let p = thai_marks(lao);
            p[pick(p.len(), idx)]
        }
        Family::Indic | Family::Khmer | Family::Myanmar => unreachable!(),
    }
}

pub fn render(case: &Case) -> Vec<char> {
    let t = case.tag;
    let lao = t == tag(b"lao ");
    let mut out: Vec<char> = Vec::new();
    // the Indic script whose alphabet is used: that of the tag, else derived from the segments
    let block = indic_block(t);
    for (si, seg) in case.segs.iter().enumerate() {
        match seg {
            Seg::Any(r) => out.push(any_scalar(*r)),
            Seg::Joiner(k) => out.push(joiner(*k)),
            Seg::Base(r) => {
                let pool: Vec<char> = match case.family {
                    Family::Arabic => chars(&[0x627, 0x628, 0x644, 0x647, 0x6CC, 0x640, 0x20, 0x712, 0x5D0, 0x621]),
                    Family::Default => chars(&[0x61, 0x65, 0x41, 0x5D0, 0x5D1, 0x5E9, 0xF40, 0x710, 0x712, 0x391, 0x410, 0x3042, 0x915, 0x20]),
                    Family::ThaiLao => {
                        if lao {
                            chars(&[0xE81, 0xE99, 0xEB2, 0xEC0, 0xEAD, 0x61])
                        } else {
                            chars(&[0xE01, 0xE19, 0xE2D, 0xE40, 0xE32, 0x61])
                        }
                    }
                    Family::Indic => {
                        let b = block.unwrap_or(0x900 + 0x80 * (r % 10));
                        chars(&[b + 0x15, b + 0x30, b + 0x2F, b + 0x05, b + 0x06, b + 0x3E, b + 0x3F, b + 0x47, b + 0x02])
                    }
                    Family::Khmer => chars(&[0x1780, 0x179A, 0x17B6, 0x17C1, 0x17C6, 0x17A2]),
                    Family::Myanmar => chars(&[0x1000, 0x1004, 0x101B, 0x102C, 0x1031, 0x1036]),
                };
                out.push(pool[pick(pool.len(), *r)]);
            }
            Seg::Block(r) => {
                let (lo, n) = match case.family {
                    Family::Arabic => [(0x600, 0x100), (0x750, 0x30), (0x8A0, 0x60), (0x700, 0x50)][(r & 3) as usize],
                    Family::Default => [(0x590, 0x70), (0xF00, 0x100), (0x370, 0x90), (0x400, 0x100)][(r & 3) as usize],
                    Family::ThaiLao => {
                        if lao {
                            (0xE80, 0x80)
                        } else {
                            (0xE00, 0x80)
                        }
                    }
                    Family::Indic => (block.unwrap_or(0x900 + 0x80 * ((r >> 8) % 10)), 0x80),
                    Family::Khmer => (0x1780, 0x80),
                    Family::Myanmar => (0x1000, 0xA0),
                };
                out.push(char::from_u32(lo + (r >> 2) % n).unwrap_or('\u{FFFD}'));
            }
            Seg::Marks(rs) => {
                for r in rs {
                    let c = match case.family {
                        Family::Indic => {
                            let b = block.unwrap_or(0x900);
                            let p = chars(&[b + 0x3C, b + 0x4D, b + 0x3C, b + 0x4D, 0x951, 0x952, 0x1CD0, 0x1CDC, 0xC55, 0xC56, 0x93C, 0x9BC, 0xDCA, 0xA8F1]);
                            if r >> 29 == 7 {
                                let g = all_marks();
                                g[pick(g.len(), r << 3)]
                            } else {
                                p[pick(p.len(), r << 3)]
                            }
                        }
                        Family::Khmer => {
                            let p = chars(&[0x17D2, 0x17DD, 0x17D2, 0x17DD, 0x300, 0x323]);
                            if r >> 29 == 7 {
                                let g = all_marks();
                                g[pick(g.len(), r << 3)]
                            } else {
                                p[pick(p.len(), r << 3)]
                            }
                        }
                        Family::Myanmar => {
                            let p = chars(&[0x1037, 0x1039, 0x103A, 0x108D, 0x1037, 0x103A]);
                            if r >> 29 == 7 {
                                let g = all_marks();
                                g[pick(g.len(), r << 3)]
                            } else {
                                p[pick(p.len(), r << 3)]
                            }
                        }
                        f => render_mark(f, lao, *r),
                    };
                    out.push(c);
                }
            }
            Seg::Special(k, a, b) => {
                let seed = ((*a as u64) << 32 | *b as u64) ^ (si as u64);
                special(case.family, t, *k, *a, *b, seed, &mut out);
            }
        }
    }
    out.truncate(MAX_LEN);
    out
}

fn special(family: Family, t: u32, k: u8, a: u32, b: u32, seed: u64, out: &mut Vec<char>) {
    match family {
        Family::Arabic => {
            let hot = chars(&[0x651, 0x651, 0x654, 0x655, 0x64E, 0x650, 0x653, 0x65C, 0x658, 0x6E3, 0x8F3, 0x8CF]);
            match k % 4 {
                0 => {
                    out.push('\u{0628}');
                    out.extend(seq(&hot, (a % 12) as usize + 2, seed));
                }
                1 => {
                    // MCM not first in its class, or first: both orders
                    let v: &[u32] = match a % 6 {
                        0 => &[0x653, 0x654],
                        1 => &[0x654, 0x653],
                        2 => &[0x65C, 0x655],
                        3 => &[0x655, 0x65C],
                        4 => &[0x655, 0x654, 0x651],
                        _ => &[0x64E, 0x651, 0x654, 0x655, 0x651],
                    };
                    out.push('\u{0644}');
                    out.extend(chars(v));
                }
                2 => {
                    // long run with several shaddas
                    out.push('\u{0627}');
                    let mut pool = arabic_marks().clone();
                    pool.extend([SHADDA; 6]);
                    out.extend(seq(&pool, 18 + (a % 14) as usize, seed));
                }
                _ => {
                    // marks at the very start of the text
                    if out.is_empty() {
                        out.extend(seq(&hot, (a % 6) as usize + 1, seed));
                    }
                    out.push('\u{0628}');
                }
            }
        }
        Family::Default => match k % 4 {
            0 => {
                out.push('\u{05D1}');
                let pool: Vec<char> = (0x5B0u32..=0x5BD).chain([0x5BF, 0x5C1, 0x5C2, 0x5C7, 0x591, 0x5AB]).filter_map(char::from_u32).collect();
                out.extend(seq(&pool, (a % 7) as usize + 2, seed));
            }
            1 => {
                out.push('\u{0F40}');
                out.extend(seq(&chars(&[0xF71, 0xF72, 0xF74, 0xF7A, 0xF80, 0xF39, 0xF18]), (a % 5) as usize + 2, seed));
            }
            2 => {
                out.push('a');
                out.extend(seq(&chars(&[0x300, 0x301, 0x323, 0x327, 0x31B, 0x334, 0x345, 0x35C, 0x360, 0x315]), (a % 20) as usize + 2, seed));
            }
            _ => {
                out.push('\u{0712}');
                out.extend(seq(&chars(&[0x711, 0x730, 0x731, 0x732, 0x73A, 0x748, 0x651, 0x654]), (a % 6) as usize + 2, seed));
            }
        },
        Family::ThaiLao => {
            let lao = (t == tag(b"lao ")) != (b & 15 == 0);
            let (cons, am, nik, aa, tones, below, phinthu) = if lao {
                ('\u{0E81}', '\u{0EB3}', '\u{0ECD}', '\u{0EB2}', chars(&[0xEC8, 0xEC9, 0xECA, 0xECB, 0xEB4, 0xEB1, 0xEBB, 0xECC, 0xECD]), chars(&[0xEB8, 0xEB9, 0xEBC]), '\u{0EBA}')
            } else {
                ('\u{0E01}', '\u{0E33}', '\u{0E4D}', '\u{0E32}', chars(&[0xE48, 0xE49, 0xE4A, 0xE4B, 0xE34, 0xE31, 0xE47, 0xE4C, 0xE4D]), chars(&[0xE38, 0xE39]), '\u{0E3A}')
            };
            match k % 6 {
                0 => {
                    out.extend(seq(&tones, (a % 5) as usize, seed));
                    out.push(am);
                }
                1 => {
                    out.push(cons);
                    out.push(tones[(a % 4) as usize]);
                    out.push(am);
                    out.push(cons);
                    out.push(am);
                }
                2 => {
                    for _ in 0..(a % 4 + 1) {
                        out.push(am);
                    }
                }
                3 => {
                    out.push(cons);
                    let mut pool = tones.clone();
                    pool.extend(below.iter());
                    pool.push(phinthu);
                    out.extend(seq(&pool, (a % 6) as usize, seed));
                    out.push(am);
                    out.push(tones[(b % 4) as usize]);
                }
                4 => {
                    out.push(cons);
                    out.push(phinthu);
                    out.push(below[(a as usize) % below.len()]);
                    if a & 16 != 0 {
                        out.push(tones[(b % 4) as usize]);
                    }
                }
                _ => {
                    out.push(cons);
                    out.extend(seq(&tones[..4], (a % 3) as usize, seed));
                    out.push(nik);
                    out.push(aa);
                }
            }
        }
        Family::Indic => {
            let block = indic_block(t);
            let own = |c: char| block.map_or(true, |bl| (c as u32) >= bl && (c as u32) < bl + 0x80);
            let cons = char::from_u32(block.unwrap_or(0x900) + 0x15).unwrap();
            // kinds 10 and 11: the rewrite that belongs to the tag's own script
            let k = match (k, rm::classify_tag(t)) {
                (10 | 11, ScriptClass::Indic(rm::Indic::Bengali)) => 4,
                (10 | 11, ScriptClass::Indic(rm::Indic::Kannada)) => {
                    if out.is_empty() {
                        5
                    } else {
                        0
                    }
                }
                (10, _) => 0,
                (11, _) => 1,
                (k, _) => k,
            };
            match k % 10 {
                0 => {
                    let splits: Vec<char> = rm::INDIC_SPLITS.iter().map(|s| s.0).collect();
                    let mine: Vec<char> = splits.iter().copied().filter(|c| own(*c)).collect();
                    let pool = if b % 4 != 0 && !mine.is_empty() { &mine } else { &splits };
                    if a & 1 == 0 {
                        out.push(cons);
                    }
                    out.push(pool[pick(pool.len(), a)]);
                }
                1 | 2 => {
                    let pairs: Vec<(char, char)> = rm::PROHIBITED_PAIRS.iter().map(|p| (p.0, p.1)).collect();
                    let mine: Vec<(char, char)> = pairs.iter().copied().filter(|p| own(p.0)).collect();
                    let pool = if b % 4 != 0 && !mine.is_empty() { &mine } else { &pairs };
                    let (c1, c2) = pool[pick(pool.len(), a)];
                    if k % 10 == 1 {
                        out.push(c1);
                        out.push(c2);
                    } else {
                        match b % 5 {
                            0 => out.extend([c1, c1, c2]),
                            1 => out.extend([c1, c2, c2]),
                            2 => out.extend([c1, c2, c1, c2]),
                            3 => out.extend([cons, c1, c2, cons]),
                            _ => out.extend([c2, c1, c2]),
                        }
                    }
                }
                3 => match a % 4 {
                    0 => out.extend(rm::REPH_I),
                    1 => out.extend(chars(&[0x930, 0x94D, 0x93C, 0x907])),
                    2 => out.extend(chars(&[0x915, 0x930, 0x94D, 0x907, 0x907])),
                    _ => out.extend(chars(&[0x930, 0x94D, 0x930, 0x94D, 0x907])),
                },
                4 => match a % 6 {
                    0 => out.extend(chars(&[0x9AF, 0x9BC])),
                    1 => out.extend(chars(&[0x9AF, 0x9BC, 0x9BC])),
                    2 => out.extend(chars(&[0x9AF, 0x9CD, 0x9BC])),
                    3 => out.extend(chars(&[0x9AF, 0x951, 0x9BC, 0x9AF, 0x9BC])),
                    4 => out.extend(chars(&[0x9AF, 0x9AF, 0x9BC, 0x9CB])),
                    _ => out.extend(chars(&[0x9AF, 0xC55, 0x9BC])),
                },
                5 => {
                    if a % 3 == 0 && !out.is_empty() {
                        out.push('\u{0C95}');
                    }
                    out.extend(chars(&[0xCB0, 0xCCD, 0x200D]));
                    if a % 2 == 0 {
                        out.push('\u{0C95}');
                    }
                }
                6 => match a % 5 {
                    0 => out.extend(chars(&[0xA85, 0xAC5, 0xABE])),
                    1 => out.extend(chars(&[0xA85, 0xABE, 0xAC5])),
                    2 => out.extend(chars(&[0xA85, 0xABE, 0xAC8])),
                    3 => out.extend(chars(&[0xAC5, 0xABE])),
                    _ => out.extend(chars(&[0xA95, 0xAC5, 0xABE, 0xABE])),
                },
                7 => out.extend(chars(&[0xB85, 0xBC2])),
                8 => {
                    let bl = block.unwrap_or(0x900);
                    out.push(cons);
                    out.extend(seq(&chars(&[bl + 0x4D, bl + 0x3C, 0x951, 0x952, 0xC55, 0xC56]), (a % 5) as usize + 2, seed));
                }
                _ => match a % 5 {
                    0 => out.extend(chars(&[0xD91, 0xDDA])),
                    1 => out.extend(chars(&[0xD0E, 0xD4A])),
                    2 => out.extend(chars(&[0x985, 0x9CB])),
                    3 => out.extend(chars(&[0xD91, 0xDDD, 0xDCA])),
                    _ => out.extend(chars(&[0xC12, 0xC48, 0xC55])),
                },
            }
        }
        Family::Khmer => match k % 4 {
            0 => {
                out.push('\u{1780}');
                out.push(rm::KHMER_SPLITS[(a % 5) as usize]);
            }
            1 => {
                out.extend(chars(&[0x1780, 0x17D2, 0x179A]));
                out.push(rm::KHMER_SPLITS[(a % 5) as usize]);
            }
            2 => out.extend(chars(&[0x1780, 0x17DD, 0x17D2])),
            _ => {
                for i in 0..(a % 4 + 1) {
                    out.push(rm::KHMER_SPLITS[((a >> 3).wrapping_add(i) % 5) as usize]);
                }
            }
        },
        Family::Myanmar => match k % 2 {
            0 => out.extend(chars(&[0x1000, 0x103A, 0x1037])),
            _ => out.extend(chars(&[0x1004, 0x103A, 0x1039, 0x1000, 0x108D, 0x1037])),
        },
    }
}

// ------------------------------------------------------------------------------------------
// the check
// ------------------------------------------------------------------------------------------

fn sorted(cs: &[char]) -> Vec<char> {
    let mut v = cs.to_vec();
    v.sort_unstable();
    v
}

fn starters(cs: &[char]) -> Vec<char> {
    cs.iter().copied().filter(|&c| ccc(c) == 0).collect()
}

fn runs_sorted(got: &[char]) -> Result<(), (usize, usize)> {
    for (s, e) in rm::runs(got, &key) {
        for i in s + 1..e {
            if key(got[i - 1]) > key(got[i]) {
                return Err((s, e));
            }
        }
    }
    Ok(())
}

fn fixture_font() -> &'static Vec<u8> {
    static F: OnceLock<Vec<u8>> = OnceLock::new();
    F.get_or_init(|| {
        let mut f = BasicFont::with_glyphs(12);
        for (i, cp) in [0x20u32, 0x61, 0x627, 0x651, 0xE01, 0xE33, 0xE4D, 0x915, 0x25CC, 0x1780, 0x1F600].iter().enumerate() {
            f.cmap.insert(*cp, i as u16 + 1);
        }
        f.build()
    })
}

fn is_handled_vs(c: char) -> bool {
    matches!(c, '\u{FE00}' | '\u{FE01}' | '\u{FE02}' | '\u{FE0E}' | '\u{FE0F}')
}

fn is_other_vs(c: char) -> bool {
    matches!(c, '\u{FE03}'..='\u{FE0D}' | '\u{E0100}'..='\u{E01EF}' | '\u{180B}'..='\u{180D}' | '\u{180F}')
}

fn check_map_glyphs(t: u32, input: &[char], got: &[char], rec: &mut Rec) -> CaseResult {
    if input.iter().any(|&c| is_other_vs(c)) {
        rec.class("map_glyphs:skipped-unhandled-variation-selector");
        return Ok(());
    }
    let bytes = fixture_font();
    let fd = ReadScope::new(bytes).read::<FontData<'_>>().map_err(|e| fail("fixture-font", format!("{:?}", e)))?;
    let prov = fd.table_provider(0).map_err(|e| fail("fixture-font", format!("{:?}", e)))?;
    let mut font = Font::new(prov).map_err(|e| fail("fixture-font", format!("{:?}", e)))?;
    let text: String = input.iter().collect();
    let glyphs = font.map_glyphs(&text, t, MatchingPresentation::NotRequired);
    let mut unicodes: Vec<char> = Vec::new();
    for g in &glyphs {
        if g.unicodes.len() != 1 || g.glyph_origin != GlyphOrigin::Char(g.unicodes[0]) {
            return Err(fail(
                "map-glyphs-unicodes",
                format!("tag {} text [{}]: glyph with unicodes {:?} origin {:?}", tag_str(t), show(input), g.unicodes, g.glyph_origin),
            ));
        }
        unicodes.push(g.unicodes[0]);
    }
    let exp: Vec<char> = got.iter().copied().filter(|&c| !is_handled_vs(c)).collect();
    if unicodes != exp {
        return Err(fail(
            "map-glyphs-unicodes",
            format!("tag {} text [{}]: map_glyphs unicodes [{}] but preprocess_text gives [{}]", tag_str(t), show(input), show(&unicodes), show(&exp)),
        ));
    }
    Ok(())
}

/// The whole oracle for one (tag, text).
pub fn check_text(t: u32, input: &[char], with_font: bool, rec: &mut Rec) -> CaseResult {
    let class = rm::classify_tag(t);
    let kannada = class == ScriptClass::Indic(rm::Indic::Kannada);
    let mut got = input.to_vec();
    preprocess_text(&mut got, t);
    let ctx = |what: &str| format!("tag {} input [{}] output [{}]: {}", tag_str(t), show(input), show(&got), what);

    // ---- layer 1 first half: reference and accepted variants (needed for attribution) -------
    let (exp, tr) = rm::reference(input, t, &key, Variant::PRIMARY);
    let mut matched = got == exp;
    let mut ambiguous: Vec<&'static str> = Vec::new();
    {
        let mut try_variant = |v: Variant, name: &'static str, ambiguous: &mut Vec<&'static str>| {
            let (alt, _) = rm::reference(input, t, &key, v);
            if alt != exp {
                ambiguous.push(name);
                if got == alt {
                    matched = true;
                }
            }
        };
        match class {
            ScriptClass::Indic(s) => {
                try_variant(Variant { rescan_second_of_pair: true, ..Variant::PRIMARY }, "ambiguous:overlapping-prohibited-pairs", &mut ambiguous);
                if s == rm::Indic::Kannada {
                    try_variant(Variant { kannada_swap_everywhere: true, ..Variant::PRIMARY }, "ambiguous:kannada-ra-halant-zwj-not-at-text-start", &mut ambiguous);
                }
            }
            ScriptClass::ThaiLao => {
                try_variant(Variant { lao_0ece_above: true, ..Variant::PRIMARY }, "ambiguous:lao-0ECE-above-base", &mut ambiguous);
            }
            _ => {}
        }
    }
    // later-revision pairs (Tamil A + UU): a circle there is tolerated
    if let ScriptClass::Indic(_) = class {
        if !matched && input.windows(2).any(|w| rm::LATER_PAIRS.contains(&(w[0], w[1]))) {
            let mut patched: Vec<char> = Vec::new();
            for (i, &c) in input.iter().enumerate() {
                patched.push(c);
                if i + 1 < input.len() && rm::LATER_PAIRS.contains(&(c, input[i + 1])) {
                    // private-use stand-in that nothing rewrites; replaced by the circle below
                    patched.push('\u{F8FF}');
                }
            }
            if !input.contains(&'\u{F8FF}') {
                let (alt, _) = rm::reference(&patched, t, &key, Variant::PRIMARY);
                let alt: Vec<char> = alt.into_iter().map(|c| if c == '\u{F8FF}' { rm::DOTTED_CIRCLE } else { c }).collect();
                if alt == got {
                    matched = true;
                    ambiguous.push("ambiguous:later-revision-pair");
                }
            }
        }
    }
    // defect model: the known Thai/Lao AM-vowel loop bound
    if !matched && class == ScriptClass::ThaiLao {
        let (def, _) = rm::reference(input, t, &key, Variant { defect_am_scan_uses_entry_length: true, ..Variant::PRIMARY });
        if def != exp && got == def {
            return Err(Fail::new(
                SIG_AM_DEFECT,
                ctx(&format!("documented result [{}]; output equals the model in which the AM-vowel scan stops at the entry length", show(&exp))),
            ));
        }
    }

    // ---- layer 2: relational invariants ---------------------------------------------------
    match class {
        ScriptClass::Default | ScriptClass::Syriac | ScriptClass::Arabic | ScriptClass::Myanmar => {
            if got.len() != input.len() {
                return Err(fail("length-changed", ctx("length changed for a script without decompositions")));
            }
            for i in 0..input.len() {
                if ccc(input[i]) == 0 && got[i] != input[i] {
                    return Err(fail("base-moved", ctx(&format!("index {}: a character of canonical class 0 did not keep its position", i))));
                }
            }
            for (s, e) in rm::runs(input, &ccc) {
                if sorted(&got[s..e]) != sorted(&input[s..e]) {
                    return Err(fail("mark-left-run", ctx(&format!("run {}..{} is not a permutation of itself", s, e))));
                }
            }
            match class {
                ScriptClass::Myanmar => {
                    if got != input {
                        return Err(fail("myanmar-changed", ctx("Myanmar text is documented as not preprocessed")));
                    }
                }
                ScriptClass::Arabic => {
                    // whatever AMTRA moves, the marks that are neither shadda nor MCM stay stably sorted
                    for (s, e) in rm::runs(input, &key) {
                        let movable = |c: char| ccc(c) == 33 || rm::is_mcm(c);
                        let mut rest: Vec<char> = input[s..e].iter().copied().filter(|&c| !movable(c)).collect();
                        rm::stable_sort_by_key(&mut rest, &key);
                        let got_rest: Vec<char> = got[s..e].iter().copied().filter(|&c| !movable(c)).collect();
                        if rest != got_rest {
                            return Err(fail(
                                "arabic-ordinary-marks-not-stably-sorted",
                                ctx(&format!("run {}..{}: marks other than shadda/MCM should be [{}]", s, e, show(&rest))),
                            ));
                        }
                    }
                }
                _ => {
                    for (s, e) in rm::runs(input, &key) {
                        let mut r = input[s..e].to_vec();
                        rm::stable_sort_by_key(&mut r, &key);
                        if r[..] != got[s..e] {
                            return Err(fail("run-not-stably-sorted", ctx(&format!("run {}..{} should be [{}]", s, e, show(&r)))));
                        }
                    }
                }
            }
        }
        ScriptClass::ThaiLao => {
            let mut expanded: Vec<char> = Vec::new();
            for &c in input {
                match rm::am_split(c) {
                    Some((n, a)) => expanded.extend([n, a]),
                    None => expanded.push(c),
                }
            }
            if sorted(&got) != sorted(&expanded) {
                return Err(fail("thai-lao-content", ctx("content differs from the input with every AM vowel split")));
            }
            let no_nik = |v: &[char]| -> Vec<char> { starters(v).into_iter().filter(|&c| c != '\u{0E4D}' && c != '\u{0ECD}').collect() };
            if no_nik(&got) != no_nik(&expanded) {
                return Err(fail("thai-lao-base-order", ctx("characters of class 0 (other than nikhahit) changed their relative order")));
            }
            // the Kannada swap is applied after the reordering: judge sortedness with it undone
            let mut unswapped = got.clone();
            if kannada && unswapped.starts_with(&[rm::KANNADA_RA, rm::ZWJ, rm::KANNADA_HALANT]) {
                unswapped.swap(1, 2);
            }
            if let Err((s, e)) = runs_sorted(&unswapped) {
                return Err(fail("run-not-sorted", ctx(&format!("output run {}..{} is not sorted by modified class", s, e))));
            }
        }
        ScriptClass::Khmer => {
            let mut expanded: Vec<char> = Vec::new();
            for &c in input {
                if rm::KHMER_SPLITS.contains(&c) {
                    expanded.push(rm::KHMER_SIGN_E);
                }
                expanded.push(c);
            }
            if sorted(&got) != sorted(&expanded) {
                return Err(fail("khmer-content", ctx("content differs from the input with every split vowel prefixed by U+17C1")));
            }
            if starters(&got) != starters(&expanded) {
                return Err(fail("khmer-base-order", ctx("characters of class 0 changed their relative order")));
            }
            // the Kannada swap is applied after the reordering: judge sortedness with it undone
            let mut unswapped = got.clone();
            if kannada && unswapped.starts_with(&[rm::KANNADA_RA, rm::ZWJ, rm::KANNADA_HALANT]) {
                unswapped.swap(1, 2);
            }
            if let Err((s, e)) = runs_sorted(&unswapped) {
                return Err(fail("run-not-sorted", ctx(&format!("output run {}..{} is not sorted by modified class", s, e))));
            }
        }
        ScriptClass::Indic(script) => {
            let mut expanded: Vec<char> = Vec::new();
            for &c in input {
                match rm::indic_split(c) {
                    Some(p) => expanded.extend_from_slice(p),
                    None => expanded.push(c),
                }
            }
            let count = |v: &[char], c: char| v.iter().filter(|&&x| x == c).count() as i64;
            let circles = count(&got, rm::DOTTED_CIRCLE) - count(&expanded, rm::DOTTED_CIRCLE);
            let later = input.windows(2).filter(|w| rm::LATER_PAIRS.contains(&(w[0], w[1]))).count() as i64;
            if circles < 0 || circles > rm::constraint_sites(input) as i64 + later {
                return Err(fail(
                    "indic-content",
                    ctx(&format!("{} dotted circles added, but the input has {} prohibited sequences", circles, rm::constraint_sites(input))),
                ));
            }
            let recomposed = count(&got, rm::BENGALI_YYA) - count(&expanded, rm::BENGALI_YYA);
            if recomposed != 0 && (script != rm::Indic::Bengali || recomposed < 0) {
                return Err(fail("indic-content", ctx("U+09DF count changed")));
            }
            // undo the allowed changes and compare contents
            let norm = |v: &[char]| -> Vec<char> {
                let mut o: Vec<char> = Vec::new();
                for &c in v {
                    if c == rm::DOTTED_CIRCLE {
                        continue;
                    }
                    if c == rm::BENGALI_YYA && script == rm::Indic::Bengali {
                        o.extend([rm::BENGALI_YA, rm::BENGALI_NUKTA]);
                    } else {
                        o.push(c);
                    }
                }
                o
            };
            if sorted(&norm(&got)) != sorted(&norm(&expanded)) {
                return Err(fail("indic-content", ctx("content differs from the input by more than splits, dotted circles and ya-nukta recomposition")));
            }
            if starters(&norm(&got)) != starters(&norm(&expanded)) {
                return Err(fail("indic-base-order", ctx("characters of class 0 changed their relative order")));
            }
            // the Kannada swap is applied after the reordering: judge sortedness with it undone
            let mut unswapped = got.clone();
            if kannada && unswapped.starts_with(&[rm::KANNADA_RA, rm::ZWJ, rm::KANNADA_HALANT]) {
                unswapped.swap(1, 2);
            }
            if let Err((s, e)) = runs_sorted(&unswapped) {
                return Err(fail("run-not-sorted", ctx(&format!("output run {}..{} is not sorted by modified class", s, e))));
            }
        }
    }

    // ---- layer 1: equality with the documented steps -----------------------------------------
    if !matched {
        let sig = match class {
            ScriptClass::Arabic => "arabic-amtra-mismatch",
            ScriptClass::ThaiLao => "thai-lao-reference-mismatch",
            ScriptClass::Indic(_) => "indic-reference-mismatch",
            ScriptClass::Khmer => "khmer-reference-mismatch",
            _ => "reference-mismatch",
        };
        return Err(fail(sig, ctx(&format!("documented steps give [{}]", show(&exp)))));
    }

    // ---- idempotence (scripts whose output contains nothing left to rewrite) -----------------
    if matches!(class, ScriptClass::Default | ScriptClass::Syriac | ScriptClass::Arabic | ScriptClass::Myanmar | ScriptClass::ThaiLao) {
        let mut again = got.clone();
        preprocess_text(&mut again, t);
        if again != got {
            return Err(fail("not-idempotent", ctx(&format!("a second pass gives [{}]", show(&again)))));
        }
    }

    // ---- the same through Font::map_glyphs -------------------------------------------------
    if with_font {
        check_map_glyphs(t, input, &got, rec)?;
    }

    // ---- accounting ---------------------------------------------------------------------------
    // Myanmar: nothing may change, so the informative cases are those a default sort would change
    let myanmar_unsorted = class == ScriptClass::Myanmar && rm::reference(input, tag(b"latn"), &key, Variant::PRIMARY).0 != input;
    rec.set_nontrivial(got != input || myanmar_unsorted);
    rec.hash_bytes(&t.to_be_bytes());
    for c in input {
        rec.hash_bytes(&(*c as u32).to_le_bytes());
    }
    let cname = match class {
        ScriptClass::Default => "script:default",
        ScriptClass::Syriac => "script:syriac",
        ScriptClass::Arabic => "script:arabic",
        ScriptClass::ThaiLao => "script:thai-lao",
        ScriptClass::Indic(_) => "script:indic",
        ScriptClass::Khmer => "script:khmer",
        ScriptClass::Myanmar => "script:myanmar",
    };
    rec.class(cname);
    for a in ambiguous {
        rec.class(a);
    }
    rec.class_if(input.is_empty(), "empty");
    rec.class_if(tr.runs_reordered > 0, "rewrite:run-reordered");
    rec.class_if(tr.runs_reordered > 1, "rewrite:several-runs-reordered");
    rec.class_if(tr.longest_run >= 10, "run>=10");
    rec.class_if(tr.longest_run >= 20, "run>=20");
    rec.class_if(tr.shadda_moved > 0, "rewrite:arabic-shadda-moved");
    rec.class_if(tr.mcm230_moved > 0, "rewrite:arabic-mcm230-moved");
    rec.class_if(tr.mcm220_moved > 0, "rewrite:arabic-mcm220-moved");
    if class == ScriptClass::Arabic {
        let shaddas = input.iter().filter(|&&c| c == SHADDA).count();
        rec.class_if(shaddas >= 2 && input.iter().any(|&c| rm::is_mcm(c)), "arabic:several-shaddas-with-mcm");
    }
    rec.class_if(tr.am_split > 0, "rewrite:am-split");
    rec.class_if(tr.am_split > 1, "rewrite:several-am");
    rec.class_if(tr.am_rotated > 0, "rewrite:am-nikhahit-moved");
    rec.class_if(tr.splits > 0, "rewrite:indic-split-matra");
    rec.class_if(tr.circles > 0, "rewrite:dotted-circle");
    rec.class_if(tr.reph_i > 0, "rewrite:reph-i-circle");
    rec.class_if(tr.ya_nukta > 0, "rewrite:bengali-ya-nukta");
    rec.class_if(tr.kannada_swap > 0, "rewrite:kannada-ra-halant-zwj");
    rec.class_if(tr.khmer_splits > 0, "rewrite:khmer-split");
    rec.class_if(myanmar_unsorted, "myanmar:unsorted-left-alone");
    rec.sample(|| format!("{} [{}] -> [{}]", tag_str(t), show(input), show(&got)));
    Ok(())
}

pub fn check_case(case: &Case, rec: &mut Rec) -> CaseResult {
    let text = render(case);
    let fam_tags = family_tags(case.family);
    rec.class_if(!fam_tags.contains(&case.tag), "tag:foreign-or-arbitrary");
    check_text(case.tag, &text, true, rec)
}

// ------------------------------------------------------------------------------------------
// deterministic enumerations
// ------------------------------------------------------------------------------------------

/// the `idx`-th string over `alphabet` in length-then-lexicographic order (idx 0 = empty)
fn nth_string(alphabet: &[char], mut idx: u64) -> Vec<char> {
    let k = alphabet.len() as u64;
    let mut len = 0u32;
    let mut block = 1u64;
    while idx >= block {
        idx -= block;
        block *= k;
        len += 1;
    }
    let mut v = vec![alphabet[0]; len as usize];
    for i in (0..len as usize).rev() {
        v[i] = alphabet[(idx % k) as usize];
        idx /= k;
    }
    v
}

fn count_strings(k: u64, max_len: u32) -> u64 {
    (0..=max_len).map(|l| k.pow(l)).sum()
}

const CHUNK: u64 = 512;

/// In a multi-text item the attributed known defect must not hide the texts after it: remember
/// it, keep checking, report it at the end of the item. Anything else fails the item at once.
fn keep_known(r: CaseResult, known: &mut Option<Fail>) -> CaseResult {
    match r {
        Err(f) if f.sig == SIG_AM_DEFECT => {
            if known.is_none() {
                *known = Some(f);
            }
            Ok(())
        }
        other => other,
    }
}

fn small_strings(ctx: &mut Ctx, name: &str, alphabet: &'static [u32], max_len: u32, tags: &[u32]) {
    let tags: Vec<u32> = tags.to_vec();
    let alpha = chars(alphabet);
    let total = count_strings(alpha.len() as u64, max_len);
    let chunks = (total + CHUNK - 1) / CHUNK;
    ctx.enumerate(name, chunks, true, move |chunk, rec| {
        let mut m = Multi::default();
        for idx in chunk * CHUNK..((chunk + 1) * CHUNK).min(total) {
            let s = nth_string(&alpha, idx);
            for t in &tags {
                m.check(*t, &s, false)?;
            }
        }
        rec.hash_u64(chunk);
        m.finish(rec)
    });
}

/// Several texts checked inside one enumeration item: per-text records go to a scratch
/// recorder, the item records the totals.
#[derive(Default)]
struct Multi {
    n: u64,
    changed: u64,
    known: Option<Fail>,
}

impl Multi {
    fn check(&mut self, t: u32, text: &[char], with_font: bool) -> CaseResult {
        let mut scratch = Rec::for_fuzz();
        let r = check_text(t, text, with_font, &mut scratch);
        self.n += 1;
        if scratch.nontrivial {
            self.changed += 1;
        }
        keep_known(r, &mut self.known)
    }
    fn finish(self, rec: &mut Rec) -> CaseResult {
        rec.evaluations(self.n.saturating_sub(1));
        rec.set_nontrivial(self.changed > 0);
        rec.class_if(self.changed > 0, "enumerated-item:some-text-changed");
        self.known.map_or(Ok(()), Err)
    }
}

fn mcc_table(ctx: &mut Ctx) {
    ctx.enumerate("mcc-table", 0x110000 / 4096, true, |chunk, rec| {
        let mut marks = 0u64;
        for cp in chunk as u32 * 4096..(chunk as u32 + 1) * 4096 {
            let c = match char::from_u32(cp) {
                Some(c) => c,
                None => continue,
            };
            let class = ccc(c);
            let k = key(c);
            if (class == 0) != (k == 0) {
                // canonical class 0 must never be reordered; a non-zero class the library
                // declines to reorder is not a violation but changes what a "run" is
                if class == 0 {
                    return Err(fail("mcc-nonzero-for-starter", format!("U+{:04X}: canonical class 0 but modified class {}", cp, k)));
                }
                rec.class("mcc:nonstarter-not-reordered");
            }
            if class != 0 {
                marks += 1;
                let (doc, open) = rm::doc_mcc_of_class(class);
                if k != doc {
                    if open {
                        rec.class(&format!("mcc:documents-differ-ccc{}", class));
                    } else {
                        return Err(fail(
                            "mcc-differs-from-documents",
                            format!("U+{:04X} (ccc {}): modified class {} but the shaping documents give {}", cp, class, k, doc),
                        ));
                    }
                }
            }
        }
        rec.evaluations(marks);
        rec.set_nontrivial(marks > 0);
        rec.hash_u64(chunk);
        Ok(())
    });
}

fn tables_sweep(ctx: &mut Ctx) {
    // every prohibited pair, reph+I, every split matra, the Khmer splits and the special
    // sequences, each in several contexts, under every Indic tag (+ khmr, + a default tag)
    let mut items: Vec<Vec<char>> = Vec::new();
    for p in rm::PROHIBITED_PAIRS.iter() {
        let (a, b) = (p.0, p.1);
        let cons = char::from_u32((a as u32 & !0x7F) + 0x15).unwrap();
        items.push(vec![a, b]);
        items.push(vec![cons, a, b]);
        items.push(vec![a, b, a, b]);
        items.push(vec![a, a, b]);
        items.push(vec![a, b, b]);
        items.push(vec![a, b, cons, a, b, cons]);
        items.push(vec![b, a]);
        items.push(vec![a, '\u{200D}', b]);
        for q in rm::PROHIBITED_PAIRS.iter() {
            if q.0 == b {
                items.push(vec![a, b, q.1]);
            }
        }
    }
    items.push(rm::REPH_I.to_vec());
    items.push(chars(&[0x915, 0x930, 0x94D, 0x907]));
    items.push(chars(&[0x930, 0x94D, 0x907, 0x930, 0x94D, 0x907]));
    items.push(chars(&[0x930, 0x94D, 0x93C, 0x907]));
    items.push(chars(&[0x930, 0x94D]));
    items.push(chars(&[0xB85, 0xBC2]));
    for s in rm::INDIC_SPLITS.iter() {
        let c = s.0;
        let cons = char::from_u32((c as u32 & !0x7F) + 0x15).unwrap();
        let nukta = char::from_u32((c as u32 & !0x7F) + 0x3C).unwrap();
        let virama = char::from_u32((c as u32 & !0x7F) + 0x4D).unwrap();
        items.push(vec![c]);
        items.push(vec![cons, c]);
        items.push(vec![cons, c, c]);
        items.push(vec![cons, c, cons, c, cons, c]);
        items.push(vec![cons, c, nukta]);
        items.push(vec![cons, virama, nukta, c, virama, nukta]);
        for t in rm::INDIC_SPLITS.iter() {
            items.push(vec![c, t.0]);
        }
    }
    for c in rm::KHMER_SPLITS.iter() {
        items.push(vec![*c]);
        items.push(vec![*c, *c]);
        items.push(chars(&[0x1780, *c as u32, 0x17D2, 0x179A, *c as u32]));
        items.push(chars(&[0x1780, 0x17DD, 0x17D2, *c as u32, 0x17DD, 0x17D2]));
    }
    for v in [
        &[0x9AFu32, 0x9BC][..],
        &[0x9AF, 0x9BC, 0x9BC],
        &[0x9AF, 0x9BC, 0x9AF, 0x9BC],
        &[0x9AF, 0x9CD, 0x9BC],
        &[0x9AF, 0x9AF, 0x9BC],
        &[0x9AF, 0x9BC, 0x9CB],
        &[0x9DF, 0x9BC],
        &[0xCB0, 0xCCD, 0x200D],
        &[0xCB0, 0xCCD, 0x200D, 0xC95],
        &[0xC95, 0xCB0, 0xCCD, 0x200D, 0xC95],
        &[0xCB0, 0xCCD, 0x200D, 0xCB0, 0xCCD, 0x200D],
        &[0xCB0, 0x200D, 0xCCD],
        &[0xCB0, 0xCCD, 0xCBC, 0x200D],
        &[0xCB0, 0xCCD, 0x200C],
    ] {
        items.push(chars(v));
    }
    let mut tags: Vec<u32> = INDIC_TAGS[..10].to_vec();
    tags.extend([tag(b"khmr"), tag(b"latn"), tag(b"dev2"), tag(b"thai"), tag(b"arab"), tag(b"mymr")]);
    let n = items.len() as u64;
    ctx.enumerate("tables-sweep", n, true, move |i, rec| {
        let mut m = Multi::default();
        for t in &tags {
            m.check(*t, &items[i as usize], true)?;
        }
        rec.hash_u64(i);
        m.finish(rec)
    });
}

// alphabets of the exhaustive small-string sweeps
const ARABIC_SMALL: &[u32] = &[0x628, 0x651, 0x654, 0x655, 0x64E, 0x650, 0x653, 0x65C];
const THAI_SMALL: &[u32] = &[0xE01, 0xE48, 0xE33, 0xE34, 0xE38, 0xE3A, 0xE4D];
const LAO_SMALL: &[u32] = &[0xE81, 0xEC8, 0xEB3, 0xEB4, 0xEB8, 0xEBA, 0xECD];
const HEBREW_SMALL: &[u32] = &[0x5D1, 0x5B0, 0x5B4, 0x5BC, 0x5BD, 0x5C1, 0x591, 0x5AB];
const MIXED_SMALL: &[u32] = &[0x61, 0x301, 0x323, 0x334, 0x93C, 0x94D, 0xC55, 0xE38, 0xE3A, 0xF72, 0xF74];
const INDIC_SMALL: &[u32] = &[0x9AF, 0x9BC, 0x9CD, 0x9CB, 0x985, 0x9BE, 0x9DF];
const KNDA_SMALL: &[u32] = &[0xCB0, 0xCCD, 0x200D, 0xC95, 0xCCB, 0xCBC];

impl Property for C17 {
    fn id(&self) -> &'static str {
        "C17"
    }
    fn rule(&self) -> String {
        "proptest builds texts of 0-48 scalars from up to 8 segments (script base letters, block characters, mark runs of 1-30 marks drawn from \
         script-focused pools and from all ~900 characters of non-zero canonical class, script-specific rewrite triggers: shadda/MCM mixes, \
         SARA AM after tone marks, every split matra, every prohibited vowel pair, reph+I, ya+nukta chains, ra+halant+ZWJ, Khmer split vowels; \
         joiners, arbitrary BMP/astral scalars) under a script tag (family tags 14/16, any dispatched tag 1/16, arbitrary u32 1/16); six sections, one per \
         script family. Exhaustive enumerations: all strings up to length 5-6 over small Arabic, Thai, Lao, Hebrew, Bengali, Kannada and mixed alphabets, \
         every table row (pairs, splits) in several contexts under every Indic tag, and the modified-combining-class table over all code points. \
         Each (tag, text) is run through scripts::preprocess_text and Font::map_glyphs and checked against relational invariants \
         (content, immobility of canonical-class-0 characters, marks confined to their run, stable order by the library's modified class) and for equality \
         with a reference transcription of the documented steps. Non-trivial = preprocessing changed the text (a run had an inversion or a documented \
         rewrite applied); distinct by hash of (tag, text)."
            .to_string()
    }
    fn assumptions(&self) -> Vec<String> {
        vec![
            "canonical combining classes come from the unicode-canonical-combining-class crate (Unicode 16), the same data source the library uses; the modified class used as sort key is the library's own public function, compared separately with the documented table".into(),
            "accepted either way (counted as ambiguous:*): rescanning the second member of a prohibited pair (U+0A85 U+0AC5 U+0ABE), Kannada ra+halant+ZWJ away from the text start, U+0ECE as above-base mark, Tamil U+0B85 U+0BC2 from later revisions of the constraint table".into(),
            "Indic2 tags (dev2, ...) are treated as unknown tags (default reordering only): callers pass Indic1 tags".into(),
            "map_glyphs comparison skips texts containing variation selectors other than VS1-3, VS15, VS16".into(),
        ]
    }
    fn run(&self, ctx: &mut Ctx) {
        // harness self-test of the reference against examples printed in the documents
        ctx.enumerate("reference-selftest", 1, true, |_, rec| {
            rm::self_test();
            rec.nontrivial();
            rec.hash_u64(0);
            Ok(())
        });
        mcc_table(ctx);
        tables_sweep(ctx);
        let q = |ctx: &Ctx, quick: u64, thorough: u64| ctx.cases(quick, thorough);
        let n = q(ctx, 140_000, 2_200_000);
        ctx.section("arabic", n, case_strategy(Family::Arabic), check_case);
        let n = q(ctx, 120_000, 2_000_000);
        ctx.section("default-syriac", n, case_strategy(Family::Default), check_case);
        let n = q(ctx, 120_000, 2_000_000);
        ctx.section("thai-lao", n, case_strategy(Family::ThaiLao), check_case);
        let n = q(ctx, 160_000, 2_800_000);
        ctx.section("indic", n, case_strategy(Family::Indic), check_case);
        let n = q(ctx, 40_000, 700_000);
        ctx.section("khmer", n, case_strategy(Family::Khmer), check_case);
        let n = q(ctx, 20_000, 300_000);
        ctx.section("myanmar", n, case_strategy(Family::Myanmar), check_case);
        // beyond the 0-48 scalars of the other sections: very long mark runs (sorting code paths
        // that differ for long slices), Arabic pool with many shaddas, under three tags
        let n = q(ctx, 12_000, 200_000);
        ctx.section(
            "long-runs",
            n,
            (0u8..4, proptest::collection::vec(any::<u32>(), 21..160), 0u8..3),
            |(sel, rs, tsel), rec| {
                let mut pool = arabic_marks().clone();
                pool.extend([SHADDA; 8]);
                let mut text: Vec<char> = vec!['\u{0628}'];
                for r in rs {
                    text.push(match sel {
                        0 => pool[pick(pool.len(), *r)],
                        1 => {
                            let g = all_marks();
                            g[pick(g.len(), *r)]
                        }
                        2 => [SHADDA, '\u{0654}', '\u{0655}', '\u{064E}', '\u{0653}', '\u{065C}'][pick(6, *r)],
                        _ => render_mark(Family::Default, false, *r),
                    });
                }
                text.push('\u{0627}');
                let t = [tag(b"arab"), tag(b"latn"), tag(b"syrc")][*tsel as usize];
                rec.class("long-run");
                check_text(t, &text, false, rec)
            },
        );
        // exhaustive small strings
        let deep = ctx.thorough();
        small_strings(ctx, "arabic-small", ARABIC_SMALL, if deep { 7 } else { 6 }, &[tag(b"arab")]);
        small_strings(ctx, "thai-small", THAI_SMALL, if deep { 7 } else { 6 }, &[tag(b"thai")]);
        small_strings(ctx, "lao-small", LAO_SMALL, if deep { 7 } else { 6 }, &[tag(b"lao ")]);
        small_strings(ctx, "hebrew-small", HEBREW_SMALL, if deep { 6 } else { 5 }, &[tag(b"hebr"), tag(b"syrc"), tag(b"arab")]);
        small_strings(ctx, "mixed-small", MIXED_SMALL, if deep { 5 } else { 4 }, &[tag(b"latn"), tag(b"thai"), tag(b"telu"), tag(b"khmr"), tag(b"mymr")]);
        small_strings(ctx, "bengali-small", INDIC_SMALL, if deep { 6 } else { 5 }, &[tag(b"beng"), tag(b"deva")]);
        small_strings(ctx, "kannada-small", KNDA_SMALL, if deep { 6 } else { 5 }, &[tag(b"knda"), tag(b"telu")]);
    }
}

// ------------------------------------------------------------------------------------------
// libFuzzer: bytes → Case (the domain of `case_strategy(family)`, for any of the six families)
// ------------------------------------------------------------------------------------------

/// One mark of a `Seg::Marks` run from two bytes: the top 3 bits select the pool exactly as the
/// top 3 bits of the strategy's u32 do (7 = every character of non-zero canonical class), the
/// other 13 bits become the most significant bits of the index (`pick` reads the high bits; the
/// largest pool has fewer than 8192 members, so every member is reachable).
fn u_mark(u: &mut arbitrary::Unstructured<'_>) -> u32 {
    let x: u16 = u.arbitrary().unwrap_or_default();
    ((x as u32 >> 13) << 29) | ((x as u32 & 0x1FFF) << 16)
}

/// bytes → `Case`. Byte 0: family (the six generated sections `arabic` … `myanmar`); byte 1: tag
/// selector 0..16 as in `case_strategy` (0 = any dispatched tag, 1 = arbitrary u32 tag, else a
/// tag of the family) followed by one index byte (or four bytes for the arbitrary tag); then up
/// to 8 segments, one per remaining group of bytes (an exhausted tape ends the list; reads past
/// the end yield zeros, so every input is a case). Segment kinds carry the strategy's weights.
pub fn case_from_bytes(data: &[u8]) -> arbitrary::Result<Case> {
    let mut u = arbitrary::Unstructured::new(data);
    let family = match u.int_in_range(0u8..=5).unwrap_or(0) {
        0 => Family::Arabic,
        1 => Family::Default,
        2 => Family::ThaiLao,
        3 => Family::Indic,
        4 => Family::Khmer,
        _ => Family::Myanmar,
    };
    let tag = match u.int_in_range(0u8..=15).unwrap_or(2) {
        0 => {
            let all = all_tags();
            all[u.arbitrary::<u8>().unwrap_or_default() as usize % all.len()]
        }
        1 => u.arbitrary::<u32>().unwrap_or_default(),
        _ => {
            let l = family_tags(family);
            l[u.arbitrary::<u8>().unwrap_or_default() as usize % l.len()]
        }
    };
    let mut segs = Vec::new();
    while !u.is_empty() && segs.len() < 8 {
        // weights 3 : 1 : 4 : 4 : 1 : 1
        segs.push(match u.int_in_range(0u8..=13).unwrap_or(0) {
            0..=2 => {
                // `pick` reads the high bits, the Indic block choice `r % 10` the low ones
                let hi: u8 = u.arbitrary().unwrap_or_default();
                let lo: u8 = u.arbitrary().unwrap_or_default();
                Seg::Base((hi as u32) << 24 | lo as u32)
            }
            3 => Seg::Block(u.arbitrary().unwrap_or_default()),
            4..=7 => {
                let n = u.int_in_range(1usize..=30).unwrap_or(1);
                Seg::Marks((0..n).map(|_| u_mark(&mut u)).collect())
            }
            8..=11 => Seg::Special(
                u.int_in_range(0u8..=11).unwrap_or(0),
                u.arbitrary().unwrap_or_default(),
                u.arbitrary().unwrap_or_default(),
            ),
            12 => Seg::Any(u.arbitrary().unwrap_or_default()),
            _ => Seg::Joiner(u.int_in_range(0u8..=8).unwrap_or(0)),
        });
    }
    let case = Case { family, tag, segs };
    if let Some(what) = domain_violation(&case) {
        panic!("C17 case_from_bytes left the domain of case_strategy: {}", what);
    }
    Ok(case)
}

/// The bounds of `case_strategy` / `seg_strategy`, re-stated (asserted on every decoded case).
pub fn domain_violation(c: &Case) -> Option<&'static str> {
    if c.segs.len() > 8 {
        return Some("more than 8 segments");
    }
    for s in &c.segs {
        match s {
            Seg::Marks(v) if v.is_empty() || v.len() > 30 => return Some("mark run outside 1..=30"),
            Seg::Special(k, _, _) if *k >= 12 => return Some("special kind outside 0..12"),
            Seg::Joiner(k) if *k >= 9 => return Some("joiner outside 0..9"),
            _ => {}
        }
    }
    None
}
