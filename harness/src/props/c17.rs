//! C17 — not built yet.
use crate::engine::{Ctx, Property};

pub struct C17;

impl Property for C17 {
    fn id(&self) -> &'static str {
        "C17"
    }
    fn rule(&self) -> String {
        "not implemented".to_string()
    }
    fn run(&self, _ctx: &mut Ctx) {}
}
