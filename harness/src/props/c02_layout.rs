//! C02 helper: an independent, deliberately forgiving reader of GSUB / GPOS (written from the
//! OpenType specification, no allsorts code) that descends into every lookup subtable (also
//! through Extension lookups) and records
//!  * *anchors*: the position, width and kind of every count / offset / format / class / index
//!    field it can locate — the targets of the "structural field := boundary value" faults;
//!  * per lookup a few *glyph sequences that reach it* (a covered glyph followed by ligature
//!    components, second glyphs of pairs, marks after bases / ligatures, contextual input ...);
//!  * *producers*: (output glyph <- input glyphs) of single / multiple / ligature substitutions,
//!    used to spell glyphs that have no character of their own (ligatures, positional forms).
//! Everything is bounds-checked with `Option`; nothing here can panic on a malformed table.

#[derive(Clone, Copy, Debug, PartialEq, Eq)]
pub enum Kind {
    Count,
    Offset,
    Format,
    Class,
    Index,
    Value,
    ValueFormat,
}

#[derive(Clone, Debug)]
pub struct Anchor {
    /// byte offset inside the table
    pub off: u32,
    /// 2 or 4 bytes
    pub width: u8,
    pub kind: Kind,
    /// lookup the field belongs to (0xFFFF: table header / script / feature lists)
    pub lookup: u16,
    /// 0: lookup / subtable header or first element of an array; 1: deeper or later elements
    pub depth: u8,
    pub what: &'static str,
}

#[derive(Clone, Debug, Default)]
pub struct LookupInfo {
    /// effective lookup type (Extension resolved)
    pub ty: u16,
    pub flag: u16,
    /// glyph sequences that make the lookup apply (at most 8)
    pub seqs: Vec<Vec<u16>>,
    /// feature tags that reference this lookup
    pub features: Vec<u32>,
}

#[derive(Clone, Debug, Default)]
pub struct Scan {
    pub anchors: Vec<Anchor>,
    pub lookups: Vec<LookupInfo>,
    pub producers: Vec<(u16, Vec<u16>)>,
    pub lang_tags: Vec<u32>,
    pub feature_tags: Vec<u32>,
}

const ANCHOR_CAP: usize = 60_000;
const PRODUCER_CAP: usize = 6_000;
const ITEMS: usize = 6;

struct R<'a> {
    t: &'a [u8],
    gpos: bool,
    anchors: Vec<Anchor>,
    producers: Vec<(u16, Vec<u16>)>,
    lookup: u16,
    depth: u8,
}

impl<'a> R<'a> {
    fn u16(&self, o: usize) -> Option<usize> {
        self.t.get(o..o.checked_add(2)?).map(|b| u16::from_be_bytes([b[0], b[1]]) as usize)
    }
    fn u32(&self, o: usize) -> Option<usize> {
        self.t.get(o..o.checked_add(4)?).map(|b| u32::from_be_bytes([b[0], b[1], b[2], b[3]]) as usize)
    }
    fn a(&mut self, off: usize, kind: Kind, what: &'static str) {
        self.aw(off, 2, kind, what)
    }
    fn aw(&mut self, off: usize, width: u8, kind: Kind, what: &'static str) {
        if off + width as usize <= self.t.len() && self.anchors.len() < ANCHOR_CAP {
            self.anchors.push(Anchor { off: off as u32, width, kind, lookup: self.lookup, depth: self.depth, what });
        }
    }
    /// read an offset field at `at` (relative to `base`), record it, return the target
    fn off(&mut self, at: usize, base: usize, what: &'static str) -> Option<usize> {
        let v = self.u16(at)?;
        self.a(at, Kind::Offset, what);
        if v == 0 {
            None
        } else {
            Some(base + v)
        }
    }
    fn deeper<T>(&mut self, first: bool, f: impl FnOnce(&mut Self) -> T) -> T {
        let d = self.depth;
        if !first {
            self.depth = 1;
        }
        let r = f(self);
        self.depth = d;
        r
    }

    /// Coverage table: glyphs (at most `cap`), anchors on format / counts / first records
    fn coverage(&mut self, at: usize, cap: usize) -> Vec<u16> {
        let mut out = Vec::new();
        let fmt = match self.u16(at) {
            Some(f) => f,
            None => return out,
        };
        self.a(at, Kind::Format, "coverage.format");
        self.a(at + 2, Kind::Count, "coverage.count");
        let n = self.u16(at + 2).unwrap_or(0);
        match fmt {
            1 => {
                for i in 0..n.min(cap) {
                    if let Some(g) = self.u16(at + 4 + 2 * i) {
                        out.push(g as u16);
                    }
                    if i < 2 {
                        self.a(at + 4 + 2 * i, Kind::Value, "coverage.glyph");
                    }
                }
            }
            2 => {
                for i in 0..n {
                    let r = at + 4 + 6 * i;
                    let (s, e) = match (self.u16(r), self.u16(r + 2)) {
                        (Some(s), Some(e)) => (s, e),
                        _ => break,
                    };
                    if i < 2 {
                        self.a(r, Kind::Value, "coverage.range.start");
                        self.a(r + 2, Kind::Value, "coverage.range.end");
                        self.a(r + 4, Kind::Index, "coverage.range.startCoverageIndex");
                    }
                    let mut g = s;
                    while g <= e && out.len() < cap {
                        out.push(g as u16);
                        g += 1;
                    }
                    if out.len() >= cap {
                        break;
                    }
                }
            }
            _ => {}
        }
        out
    }

    /// ClassDef: sample of (glyph, class) pairs
    fn classdef(&mut self, at: usize) -> Vec<(u16, u16)> {
        let mut out = Vec::new();
        let fmt = match self.u16(at) {
            Some(f) => f,
            None => return out,
        };
        self.a(at, Kind::Format, "classdef.format");
        match fmt {
            1 => {
                self.a(at + 2, Kind::Value, "classdef.startGlyph");
                self.a(at + 4, Kind::Count, "classdef.glyphCount");
                let (s, n) = (self.u16(at + 2).unwrap_or(0), self.u16(at + 4).unwrap_or(0));
                for i in 0..n.min(512) {
                    if let Some(c) = self.u16(at + 6 + 2 * i) {
                        out.push(((s + i) as u16, c as u16));
                    }
                    if i < 2 {
                        self.a(at + 6 + 2 * i, Kind::Class, "classdef.class");
                    }
                }
            }
            2 => {
                self.a(at + 2, Kind::Count, "classdef.rangeCount");
                let n = self.u16(at + 2).unwrap_or(0);
                for i in 0..n.min(256) {
                    let r = at + 4 + 6 * i;
                    let (s, e, c) = match (self.u16(r), self.u16(r + 2), self.u16(r + 4)) {
                        (Some(s), Some(e), Some(c)) => (s, e, c),
                        _ => break,
                    };
                    if i < 2 {
                        self.a(r, Kind::Value, "classdef.range.start");
                        self.a(r + 2, Kind::Value, "classdef.range.end");
                        self.a(r + 4, Kind::Class, "classdef.range.class");
                    }
                    out.push((s as u16, c as u16));
                    if e > s {
                        out.push((e as u16, c as u16));
                    }
                }
            }
            _ => {}
        }
        out
    }

    fn seq_lookup_records(&mut self, at: usize, n: usize) {
        for i in 0..n.min(ITEMS) {
            self.deeper(i == 0, |r| {
                r.a(at + 4 * i, Kind::Index, "sequenceLookup.sequenceIndex");
                r.a(at + 4 * i + 2, Kind::Index, "sequenceLookup.lookupListIndex");
            });
        }
    }

    fn anchor_table(&mut self, at: usize) {
        self.a(at, Kind::Format, "anchor.format");
        self.a(at + 2, Kind::Value, "anchor.x");
        self.a(at + 4, Kind::Value, "anchor.y");
        match self.u16(at) {
            Some(2) => self.a(at + 6, Kind::Index, "anchor.anchorPoint"),
            Some(3) => {
                self.a(at + 6, Kind::Offset, "anchor.xDeviceOffset");
                self.a(at + 8, Kind::Offset, "anchor.yDeviceOffset");
            }
            _ => {}
        }
    }

    fn class_glyph(classes: &[(u16, u16)], class: usize, fallback: u16) -> u16 {
        classes.iter().find(|(_, c)| *c as usize == class).map(|(g, _)| *g).unwrap_or(fallback)
    }

    // ---- contextual lookups (GSUB 5/6, GPOS 7/8)

    fn context(&mut self, sub: usize, chain: bool, seqs: &mut Vec<Vec<u16>>) {
        let fmt = self.u16(sub).unwrap_or(0);
        self.a(sub, Kind::Format, "context.format");
        match fmt {
            1 | 2 => {
                let cov = self.off(sub + 2, sub, "context.coverageOffset").map(|c| self.coverage(c, 64)).unwrap_or_default();
                let mut hdr = sub + 4;
                let mut cds: Vec<Vec<(u16, u16)>> = Vec::new();
                if fmt == 2 {
                    let n = if chain { 3 } else { 1 };
                    for _ in 0..n {
                        let cd = self.off(hdr, sub, "context.classDefOffset").map(|c| self.classdef(c)).unwrap_or_default();
                        cds.push(cd);
                        hdr += 2;
                    }
                }
                self.a(hdr, Kind::Count, "context.ruleSetCount");
                let nsets = self.u16(hdr).unwrap_or(0);
                let first = cov.first().copied().unwrap_or(0);
                for i in 0..nsets.min(if fmt == 2 { 12 } else { ITEMS }) {
                    let set = match self.deeper(i == 0, |r| r.off(hdr + 2 + 2 * i, sub, "context.ruleSetOffset")) {
                        Some(s) => s,
                        None => continue,
                    };
                    self.deeper(i == 0, |r| {
                        r.a(set, Kind::Count, "ruleSet.ruleCount");
                        let nrules = r.u16(set).unwrap_or(0);
                        for j in 0..nrules.min(3) {
                            let rule = match r.deeper(j == 0, |r| r.off(set + 2 + 2 * j, set, "ruleSet.ruleOffset")) {
                                Some(x) => x,
                                None => continue,
                            };
                            r.deeper(j == 0, |r| {
                                // first glyph of the sequence
                                let g0 = if fmt == 1 {
                                    cov.get(i).copied().unwrap_or(first)
                                } else {
                                    let cd = if chain { cds.get(1) } else { cds.first() };
                                    cov.iter().copied().find(|g| cd.map(|c| c.iter().any(|(cg, cc)| cg == g && *cc as usize == i)).unwrap_or(false)).unwrap_or(first)
                                };
                                let glyph_of = |_r: &R, part: usize, v: usize| -> u16 {
                                    if fmt == 1 {
                                        v as u16
                                    } else {
                                        let cd = if chain { cds.get(part) } else { cds.first() };
                                        Self::class_glyph(cd.map(|c| c.as_slice()).unwrap_or(&[]), v, first)
                                    }
                                };
                                let mut at = rule;
                                let mut back: Vec<u16> = Vec::new();
                                let mut input: Vec<u16> = vec![g0];
                                let mut ahead: Vec<u16> = Vec::new();
                                if chain {
                                    r.a(at, Kind::Count, "chainRule.backtrackGlyphCount");
                                    let nb = r.u16(at).unwrap_or(0);
                                    for k in 0..nb.min(8) {
                                        if let Some(v) = r.u16(at + 2 + 2 * k) {
                                            back.push(glyph_of(r, 0, v));
                                        }
                                    }
                                    at += 2 + 2 * nb;
                                    r.a(at, Kind::Count, "chainRule.inputGlyphCount");
                                    let ni = r.u16(at).unwrap_or(0);
                                    for k in 0..ni.saturating_sub(1).min(8) {
                                        if let Some(v) = r.u16(at + 2 + 2 * k) {
                                            input.push(glyph_of(r, 1, v));
                                        }
                                        if k == 0 {
                                            r.a(at + 2, if fmt == 1 { Kind::Value } else { Kind::Class }, "chainRule.input");
                                        }
                                    }
                                    at += 2 + 2 * ni.saturating_sub(1);
                                    r.a(at, Kind::Count, "chainRule.lookaheadGlyphCount");
                                    let nl = r.u16(at).unwrap_or(0);
                                    for k in 0..nl.min(8) {
                                        if let Some(v) = r.u16(at + 2 + 2 * k) {
                                            ahead.push(glyph_of(r, 2, v));
                                        }
                                    }
                                    at += 2 + 2 * nl;
                                    r.a(at, Kind::Count, "chainRule.seqLookupCount");
                                    let ns = r.u16(at).unwrap_or(0);
                                    r.seq_lookup_records(at + 2, ns);
                                } else {
                                    r.a(at, Kind::Count, "rule.glyphCount");
                                    r.a(at + 2, Kind::Count, "rule.seqLookupCount");
                                    let ni = r.u16(at).unwrap_or(0);
                                    let ns = r.u16(at + 2).unwrap_or(0);
                                    for k in 0..ni.saturating_sub(1).min(8) {
                                        if let Some(v) = r.u16(at + 4 + 2 * k) {
                                            input.push(glyph_of(r, 0, v));
                                        }
                                        if k == 0 {
                                            r.a(at + 4, if fmt == 1 { Kind::Value } else { Kind::Class }, "rule.input");
                                        }
                                    }
                                    r.seq_lookup_records(at + 4 + 2 * ni.saturating_sub(1), ns);
                                }
                                back.reverse();
                                back.extend(input);
                                back.extend(ahead);
                                if seqs.len() < 8 {
                                    seqs.push(back);
                                }
                            });
                        }
                    });
                }
            }
            3 => {
                let mut at = sub + 2;
                let mut parts: Vec<Vec<u16>> = Vec::new();
                let nparts = if chain { 3 } else { 1 };
                let mut ns_at = 0;
                for p in 0..nparts {
                    self.a(at, Kind::Count, "context3.glyphCount");
                    let n = self.u16(at).unwrap_or(0);
                    if !chain {
                        self.a(at + 2, Kind::Count, "context3.seqLookupCount");
                        ns_at = at + 2;
                        at += 2;
                    }
                    let mut gl = Vec::new();
                    for k in 0..n.min(12) {
                        let c = self.deeper(k == 0, |r| r.off(at + 2 + 2 * k, sub, "context3.coverageOffset").map(|c| r.coverage(c, 8)).unwrap_or_default());
                        gl.push(c.get(k % c.len().max(1)).copied().or(c.first().copied()).unwrap_or(0));
                    }
                    at += 2 + 2 * n;
                    if p == 0 && chain {
                        gl.reverse();
                    }
                    parts.push(gl);
                }
                let ns = if chain {
                    self.a(at, Kind::Count, "context3.seqLookupCount");
                    let ns = self.u16(at).unwrap_or(0);
                    at += 2;
                    ns
                } else {
                    self.u16(ns_at).unwrap_or(0)
                };
                self.seq_lookup_records(at, ns);
                let s: Vec<u16> = parts.into_iter().flatten().collect();
                if !s.is_empty() && seqs.len() < 8 {
                    seqs.push(s);
                }
            }
            _ => {}
        }
    }

    // ---- GSUB subtables

    fn gsub_subtable(&mut self, ty: usize, sub: usize, seqs: &mut Vec<Vec<u16>>) {
        let fmt = self.u16(sub).unwrap_or(0);
        match ty {
            1 => {
                self.a(sub, Kind::Format, "singleSubst.format");
                let cov = self.off(sub + 2, sub, "singleSubst.coverageOffset").map(|c| self.coverage(c, 2000)).unwrap_or_default();
                if fmt == 1 {
                    self.a(sub + 4, Kind::Value, "singleSubst.deltaGlyphID");
                    let d = self.u16(sub + 4).unwrap_or(0);
                    for g in &cov {
                        self.producer(((*g as usize + d) & 0xFFFF) as u16, vec![*g]);
                    }
                } else {
                    self.a(sub + 4, Kind::Count, "singleSubst.glyphCount");
                    for (i, g) in cov.iter().enumerate() {
                        if let Some(o) = self.u16(sub + 6 + 2 * i) {
                            self.producer(o as u16, vec![*g]);
                        }
                        if i < 2 {
                            self.a(sub + 6 + 2 * i, Kind::Value, "singleSubst.substitute");
                        }
                    }
                }
                for g in cov.iter().take(3) {
                    if seqs.len() < 8 {
                        seqs.push(vec![*g]);
                    }
                }
            }
            2 | 3 => {
                self.a(sub, Kind::Format, "multipleSubst.format");
                let cov = self.off(sub + 2, sub, "multipleSubst.coverageOffset").map(|c| self.coverage(c, 500)).unwrap_or_default();
                self.a(sub + 4, Kind::Count, "multipleSubst.sequenceCount");
                for (i, g) in cov.iter().enumerate() {
                    let anchors = i < ITEMS;
                    let s = if anchors { self.deeper(i == 0, |r| r.off(sub + 6 + 2 * i, sub, "multipleSubst.sequenceOffset")) } else { self.u16(sub + 6 + 2 * i).map(|v| sub + v) };
                    if let Some(s) = s {
                        if anchors {
                            self.deeper(i == 0, |r| {
                                r.a(s, Kind::Count, "sequence.glyphCount");
                                r.a(s + 2, Kind::Value, "sequence.glyph");
                            });
                        }
                        if ty == 2 {
                            let n = self.u16(s).unwrap_or(0);
                            for k in 0..n.min(4) {
                                if let Some(o) = self.u16(s + 2 + 2 * k) {
                                    self.producer(o as u16, vec![*g]);
                                }
                            }
                        }
                    }
                    if i < 3 && seqs.len() < 8 {
                        seqs.push(vec![*g]);
                    }
                }
            }
            4 => {
                self.a(sub, Kind::Format, "ligatureSubst.format");
                let cov = self.off(sub + 2, sub, "ligatureSubst.coverageOffset").map(|c| self.coverage(c, 500)).unwrap_or_default();
                self.a(sub + 4, Kind::Count, "ligatureSubst.ligatureSetCount");
                for (i, g) in cov.iter().enumerate() {
                    let anchors = i < ITEMS;
                    let set = if anchors { self.deeper(i == 0, |r| r.off(sub + 6 + 2 * i, sub, "ligatureSubst.ligatureSetOffset")) } else { self.u16(sub + 6 + 2 * i).map(|v| sub + v) };
                    let set = match set {
                        Some(s) => s,
                        None => continue,
                    };
                    if anchors {
                        self.deeper(i == 0, |r| r.a(set, Kind::Count, "ligatureSet.ligatureCount"));
                    }
                    let nl = self.u16(set).unwrap_or(0);
                    for j in 0..nl.min(40) {
                        let a2 = anchors && j < 3;
                        let lig = if a2 { self.deeper(i == 0 && j == 0, |r| r.off(set + 2 + 2 * j, set, "ligatureSet.ligatureOffset")) } else { self.u16(set + 2 + 2 * j).map(|v| set + v) };
                        let lig = match lig {
                            Some(l) => l,
                            None => continue,
                        };
                        if a2 {
                            self.deeper(i == 0 && j == 0, |r| {
                                r.a(lig, Kind::Value, "ligature.ligatureGlyph");
                                r.a(lig + 2, Kind::Count, "ligature.componentCount");
                                r.a(lig + 4, Kind::Value, "ligature.component");
                            });
                        }
                        let out = self.u16(lig).unwrap_or(0) as u16;
                        let nc = self.u16(lig + 2).unwrap_or(0);
                        let mut s = vec![*g];
                        for k in 0..nc.saturating_sub(1).min(10) {
                            if let Some(c) = self.u16(lig + 4 + 2 * k) {
                                s.push(c as u16);
                            }
                        }
                        self.producer(out, s.clone());
                        if i < 4 && j < 2 && seqs.len() < 8 {
                            seqs.push(s);
                        }
                    }
                }
            }
            5 => self.context(sub, false, seqs),
            6 => self.context(sub, true, seqs),
            8 => {
                self.a(sub, Kind::Format, "reverseChain.format");
                let cov = self.off(sub + 2, sub, "reverseChain.coverageOffset").map(|c| self.coverage(c, 16)).unwrap_or_default();
                let mut at = sub + 4;
                let mut parts: Vec<Vec<u16>> = Vec::new();
                for p in 0..2 {
                    self.a(at, Kind::Count, "reverseChain.glyphCount");
                    let n = self.u16(at).unwrap_or(0);
                    let mut gl = Vec::new();
                    for k in 0..n.min(8) {
                        let c = self.deeper(k == 0, |r| r.off(at + 2 + 2 * k, sub, "reverseChain.coverageOffset2").map(|c| r.coverage(c, 4)).unwrap_or_default());
                        gl.push(c.first().copied().unwrap_or(0));
                    }
                    if p == 0 {
                        gl.reverse();
                    }
                    parts.push(gl);
                    at += 2 + 2 * n;
                }
                self.a(at, Kind::Count, "reverseChain.substituteCount");
                self.a(at + 2, Kind::Value, "reverseChain.substitute");
                for g in cov.iter().take(2) {
                    let mut s = parts.first().cloned().unwrap_or_default();
                    s.push(*g);
                    s.extend(parts.get(1).cloned().unwrap_or_default());
                    if seqs.len() < 8 {
                        seqs.push(s);
                    }
                }
            }
            _ => {}
        }
    }

    fn producer(&mut self, out: u16, ins: Vec<u16>) {
        if !self.gpos && self.producers.len() < PRODUCER_CAP && !ins.is_empty() {
            self.producers.push((out, ins));
        }
    }

    // ---- GPOS subtables

    fn value_size(fmt: usize) -> usize {
        2 * (fmt & 0xFF).count_ones() as usize
    }

    fn mark_array(&mut self, at: usize) {
        self.a(at, Kind::Count, "markArray.markCount");
        let n = self.u16(at).unwrap_or(0);
        for i in 0..n.min(ITEMS) {
            self.deeper(i == 0, |r| {
                r.a(at + 2 + 4 * i, Kind::Class, "markRecord.markClass");
                if let Some(an) = r.off(at + 4 + 4 * i, at, "markRecord.markAnchorOffset") {
                    if i < 2 {
                        r.anchor_table(an);
                    }
                }
            });
        }
    }

    fn gpos_subtable(&mut self, ty: usize, sub: usize, seqs: &mut Vec<Vec<u16>>) {
        let fmt = self.u16(sub).unwrap_or(0);
        match ty {
            1 => {
                self.a(sub, Kind::Format, "singlePos.format");
                let cov = self.off(sub + 2, sub, "singlePos.coverageOffset").map(|c| self.coverage(c, 8)).unwrap_or_default();
                self.a(sub + 4, Kind::ValueFormat, "singlePos.valueFormat");
                if fmt == 2 {
                    self.a(sub + 6, Kind::Count, "singlePos.valueCount");
                } else {
                    self.a(sub + 6, Kind::Value, "singlePos.value");
                }
                for g in cov.iter().take(3) {
                    if seqs.len() < 8 {
                        seqs.push(vec![*g]);
                    }
                }
            }
            2 => {
                self.a(sub, Kind::Format, "pairPos.format");
                let cov = self.off(sub + 2, sub, "pairPos.coverageOffset").map(|c| self.coverage(c, 16)).unwrap_or_default();
                self.a(sub + 4, Kind::ValueFormat, "pairPos.valueFormat1");
                self.a(sub + 6, Kind::ValueFormat, "pairPos.valueFormat2");
                let (vf1, vf2) = (self.u16(sub + 4).unwrap_or(0), self.u16(sub + 6).unwrap_or(0));
                if fmt == 1 {
                    self.a(sub + 8, Kind::Count, "pairPos.pairSetCount");
                    for (i, g) in cov.iter().enumerate().take(ITEMS) {
                        if let Some(ps) = self.deeper(i == 0, |r| r.off(sub + 10 + 2 * i, sub, "pairPos.pairSetOffset")) {
                            self.deeper(i == 0, |r| {
                                r.a(ps, Kind::Count, "pairSet.pairValueCount");
                                r.a(ps + 2, Kind::Value, "pairSet.secondGlyph");
                            });
                            let rec = 2 + Self::value_size(vf1) + Self::value_size(vf2);
                            let n = self.u16(ps).unwrap_or(0);
                            for k in 0..n.min(2) {
                                if let Some(g2) = self.u16(ps + 2 + rec * k) {
                                    if seqs.len() < 8 {
                                        seqs.push(vec![*g, g2 as u16]);
                                    }
                                }
                            }
                        }
                    }
                } else if fmt == 2 {
                    let _c1 = self.off(sub + 8, sub, "pairPos.classDef1Offset").map(|c| self.classdef(c)).unwrap_or_default();
                    let c2 = self.off(sub + 10, sub, "pairPos.classDef2Offset").map(|c| self.classdef(c)).unwrap_or_default();
                    self.a(sub + 12, Kind::Count, "pairPos.class1Count");
                    self.a(sub + 14, Kind::Count, "pairPos.class2Count");
                    let seconds: Vec<u16> = c2.iter().filter(|(_, c)| *c > 0).map(|(g, _)| *g).take(3).collect();
                    for g in cov.iter().take(3) {
                        for g2 in seconds.iter().take(2) {
                            if seqs.len() < 8 {
                                seqs.push(vec![*g, *g2]);
                            }
                        }
                    }
                }
            }
            3 => {
                self.a(sub, Kind::Format, "cursivePos.format");
                let cov = self.off(sub + 2, sub, "cursivePos.coverageOffset").map(|c| self.coverage(c, 8)).unwrap_or_default();
                self.a(sub + 4, Kind::Count, "cursivePos.entryExitCount");
                let n = self.u16(sub + 4).unwrap_or(0);
                for i in 0..n.min(ITEMS) {
                    self.deeper(i == 0, |r| {
                        for k in 0..2 {
                            if let Some(an) = r.off(sub + 6 + 4 * i + 2 * k, sub, "cursivePos.anchorOffset") {
                                if i < 2 {
                                    r.anchor_table(an);
                                }
                            }
                        }
                    });
                }
                for w in cov.windows(2).take(3) {
                    if seqs.len() < 8 {
                        seqs.push(vec![w[0], w[1], w[0]]);
                    }
                }
                if let (Some(g), true) = (cov.first(), cov.len() == 1) {
                    seqs.push(vec![*g, *g]);
                }
            }
            4 | 5 | 6 => {
                self.a(sub, Kind::Format, "markPos.format");
                let marks = self.off(sub + 2, sub, "markPos.markCoverageOffset").map(|c| self.coverage(c, 8)).unwrap_or_default();
                let bases = self.off(sub + 4, sub, "markPos.baseCoverageOffset").map(|c| self.coverage(c, 8)).unwrap_or_default();
                self.a(sub + 6, Kind::Count, "markPos.markClassCount");
                let ncls = self.u16(sub + 6).unwrap_or(0);
                if let Some(ma) = self.off(sub + 8, sub, "markPos.markArrayOffset") {
                    self.mark_array(ma);
                }
                if let Some(ba) = self.off(sub + 10, sub, "markPos.baseArrayOffset") {
                    self.a(ba, Kind::Count, if ty == 5 { "ligatureArray.ligatureCount" } else { "baseArray.baseCount" });
                    let n = self.u16(ba).unwrap_or(0);
                    for i in 0..n.min(ITEMS) {
                        self.deeper(i == 0, |r| {
                            if ty == 5 {
                                if let Some(la) = r.off(ba + 2 + 2 * i, ba, "ligatureArray.ligatureAttachOffset") {
                                    r.a(la, Kind::Count, "ligatureAttach.componentCount");
                                    let nc = r.u16(la).unwrap_or(0);
                                    for c in 0..(nc * ncls).min(4) {
                                        if let Some(an) = r.off(la + 2 + 2 * c, la, "componentRecord.ligatureAnchorOffset") {
                                            if c < 2 && i < 2 {
                                                r.anchor_table(an);
                                            }
                                        }
                                    }
                                }
                            } else {
                                for c in 0..ncls.min(3) {
                                    if let Some(an) = r.off(ba + 2 + 2 * (i * ncls + c), ba, "baseRecord.baseAnchorOffset") {
                                        if c < 2 && i < 2 {
                                            r.anchor_table(an);
                                        }
                                    }
                                }
                            }
                        });
                    }
                }
                for (i, b) in bases.iter().enumerate().take(4) {
                    let m = marks.get(i % marks.len().max(1)).copied().or(marks.first().copied());
                    if let Some(m) = m {
                        if seqs.len() < 8 {
                            seqs.push(if i % 2 == 0 { vec![*b, m] } else { vec![*b, m, marks.first().copied().unwrap_or(m)] });
                        }
                    }
                }
            }
            7 => self.context(sub, false, seqs),
            8 => self.context(sub, true, seqs),
            _ => {}
        }
    }
}

pub fn scan(t: &[u8], gpos: bool) -> Scan {
    let mut r = R { t, gpos, anchors: Vec::new(), producers: Vec::new(), lookup: 0xFFFF, depth: 0 };
    let mut out = Scan::default();
    for k in 0..2 {
        r.a(2 * k, Kind::Value, "header.version");
    }
    // FeatureVariations (version 1.1)
    if r.u16(2) == Some(1) {
        r.aw(10, 4, Kind::Offset, "header.featureVariationsOffset");
        if let Some(fv) = r.u32(10).filter(|v| *v != 0) {
            r.aw(fv + 4, 4, Kind::Count, "featureVariations.recordCount");
            let n = r.u32(fv + 4).unwrap_or(0);
            for i in 0..n.min(4) {
                r.deeper(i == 0, |r| {
                    let rec = fv + 8 + 8 * i;
                    r.aw(rec, 4, Kind::Offset, "featureVariationRecord.conditionSetOffset");
                    r.aw(rec + 4, 4, Kind::Offset, "featureVariationRecord.featureTableSubstitutionOffset");
                    if let Some(cs) = r.u32(rec).filter(|v| *v != 0) {
                        let cs = fv + cs;
                        r.a(cs, Kind::Count, "conditionSet.conditionCount");
                        r.aw(cs + 2, 4, Kind::Offset, "conditionSet.conditionOffset");
                        if let Some(c) = r.u32(cs + 2) {
                            let c = cs + c;
                            r.a(c, Kind::Format, "condition.format");
                            r.a(c + 2, Kind::Index, "condition.axisIndex");
                            r.a(c + 4, Kind::Value, "condition.filterRangeMinValue");
                            r.a(c + 6, Kind::Value, "condition.filterRangeMaxValue");
                        }
                    }
                    if let Some(fs) = r.u32(rec + 4).filter(|v| *v != 0) {
                        let fs = fv + fs;
                        r.a(fs + 4, Kind::Count, "featureTableSubstitution.substitutionCount");
                        r.a(fs + 6, Kind::Index, "substitutionRecord.featureIndex");
                        r.aw(fs + 8, 4, Kind::Offset, "substitutionRecord.alternateFeatureOffset");
                    }
                });
            }
        }
    }
    // script list
    if let Some(sl) = r.off(4, 0, "header.scriptListOffset") {
        r.a(sl, Kind::Count, "scriptList.scriptCount");
        let n = r.u16(sl).unwrap_or(0).min(64);
        for i in 0..n {
            let rec = sl + 2 + 6 * i;
            let st = match r.deeper(i == 0, |r| r.off(rec + 4, sl, "scriptRecord.scriptOffset")) {
                Some(s) => s,
                None => continue,
            };
            r.deeper(i == 0, |r| {
                let mut langsys = Vec::new();
                if let Some(d) = r.off(st, st, "script.defaultLangSysOffset") {
                    langsys.push(d);
                }
                r.a(st + 2, Kind::Count, "script.langSysCount");
                let ln = r.u16(st + 2).unwrap_or(0).min(32);
                for j in 0..ln {
                    let lrec = st + 4 + 6 * j;
                    if let Some(tag) = r.u32(lrec) {
                        out.lang_tags.push(tag as u32);
                    }
                    if let Some(o) = r.deeper(j == 0, |r| r.off(lrec + 4, st, "langSysRecord.langSysOffset")) {
                        langsys.push(o);
                    }
                }
                for (k, ls) in langsys.into_iter().enumerate() {
                    r.deeper(k == 0, |r| {
                        r.a(ls + 2, Kind::Index, "langSys.requiredFeatureIndex");
                        r.a(ls + 4, Kind::Count, "langSys.featureIndexCount");
                        r.a(ls + 6, Kind::Index, "langSys.featureIndex");
                    });
                }
            });
        }
    }
    // lookup list first (to size the per-lookup info), then the feature list
    let mut nlookups = 0;
    if let Some(ll) = r.off(8, 0, "header.lookupListOffset") {
        r.a(ll, Kind::Count, "lookupList.lookupCount");
        nlookups = r.u16(ll).unwrap_or(0).min(1024);
        for i in 0..nlookups {
            r.lookup = i as u16;
            r.depth = 0;
            let mut info = LookupInfo::default();
            if let Some(lt) = r.off(ll + 2 + 2 * i, ll, "lookupList.lookupOffset") {
                r.a(lt, Kind::Value, "lookup.lookupType");
                r.a(lt + 2, Kind::Value, "lookup.lookupFlag");
                r.a(lt + 4, Kind::Count, "lookup.subTableCount");
                let ty = r.u16(lt).unwrap_or(0);
                let flag = r.u16(lt + 2).unwrap_or(0);
                let cnt = r.u16(lt + 4).unwrap_or(0).min(64);
                if flag & 0x10 != 0 {
                    r.a(lt + 6 + 2 * cnt, Kind::Index, "lookup.markFilteringSet");
                }
                info.ty = ty as u16;
                info.flag = flag as u16;
                let ext = if gpos { 9 } else { 7 };
                for j in 0..cnt {
                    r.depth = if j == 0 { 0 } else { 1 };
                    let mut sub = match r.off(lt + 6 + 2 * j, lt, "lookup.subtableOffset") {
                        Some(s) => s,
                        None => continue,
                    };
                    let mut ety = ty;
                    if ty == ext {
                        r.a(sub, Kind::Format, "extension.format");
                        r.a(sub + 2, Kind::Value, "extension.extensionLookupType");
                        r.aw(sub + 4, 4, Kind::Offset, "extension.extensionOffset");
                        ety = r.u16(sub + 2).unwrap_or(0);
                        match r.u32(sub + 4) {
                            Some(o) => sub += o,
                            None => continue,
                        }
                        info.ty = ety as u16;
                    }
                    if gpos {
                        r.gpos_subtable(ety, sub, &mut info.seqs);
                    } else {
                        r.gsub_subtable(ety, sub, &mut info.seqs);
                    }
                }
            }
            out.lookups.push(info);
        }
        r.lookup = 0xFFFF;
        r.depth = 0;
    }
    if let Some(fl) = r.off(6, 0, "header.featureListOffset") {
        r.a(fl, Kind::Count, "featureList.featureCount");
        let n = r.u16(fl).unwrap_or(0).min(512);
        for i in 0..n {
            let rec = fl + 2 + 6 * i;
            let tag = r.u32(rec).unwrap_or(0) as u32;
            out.feature_tags.push(tag);
            if let Some(ft) = r.deeper(i == 0, |r| r.off(rec + 4, fl, "featureRecord.featureOffset")) {
                r.deeper(i == 0, |r| {
                    r.a(ft, Kind::Offset, "feature.featureParamsOffset");
                    r.a(ft + 2, Kind::Count, "feature.lookupIndexCount");
                    r.a(ft + 4, Kind::Index, "feature.lookupListIndex");
                });
                let k = r.u16(ft + 2).unwrap_or(0).min(256);
                for j in 0..k {
                    if let Some(li) = r.u16(ft + 4 + 2 * j) {
                        if li < nlookups {
                            if let Some(info) = out.lookups.get_mut(li) {
                                if !info.features.contains(&tag) {
                                    info.features.push(tag);
                                }
                            }
                        }
                    }
                }
            }
        }
    }
    r.anchors.sort_by_key(|a| (a.off, a.width));
    r.anchors.dedup_by_key(|a| (a.off, a.width));
    out.anchors = r.anchors;
    out.producers = r.producers;
    out
}

/// Boundary values for a field of the given kind whose current value is `cur`;
/// `len` = table length, `other` = the value of some other offset field of the table.
pub fn boundary_values(kind: Kind, cur: u32, len: u32, other: u32, width: u8) -> Vec<u32> {
    let max = if width == 4 { 0xFFFF_FFFF } else { 0xFFFF };
    let v: Vec<u32> = match kind {
        Kind::Count => vec![0, 1, cur.wrapping_sub(1), cur.wrapping_add(1), 0x7FFF, max],
        Kind::Offset => vec![0, len.wrapping_sub(1), len, len.wrapping_add(1), other, max, cur.wrapping_add(2), cur.wrapping_sub(2)],
        Kind::Format => vec![0, 1, 2, 3, 4, max],
        Kind::Class | Kind::Index => vec![0, cur.wrapping_add(1), cur.wrapping_sub(1), 0x7FFF, max, 1],
        Kind::Value => vec![0, cur.wrapping_add(1), cur.wrapping_sub(1), 0x7FFF, 0x8000, max],
        Kind::ValueFormat => vec![0, 0x00FF, 0xFFFF, cur | 0x10, cur | 0xF0, cur ^ 1],
    };
    v.into_iter().map(|x| x & max).collect()
}

pub const VALUES_PER_ANCHOR: usize = 6;
