//! C14 — the binary reader never reads outside its buffer and decodes exactly.
//! Model-based, stateful: an op sequence is interpreted on the real ReadScope/ReadCtxt/
//! ReadArray objects and on a reference model ((&[u8], cursor) with from_be_bytes).

use crate::engine::{CaseResult, Ctx, Fail, Property, Rec};
use allsorts::binary::read::{
    CheckIndex, ReadArray, ReadArrayCow, ReadBinaryDep, ReadCtxt, ReadFixedSizeDep, ReadScope,
    ReadUnchecked,
};
use allsorts::binary::{I16Be, I32Be, I64Be, I8, U16Be, U24Be, U32Be, U64Be, U8};
use allsorts::error::ParseError;
use proptest::prelude::*;
use std::fmt::Debug;

pub struct C14;

// ---------------------------------------------------------------- generated case

#[derive(Clone, Debug)]
pub enum Num {
    Small(u8),
    RemMinus1,
    Rem,
    RemPlus1,
    /// remaining / elem-size (+ delta)
    FitCount(i8),
    Max,
    HalfMaxPlus1,
    /// usize::MAX / k + 1 : overflows when multiplied by k
    MaxDivPlus1(u8),
    Big(u32),
}

#[derive(Clone, Copy, Debug, PartialEq)]
pub enum ElemTy {
    U8,
    I8,
    U16,
    I16,
    U24,
    U32,
    I32,
    U64,
    I64,
    T2, // (U8, U16Be)
    T3, // (U16Be, U8, U32Be)
    T4, // (U8, U8, U16Be, U24Be)
}

#[derive(Clone, Debug)]
pub enum Ctor {
    Array(Num),
    Stride(Num, Num),
    Dep(Num, u8),
    UptoHack(Num),
}

#[derive(Clone, Debug)]
pub enum Idx {
    Small(u8),
    LenMinus1,
    Len,
    LenPlus1,
    Max,
    /// 2^(63 - shift) + small: index * stride wraps back into the window for power-of-two strides
    HighBit(u8, u8),
    /// usize::MAX / k + 1 + small: index * k wraps to a small offset (any stride k)
    MaxDivPlus(u8, u8),
}

#[derive(Clone, Debug)]
pub enum ArrOp {
    Len,
    GetItem(Idx),
    ReadItem(Idx),
    Last,
    Iter(u8),
    /// after `.0` calls of next(): `.1` selects nth / skip / step_by / last / count with argument `.2`
    IterAdapt(u8, u8, u8),
    IterRes,
    ToVec,
    ReadToVec,
    BinarySearch(u8),
    CheckIndex(Idx),
    Cow(bool, Idx),
}

#[derive(Clone, Debug)]
pub enum Op {
    Read(ElemTy),
    /// the dedicated methods read_u8 / read_i8 / read_u16be / read_i16be / read_u32be / read_i32be /
    /// read_u64be / read_i64be (the generic `read::<T>()` path is `Read`)
    ReadMethod(u8),
    Array(ElemTy, Ctor, Vec<ArrOp>),
    ReadScope(Num),
    ReadSlice(Num),
    ReadUntilNibble(u8),
    /// replace the context by `ctxt.scope().offset(o).ctxt()`
    ScopeOffset(Num),
    /// replace the context by `ctxt.scope().offset_length(o, l)?.ctxt()`
    OffsetLength(Num, Num),
    /// ctxt = ctxt.scope().ctxt()  (fresh context on the remaining window)
    Rescope,
    BytesAvailable,
    /// go back to the whole buffer
    Reset,
}

#[derive(Clone, Debug)]
pub struct Case {
    pub buf: Vec<u8>,
    pub ops: Vec<Op>,
}

fn num() -> impl Strategy<Value = Num> {
    prop_oneof![
        6 => (0u8..12).prop_map(Num::Small),
        2 => Just(Num::RemMinus1),
        3 => Just(Num::Rem),
        3 => Just(Num::RemPlus1),
        4 => (-1i8..=1).prop_map(Num::FitCount),
        1 => Just(Num::Max),
        1 => Just(Num::HalfMaxPlus1),
        2 => (2u8..=16).prop_map(Num::MaxDivPlus1),
        1 => any::<u32>().prop_map(Num::Big),
    ]
}

fn elem() -> impl Strategy<Value = ElemTy> {
    prop_oneof![
        Just(ElemTy::U8),
        Just(ElemTy::I8),
        Just(ElemTy::U16),
        Just(ElemTy::I16),
        Just(ElemTy::U24),
        Just(ElemTy::U32),
        Just(ElemTy::I32),
        Just(ElemTy::U64),
        Just(ElemTy::I64),
        Just(ElemTy::T2),
        Just(ElemTy::T3),
        Just(ElemTy::T4),
    ]
}

fn idx() -> impl Strategy<Value = Idx> {
    prop_oneof![
        4 => (0u8..10).prop_map(Idx::Small),
        3 => Just(Idx::LenMinus1),
        3 => Just(Idx::Len),
        1 => Just(Idx::LenPlus1),
        1 => Just(Idx::Max),
        1 => (0u8..5, 0u8..6).prop_map(|(a, b)| Idx::HighBit(a, b)),
        1 => (1u8..=16, 0u8..6).prop_map(|(a, b)| Idx::MaxDivPlus(a, b)),
    ]
}

fn arr_op() -> impl Strategy<Value = ArrOp> {
    prop_oneof![
        1 => Just(ArrOp::Len),
        3 => idx().prop_map(ArrOp::GetItem),
        3 => idx().prop_map(ArrOp::ReadItem),
        1 => Just(ArrOp::Last),
        2 => (0u8..6).prop_map(ArrOp::Iter),
        2 => (0u8..5, 0u8..5, 0u8..6).prop_map(|(k, kind, a)| ArrOp::IterAdapt(k, kind, a)),
        1 => Just(ArrOp::IterRes),
        1 => Just(ArrOp::ToVec),
        1 => Just(ArrOp::ReadToVec),
        2 => any::<u8>().prop_map(ArrOp::BinarySearch),
        1 => idx().prop_map(ArrOp::CheckIndex),
        2 => (any::<bool>(), idx()).prop_map(|(o, i)| ArrOp::Cow(o, i)),
    ]
}

fn ctor() -> impl Strategy<Value = Ctor> {
    prop_oneof![
        4 => num().prop_map(Ctor::Array),
        3 => (num(), num()).prop_map(|(n, s)| Ctor::Stride(n, s)),
        2 => (num(), 0u8..9).prop_map(|(n, s)| Ctor::Dep(n, s)),
        2 => num().prop_map(Ctor::UptoHack),
    ]
}

fn op() -> impl Strategy<Value = Op> {
    prop_oneof![
        8 => elem().prop_map(Op::Read),
        4 => (0u8..8).prop_map(Op::ReadMethod),
        8 => (elem(), ctor(), proptest::collection::vec(arr_op(), 0..6)).prop_map(|(e, c, o)| Op::Array(e, c, o)),
        2 => num().prop_map(Op::ReadScope),
        2 => num().prop_map(Op::ReadSlice),
        1 => (0u8..16).prop_map(Op::ReadUntilNibble),
        2 => num().prop_map(Op::ScopeOffset),
        3 => (num(), num()).prop_map(|(a, b)| Op::OffsetLength(a, b)),
        1 => Just(Op::Rescope),
        1 => Just(Op::BytesAvailable),
        2 => Just(Op::Reset),
    ]
}

fn buffer() -> impl Strategy<Value = Vec<u8>> {
    let len = prop_oneof![
        3 => 0usize..4,
        2 => 7usize..10,
        6 => 0usize..65,
    ];
    (len, any::<bool>(), any::<u64>()).prop_flat_map(|(n, sorted, s)| {
        if sorted {
            // big-endian non-decreasing byte ramp: every fixed-width unsigned view is sorted
            let mut v: Vec<u8> = Vec::with_capacity(n);
            let mut x = (s & 0x3f) as u8;
            let mut st = s;
            for _ in 0..n {
                st = crate::engine::util::mix64(st);
                x = x.saturating_add((st & 3) as u8);
                v.push(x);
            }
            Just(v).boxed()
        } else {
            proptest::collection::vec(any::<u8>(), n..=n).boxed()
        }
    })
}

pub fn case_strategy(max_ops: usize) -> impl Strategy<Value = Case> {
    (buffer(), proptest::collection::vec(op(), 1..max_ops)).prop_map(|(buf, ops)| Case { buf, ops })
}

// ---------------------------------------------------------------- element model

trait Elem: ReadUnchecked + Clone
where
    Self::HostType: PartialEq + Debug + Copy,
{
    fn model(b: &[u8]) -> Self::HostType;
    /// total order key for binary search (only meaningful for unsigned scalar types)
    fn key(v: Self::HostType) -> u64;
}

fn be(b: &[u8]) -> u64 {
    let mut v = 0u64;
    for x in b {
        v = (v << 8) | *x as u64;
    }
    v
}

macro_rules! elem_scalar {
    ($t:ty, $host:ty, $n:expr, $conv:expr) => {
        impl Elem for $t {
            fn model(b: &[u8]) -> $host {
                let f: fn(u64) -> $host = $conv;
                f(be(&b[..$n]))
            }
            fn key(v: $host) -> u64 {
                v as u64
            }
        }
    };
}
elem_scalar!(U8, u8, 1, |v| v as u8);
elem_scalar!(I8, i8, 1, |v| v as u8 as i8);
elem_scalar!(U16Be, u16, 2, |v| v as u16);
elem_scalar!(I16Be, i16, 2, |v| v as u16 as i16);
elem_scalar!(U24Be, u32, 3, |v| v as u32);
elem_scalar!(U32Be, u32, 4, |v| v as u32);
elem_scalar!(I32Be, i32, 4, |v| v as u32 as i32);
elem_scalar!(U64Be, u64, 8, |v| v);
elem_scalar!(I64Be, i64, 8, |v| v as i64);

impl Elem for (U8, U16Be) {
    fn model(b: &[u8]) -> (u8, u16) {
        (b[0], be(&b[1..3]) as u16)
    }
    fn key(v: (u8, u16)) -> u64 {
        ((v.0 as u64) << 16) | v.1 as u64
    }
}
impl Elem for (U16Be, U8, U32Be) {
    fn model(b: &[u8]) -> (u16, u8, u32) {
        (be(&b[0..2]) as u16, b[2], be(&b[3..7]) as u32)
    }
    fn key(v: (u16, u8, u32)) -> u64 {
        ((v.0 as u64) << 40) | ((v.1 as u64) << 32) | v.2 as u64
    }
}
impl Elem for (U8, U8, U16Be, U24Be) {
    fn model(b: &[u8]) -> (u8, u8, u16, u32) {
        (b[0], b[1], be(&b[2..4]) as u16, be(&b[4..7]) as u32)
    }
    fn key(v: (u8, u8, u16, u32)) -> u64 {
        ((v.0 as u64) << 48) | ((v.1 as u64) << 40) | ((v.2 as u64) << 24) | v.3 as u64
    }
}

/// A dependent fixed-size type defined by the harness: `size` bytes, returned as a slice.
pub enum Chunk {}
impl ReadBinaryDep for Chunk {
    type Args<'a> = usize;
    type HostType<'a> = &'a [u8];
    fn read_dep<'a>(ctxt: &mut ReadCtxt<'a>, size: usize) -> Result<&'a [u8], ParseError> {
        Ok(ctxt.read_slice(size)?)
    }
}
impl ReadFixedSizeDep for Chunk {
    fn size(size: usize) -> usize {
        size
    }
}

/// A dependent fixed-size type whose own `read_dep` can fail although its window fits: `size` bytes, rejected
/// (`BadValue`) when the first byte is odd. Element errors must surface per element (`read_item`, `iter_res`) and
/// make `read_to_vec` fail as a whole — never a silently shortened vector.
pub enum Picky {}
impl ReadBinaryDep for Picky {
    type Args<'a> = usize;
    type HostType<'a> = &'a [u8];
    fn read_dep<'a>(ctxt: &mut ReadCtxt<'a>, size: usize) -> Result<&'a [u8], ParseError> {
        let s = ctxt.read_slice(size)?;
        if s.first().map_or(false, |b| b & 1 == 1) {
            return Err(ParseError::BadValue);
        }
        Ok(s)
    }
}
impl ReadFixedSizeDep for Picky {
    fn size(size: usize) -> usize {
        size
    }
}

// ---------------------------------------------------------------- interpreter

struct St<'a> {
    buf: &'a [u8],
    /// model: absolute window of the current scope and cursor inside it
    win: (usize, usize),
    off: usize,
    ctxt: ReadCtxt<'a>,
    failed_read_seen: bool,
    fail_then_ok: bool,
    edge_access: bool,
}

fn fail(sig: &str, msg: String) -> Fail {
    Fail::new(format!("C14:{}", sig), msg)
}

impl<'a> St<'a> {
    fn rem(&self) -> usize {
        self.win.1 - self.win.0 - self.off
    }
    fn pos(&self) -> usize {
        self.win.0 + self.off
    }
    fn resolve(&self, n: &Num, esize: usize) -> usize {
        let rem = self.rem();
        match n {
            Num::Small(v) => *v as usize,
            Num::RemMinus1 => rem.saturating_sub(1),
            Num::Rem => rem,
            Num::RemPlus1 => rem + 1,
            Num::FitCount(d) => ((rem / esize.max(1)) as i64 + *d as i64).max(0) as usize,
            Num::Max => usize::MAX,
            Num::HalfMaxPlus1 => usize::MAX / 2 + 1,
            Num::MaxDivPlus1(k) => usize::MAX / (*k as usize) + 1,
            Num::Big(v) => *v as usize,
        }
    }
    /// the real cursor must expose exactly the model's remaining window
    fn check_cursor(&self, after: &str) -> CaseResult {
        let real = self.ctxt.scope().data();
        let exp = &self.buf[self.pos()..self.win.1];
        if real.len() != exp.len() || (real.as_ptr() != exp.as_ptr() && !exp.is_empty()) {
            return Err(fail(
                "cursor",
                format!(
                    "after {}: reader window is {:p}+{} but model expects {:p}+{} (buffer {:p}+{})",
                    after,
                    real.as_ptr(),
                    real.len(),
                    exp.as_ptr(),
                    exp.len(),
                    self.buf.as_ptr(),
                    self.buf.len()
                ),
            ));
        }
        Ok(())
    }
    fn note_result(&mut self, ok: bool) {
        if ok {
            if self.failed_read_seen {
                self.fail_then_ok = true;
            }
        } else {
            self.failed_read_seen = true;
        }
    }
}

fn within(buf: &[u8], s: &[u8]) -> bool {
    if s.is_empty() {
        return true;
    }
    let b0 = buf.as_ptr() as usize;
    let s0 = s.as_ptr() as usize;
    s0 >= b0 && s0 + s.len() <= b0 + buf.len()
}

fn read_typed<'a, T: Elem>(st: &mut St<'a>, name: &str) -> CaseResult
where
    T::HostType: PartialEq + Debug + Copy,
{
    let rem = st.rem();
    let r = st.ctxt.read::<T>();
    if rem >= T::SIZE {
        let exp = T::model(&st.buf[st.pos()..st.pos() + T::SIZE]);
        match r {
            Ok(v) if v == exp => {}
            Ok(v) => {
                return Err(fail(
                    "decode",
                    format!("read::<{}> at {} returned {:?}, big-endian value is {:?}", name, st.pos(), v, exp),
                ))
            }
            Err(e) => {
                return Err(fail(
                    "spurious-eof",
                    format!("read::<{}> with {} bytes available failed: {:?}", name, rem, e),
                ))
            }
        }
        st.off += T::SIZE;
        st.note_result(true);
    } else {
        if let Ok(v) = r {
            return Err(fail(
                "read-past-end",
                format!("read::<{}> with only {} bytes available returned {:?}", name, rem, v),
            ));
        }
        st.note_result(false);
    }
    st.check_cursor(&format!("read::<{}>", name))
}

/// `read_u8` ... `read_i64be`: value at the cursor and cursor + size, or an error and no effect.
fn read_method<'a>(st: &mut St<'a>, kind: u8) -> CaseResult {
    let (name, size): (&str, usize) = match kind % 8 {
        0 => ("read_u8", 1),
        1 => ("read_i8", 1),
        2 => ("read_u16be", 2),
        3 => ("read_i16be", 2),
        4 => ("read_u32be", 4),
        5 => ("read_i32be", 4),
        6 => ("read_u64be", 8),
        _ => ("read_i64be", 8),
    };
    let rem = st.rem();
    let r: Result<i128, String> = match kind % 8 {
        0 => st.ctxt.read_u8().map(|v| v as i128).map_err(|e| format!("{:?}", e)),
        1 => st.ctxt.read_i8().map(|v| v as i128).map_err(|e| format!("{:?}", e)),
        2 => st.ctxt.read_u16be().map(|v| v as i128).map_err(|e| format!("{:?}", e)),
        3 => st.ctxt.read_i16be().map(|v| v as i128).map_err(|e| format!("{:?}", e)),
        4 => st.ctxt.read_u32be().map(|v| v as i128).map_err(|e| format!("{:?}", e)),
        5 => st.ctxt.read_i32be().map(|v| v as i128).map_err(|e| format!("{:?}", e)),
        6 => st.ctxt.read_u64be().map(|v| v as i128).map_err(|e| format!("{:?}", e)),
        _ => st.ctxt.read_i64be().map(|v| v as i128).map_err(|e| format!("{:?}", e)),
    };
    if rem >= size {
        let raw = be(&st.buf[st.pos()..st.pos() + size]);
        let exp: i128 = match kind % 8 {
            0 | 2 | 4 | 6 => raw as i128,
            1 => raw as u8 as i8 as i128,
            3 => raw as u16 as i16 as i128,
            5 => raw as u32 as i32 as i128,
            _ => raw as i64 as i128,
        };
        match r {
            Ok(v) if v == exp => {}
            Ok(v) => return Err(fail("decode", format!("{} at {} returned {}, big-endian value is {}", name, st.pos(), v, exp))),
            Err(e) => return Err(fail("spurious-eof", format!("{} with {} bytes available failed: {}", name, rem, e))),
        }
        st.off += size;
        st.note_result(true);
    } else {
        if let Ok(v) = r {
            return Err(fail("read-past-end", format!("{} with only {} bytes available returned {}", name, rem, v)));
        }
        st.note_result(false);
    }
    st.check_cursor(name)
}

fn resolve_idx(i: &Idx, len: usize) -> usize {
    match i {
        Idx::Small(v) => *v as usize,
        Idx::LenMinus1 => len.saturating_sub(1),
        Idx::Len => len,
        Idx::LenPlus1 => len.saturating_add(1),
        Idx::Max => usize::MAX,
        Idx::HighBit(shift, small) => (1usize << (63 - (*shift as u32).min(8))) + *small as usize,
        Idx::MaxDivPlus(k, small) => (usize::MAX / (*k as usize).max(1)).saturating_add(1).saturating_add(*small as usize),
    }
}

fn array_ops<'a, T: Elem>(
    st: &mut St<'a>,
    arr: &ReadArray<'a, T>,
    wstart: usize,
    n: usize,
    stride: usize,
    ops: &[ArrOp],
    name: &str,
) -> CaseResult
where
    T::HostType: PartialEq + Debug + Copy,
{
    let buf = st.buf;
    let model: Vec<T::HostType> = (0..n)
        .map(|i| T::model(&buf[wstart + i * stride..wstart + i * stride + T::SIZE]))
        .collect();
    if arr.len() != n || arr.is_empty() != (n == 0) {
        return Err(fail("array-len", format!("{} array len {} expected {}", name, arr.len(), n)));
    }
    for op in ops {
        match op {
            ArrOp::Len => {}
            ArrOp::GetItem(i) => {
                let i = resolve_idx(i, n);
                if i.wrapping_add(1) == n || i == n {
                    st.edge_access = true;
                }
                let got = arr.get_item(i);
                let exp = model.get(i).copied();
                if got != exp {
                    return Err(fail("get_item", format!("{} get_item({}) = {:?}, expected {:?} (len {})", name, i, got, exp, n)));
                }
            }
            ArrOp::ReadItem(i) => {
                let i = resolve_idx(i, n);
                if i.wrapping_add(1) == n || i == n {
                    st.edge_access = true;
                }
                let got = arr.read_item(i).ok();
                let exp = model.get(i).copied();
                if got != exp {
                    return Err(fail("read_item", format!("{} read_item({}) = {:?}, expected {:?} (len {})", name, i, got, exp, n)));
                }
            }
            ArrOp::Last => {
                if arr.last() != model.last().copied() {
                    return Err(fail("last", format!("{} last() = {:?}, expected {:?}", name, arr.last(), model.last())));
                }
            }
            ArrOp::Iter(k) => {
                let mut it = arr.iter();
                let (lo, hi) = it.size_hint();
                if lo != n || hi != Some(n) {
                    return Err(fail("iter-size_hint", format!("{} fresh iter size_hint = ({}, {:?}), len {}", name, lo, hi, n)));
                }
                let k = (*k as usize).min(n);
                let mut got = Vec::new();
                for _ in 0..k {
                    got.push(it.next());
                }
                let (lo2, hi2) = it.size_hint();
                if lo2 != n - k || hi2 != Some(n - k) {
                    return Err(fail(
                        "iter-size_hint-partial",
                        format!("{} iter size_hint after {} of {} items = ({}, {:?}), expected {}", name, k, n, lo2, hi2, n - k),
                    ));
                }
                let rest: Vec<T::HostType> = it.collect();
                let all: Vec<T::HostType> = got.into_iter().flatten().chain(rest).collect();
                if all != model {
                    return Err(fail("iter", format!("{} iter yields {:?}, expected {:?}", name, all, model)));
                }
            }
            ArrOp::IterAdapt(k, kind, a) => {
                // the iterator adaptors of std (nth, skip, step_by, last, count) on a partially
                // consumed iterator must behave like the same adaptors on the rest of the window
                let k = (*k as usize).min(n);
                let a = *a as usize;
                let mut it = arr.iter();
                for _ in 0..k {
                    it.next();
                }
                let rest = &model[k..];
                let bound = n + 2; // a broken iterator must not run for ever
                let (got, exp): (Vec<T::HostType>, Vec<T::HostType>) = match kind % 5 {
                    0 => {
                        let first = it.nth(a);
                        let tail: Vec<T::HostType> = it.take(bound).collect();
                        let mut m = rest.iter().copied();
                        let mfirst = m.nth(a);
                        if first != mfirst {
                            return Err(fail("iter-nth", format!("{} after {} items nth({}) = {:?}, expected {:?}", name, k, a, first, mfirst)));
                        }
                        (tail, m.collect())
                    }
                    1 => (it.skip(a).take(bound).collect(), rest.iter().copied().skip(a).collect()),
                    2 => (it.step_by(a + 1).take(bound).collect(), rest.iter().copied().step_by(a + 1).collect()),
                    3 => (it.last().into_iter().collect(), rest.last().copied().into_iter().collect()),
                    _ => {
                        let c = it.take(bound).count();
                        if c != rest.len() {
                            return Err(fail("iter-count", format!("{} after {} items count() = {}, expected {}", name, k, c, rest.len())));
                        }
                        (Vec::new(), Vec::new())
                    }
                };
                if got != exp {
                    return Err(fail("iter-adaptor", format!("{} after {} items adaptor {} arg {} yields {:?}, expected {:?}", name, k, kind % 5, a, got, exp)));
                }
            }
            ArrOp::IterRes => {
                let it = arr.iter_res();
                if it.size_hint() != (n, Some(n)) {
                    return Err(fail("iter_res-size_hint", format!("{} iter_res size_hint {:?} len {}", name, it.size_hint(), n)));
                }
                let all: Vec<Option<T::HostType>> = it.map(|r| r.ok()).collect();
                let exp: Vec<Option<T::HostType>> = model.iter().map(|v| Some(*v)).collect();
                if all != exp {
                    return Err(fail("iter_res", format!("{} iter_res yields {:?}, expected {:?}", name, all, exp)));
                }
            }
            ArrOp::ToVec => {
                if arr.to_vec() != model {
                    return Err(fail("to_vec", format!("{} to_vec {:?} expected {:?}", name, arr.to_vec(), model)));
                }
            }
            ArrOp::ReadToVec => match arr.read_to_vec() {
                Ok(v) if v == model => {}
                other => return Err(fail("read_to_vec", format!("{} read_to_vec {:?} expected {:?}", name, other.ok(), model))),
            },
            ArrOp::BinarySearch(sel) => {
                // key: an element of the array or a perturbation of one
                let key = if n == 0 {
                    *sel as u64
                } else {
                    let e = T::key(model[(*sel as usize) % n]);
                    match sel % 3 {
                        0 => e,
                        1 => e.wrapping_add(1),
                        _ => e.wrapping_sub(1),
                    }
                };
                let keys: Vec<u64> = model.iter().map(|v| T::key(*v)).collect();
                let sorted = keys.windows(2).all(|w| w[0] <= w[1]);
                let got = arr.binary_search_by(|v| T::key(v).cmp(&key));
                match got {
                    Ok(i) => {
                        if i >= n || keys[i] != key {
                            return Err(fail("binary_search", format!("{} binary_search Ok({}) but element is {:?} key {} (len {})", name, i, keys.get(i), key, n)));
                        }
                    }
                    Err(i) => {
                        if i > n {
                            return Err(fail("binary_search", format!("{} binary_search Err({}) beyond len {}", name, i, n)));
                        }
                        if sorted {
                            let exp = keys.binary_search(&key);
                            if exp.is_ok() || exp != Err(i) {
                                return Err(fail("binary_search", format!("{} binary_search Err({}) on sorted keys {:?} key {}: std says {:?}", name, i, keys, key, exp)));
                            }
                        }
                    }
                }
            }
            ArrOp::CheckIndex(i) => {
                let i = resolve_idx(i, n);
                if arr.check_index(i).is_ok() != (i < n) {
                    return Err(fail("check_index", format!("{} check_index({}) with len {}", name, i, n)));
                }
            }
            ArrOp::Cow(owned, i) => {
                let cow: ReadArrayCow<'a, T> = if *owned {
                    ReadArrayCow::Owned(arr.to_vec())
                } else {
                    ReadArrayCow::Borrowed(arr.clone())
                };
                let i = resolve_idx(i, n);
                if i.wrapping_add(1) == n || i == n {
                    st.edge_access = true;
                }
                let exp = model.get(i).copied();
                if cow.len() != n || cow.is_empty() != (n == 0) {
                    return Err(fail("cow-len", format!("{} cow len {} expected {}", name, cow.len(), n)));
                }
                if cow.get_item(i) != exp || cow.read_item(i).ok() != exp {
                    return Err(fail("cow-item", format!("{} cow item {} = {:?}/{:?} expected {:?}", name, i, cow.get_item(i), cow.read_item(i).ok(), exp)));
                }
                if cow.check_index(i).is_ok() != (i < n) {
                    return Err(fail("cow-check_index", format!("{} cow check_index({}) len {}", name, i, n)));
                }
                let it = cow.iter();
                if it.size_hint() != (n, Some(n)) {
                    return Err(fail("cow-size_hint", format!("{} cow iter size_hint {:?} len {}", name, it.size_hint(), n)));
                }
                let all: Vec<T::HostType> = it.collect();
                if all != model {
                    return Err(fail("cow-iter", format!("{} cow iter {:?} expected {:?}", name, all, model)));
                }
            }
        }
    }
    Ok(())
}

fn do_array<'a, T: Elem>(st: &mut St<'a>, ctor: &Ctor, ops: &[ArrOp], name: &str) -> CaseResult
where
    T::HostType: PartialEq + Debug + Copy,
{
    let rem = st.rem();
    let wstart = st.pos();
    match ctor {
        Ctor::Array(nn) | Ctor::UptoHack(nn) => {
            let hack = matches!(ctor, Ctor::UptoHack(_));
            let req = st.resolve(nn, T::SIZE);
            let n = if hack { req.min(rem / T::SIZE) } else { req };
            let fits = (n as u128) * (T::SIZE as u128) <= rem as u128;
            let r = if hack {
                st.ctxt.read_array_upto_hack::<T>(req)
            } else {
                st.ctxt.read_array::<T>(req)
            };
            match (fits, r) {
                (true, Ok(arr)) => {
                    st.off += n * T::SIZE;
                    st.note_result(true);
                    st.check_cursor(&format!("read_array::<{}>({})", name, req))?;
                    array_ops::<T>(st, &arr, wstart, n, T::SIZE, ops, name)
                }
                (true, Err(e)) => Err(fail("spurious-eof", format!("read_array::<{}>({}) with {} bytes available failed: {:?}", name, req, rem, e))),
                (false, Ok(arr)) => Err(fail(
                    "array-past-end",
                    format!("read_array::<{}>({}) succeeded with only {} bytes available (array len {})", name, req, rem, arr.len()),
                )),
                (false, Err(_)) => {
                    st.note_result(false);
                    st.check_cursor(&format!("failed read_array::<{}>({})", name, req))
                }
            }
        }
        Ctor::Stride(nn, ss) => {
            let stride = st.resolve(ss, 1);
            let n = st.resolve(nn, stride.max(1));
            let valid_stride = stride >= T::SIZE;
            let fits = valid_stride && (n as u128) * (stride as u128) <= rem as u128;
            let r = st.ctxt.read_array_stride::<T>(n, stride);
            match (fits, r) {
                (true, Ok(arr)) => {
                    st.off += n * stride;
                    st.note_result(true);
                    st.check_cursor(&format!("read_array_stride::<{}>({}, {})", name, n, stride))?;
                    array_ops::<T>(st, &arr, wstart, n, stride, ops, name)
                }
                (true, Err(e)) => Err(fail("spurious-eof", format!("read_array_stride::<{}>({}, {}) with {} bytes available failed: {:?}", name, n, stride, rem, e))),
                (false, Ok(arr)) => Err(fail(
                    "array-past-end",
                    format!("read_array_stride::<{}>({}, {}) succeeded with only {} bytes available (len {})", name, n, stride, rem, arr.len()),
                )),
                (false, Err(_)) => {
                    st.note_result(false);
                    st.check_cursor(&format!("failed read_array_stride::<{}>({}, {})", name, n, stride))
                }
            }
        }
        Ctor::Dep(nn, size) => {
            let size = *size as usize;
            let n = st.resolve(nn, size.max(1));
            let fits = (n as u128) * (size as u128) <= rem as u128;
            let r = st.ctxt.read_array_dep::<Chunk>(n, size);
            match (fits, r) {
                (true, Ok(arr)) => {
                    st.off += n * size;
                    st.note_result(true);
                    st.check_cursor(&format!("read_array_dep::<Chunk>({}, {})", n, size))?;
                    if arr.len() != n {
                        return Err(fail("array-len", format!("dep array len {} expected {}", arr.len(), n)));
                    }
                    // bounded sampling of a possibly huge zero-sized-element array
                    let probe: Vec<usize> = if n <= 64 {
                        (0..n).collect()
                    } else {
                        vec![0, 1, n / 2, n - 2, n - 1]
                    };
                    for i in probe {
                        let exp = &st.buf[wstart + i * size..wstart + i * size + size];
                        match arr.read_item(i) {
                            Ok(s) if s == exp && (s.is_empty() || s.as_ptr() == exp.as_ptr()) => {}
                            other => return Err(fail("dep-item", format!("dep array item {} = {:?}, expected {:?}", i, other.ok(), exp))),
                        }
                    }
                    if arr.read_item(n).is_ok() || arr.check_index(n).is_ok() {
                        return Err(fail("dep-item", format!("dep array item {} (== len) is readable", n)));
                    }
                    if size > 0 {
                        // indices whose product with the element size wraps back into the window
                        let q = usize::MAX / size;
                        for i in [q.wrapping_add(1), q.wrapping_add(2), 1usize << 63, (1usize << 63) + 1, 1usize << 62, (1usize << 61) + 2, usize::MAX] {
                            if i >= n && (arr.read_item(i).is_ok() || arr.check_index(i).is_ok()) {
                                return Err(fail("dep-item", format!("dep array item {} (>= len {}) is readable (element size {})", i, n, size)));
                            }
                        }
                    }
                    st.edge_access = true;
                    if n <= 64 && size > 0 {
                        // the same window as an array of elements whose own read can fail
                        let window = &st.buf[wstart..wstart + n * size];
                        let chunks: Vec<&[u8]> = window.chunks(size).collect();
                        let bad: Vec<bool> = chunks.iter().map(|c| c[0] & 1 == 1).collect();
                        let parr = ReadScope::new(window)
                            .ctxt()
                            .read_array_dep::<Picky>(n, size)
                            .map_err(|e| fail("spurious-eof", format!("read_array_dep::<Picky>({}, {}) on an exact window failed: {:?}", n, size, e)))?;
                        for i in 0..n {
                            let got = parr.read_item(i);
                            let ok = matches!(&got, Ok(s) if *s == chunks[i]);
                            if (bad[i] && got.is_ok()) || (!bad[i] && !ok) {
                                return Err(fail("dep-fallible-item", format!("fallible element {} of {:?}: read_item = {:?}, element rejects = {}", i, chunks, got, bad[i])));
                            }
                        }
                        let each: Vec<Option<&[u8]>> = parr.iter_res().map(|r| r.ok()).collect();
                        let exp: Vec<Option<&[u8]>> = (0..n).map(|i| if bad[i] { None } else { Some(chunks[i]) }).collect();
                        if each != exp {
                            return Err(fail("dep-fallible-iter_res", format!("iter_res over fallible elements {:?} expected {:?}", each, exp)));
                        }
                        match parr.read_to_vec() {
                            Err(_) if bad.iter().any(|b| *b) => {}
                            Ok(v) if !bad.iter().any(|b| *b) && v == chunks => {}
                            other => {
                                return Err(fail(
                                    "dep-fallible-read_to_vec",
                                    format!("read_to_vec over elements of which {} reject returned {:?} (expected {})", bad.iter().filter(|b| **b).count(), other, if bad.iter().any(|b| *b) { "Err" } else { "all elements" }),
                                ))
                            }
                        }
                    }
                    if n <= 64 {
                        let v: Vec<Option<&[u8]>> = arr.iter_res().map(|r| r.ok()).collect();
                        if v.len() != n || v.iter().enumerate().any(|(i, s)| *s != Some(&st.buf[wstart + i * size..wstart + i * size + size])) {
                            return Err(fail("dep-iter", "dep array iter_res differs from the window".to_string()));
                        }
                    }
                    Ok(())
                }
                (true, Err(e)) => Err(fail("spurious-eof", format!("read_array_dep({}, {}) with {} bytes available failed: {:?}", n, size, rem, e))),
                (false, Ok(arr)) => Err(fail("array-past-end", format!("read_array_dep({}, {}) succeeded with only {} bytes available (len {})", n, size, rem, arr.len()))),
                (false, Err(_)) => {
                    st.note_result(false);
                    st.check_cursor(&format!("failed read_array_dep({}, {})", n, size))
                }
            }
        }
    }
}

macro_rules! dispatch {
    ($e:expr, $f:ident, $($args:expr),*) => {
        match $e {
            ElemTy::U8 => $f::<U8>($($args),*, "U8"),
            ElemTy::I8 => $f::<I8>($($args),*, "I8"),
            ElemTy::U16 => $f::<U16Be>($($args),*, "U16Be"),
            ElemTy::I16 => $f::<I16Be>($($args),*, "I16Be"),
            ElemTy::U24 => $f::<U24Be>($($args),*, "U24Be"),
            ElemTy::U32 => $f::<U32Be>($($args),*, "U32Be"),
            ElemTy::I32 => $f::<I32Be>($($args),*, "I32Be"),
            ElemTy::U64 => $f::<U64Be>($($args),*, "U64Be"),
            ElemTy::I64 => $f::<I64Be>($($args),*, "I64Be"),
            ElemTy::T2 => $f::<(U8, U16Be)>($($args),*, "(U8,U16Be)"),
            ElemTy::T3 => $f::<(U16Be, U8, U32Be)>($($args),*, "(U16Be,U8,U32Be)"),
            ElemTy::T4 => $f::<(U8, U8, U16Be, U24Be)>($($args),*, "(U8,U8,U16Be,U24Be)"),
        }
    };
}

pub fn check_case(case: &Case, rec: &mut Rec) -> CaseResult {
    let buf: &[u8] = &case.buf;
    let mut st = St {
        buf,
        win: (0, buf.len()),
        off: 0,
        ctxt: ReadScope::new(buf).ctxt(),
        failed_read_seen: false,
        fail_then_ok: false,
        edge_access: false,
    };
    let mut overflow_arg = false;
    let mut strided = false;
    for op in &case.ops {
        match op {
            Op::Read(e) => dispatch!(*e, read_typed, &mut st)?,
            Op::ReadMethod(k) => read_method(&mut st, *k)?,
            Op::Array(e, c, ops) => {
                match c {
                    Ctor::Array(n) | Ctor::UptoHack(n) | Ctor::Dep(n, _) | Ctor::Stride(n, _) => {
                        if matches!(n, Num::Max | Num::HalfMaxPlus1 | Num::MaxDivPlus1(_)) {
                            overflow_arg = true;
                        }
                    }
                }
                if matches!(c, Ctor::Stride(..)) {
                    strided = true;
                }
                dispatch!(*e, do_array, &mut st, c, ops)?
            }
            Op::ReadScope(n) | Op::ReadSlice(n) => {
                let n = st.resolve(n, 1);
                let rem = st.rem();
                let is_scope = matches!(op, Op::ReadScope(_));
                let got: Option<&[u8]> = if is_scope {
                    st.ctxt.read_scope(n).ok().map(|s| s.data())
                } else {
                    st.ctxt.read_slice(n).ok()
                };
                if n <= rem {
                    let exp = &st.buf[st.pos()..st.pos() + n];
                    match got {
                        Some(s) if s == exp && (s.is_empty() || s.as_ptr() == exp.as_ptr()) => {}
                        other => return Err(fail("slice", format!("read_scope/slice({}) = {:?}, expected {:?}", n, other, exp))),
                    }
                    st.off += n;
                    st.note_result(true);
                } else {
                    if let Some(s) = got {
                        return Err(fail("slice-past-end", format!("read_scope/slice({}) with {} available returned {} bytes", n, rem, s.len())));
                    }
                    st.note_result(false);
                }
                st.check_cursor("read_scope/read_slice")?;
            }
            Op::ReadUntilNibble(nib) => {
                let window = &st.buf[st.pos()..st.win.1];
                let exp = window.iter().position(|b| (b >> 4) == *nib || (b & 0xF) == *nib);
                let got = st.ctxt.read_until_nibble(*nib).ok();
                match (exp, got) {
                    (Some(p), Some(s)) if s == &window[..=p] => {
                        st.off += p + 1;
                        st.note_result(true);
                    }
                    (None, None) => st.note_result(false),
                    (e, g) => return Err(fail("until_nibble", format!("read_until_nibble({}) = {:?}, expected prefix ending at {:?} of {:?}", nib, g, e, window))),
                }
                st.check_cursor("read_until_nibble")?;
            }
            Op::ScopeOffset(n) => {
                let o = st.resolve(n, 1);
                if matches!(n, Num::Max | Num::HalfMaxPlus1 | Num::MaxDivPlus1(_)) {
                    overflow_arg = true;
                }
                let sc = st.ctxt.scope().offset(o);
                let rem = st.rem();
                let newstart = if o <= rem { st.pos() + o } else { st.win.1 };
                if !within(st.buf, sc.data()) {
                    return Err(fail("scope-outside", format!("scope.offset({}) exposes memory outside the buffer", o)));
                }
                st.win = (newstart, st.win.1);
                if o > rem {
                    // documented behaviour: an empty scope
                    st.win = (st.win.1, st.win.1);
                }
                st.off = 0;
                st.ctxt = sc.ctxt();
                st.check_cursor(&format!("scope().offset({})", o))?;
            }
            Op::OffsetLength(a, b) => {
                let o = st.resolve(a, 1);
                let l = st.resolve(b, 1);
                if matches!(a, Num::Max | Num::HalfMaxPlus1 | Num::MaxDivPlus1(_)) || matches!(b, Num::Max | Num::HalfMaxPlus1 | Num::MaxDivPlus1(_)) {
                    overflow_arg = true;
                }
                let rem = st.rem();
                let r = st.ctxt.scope().offset_length(o, l);
                let fits = (o as u128) + (l as u128) <= rem as u128;
                match r {
                    Ok(sc) => {
                        // offset beyond the end with zero length is documented to give an empty scope
                        if !(fits || l == 0) {
                            return Err(fail("offset_length-past-end", format!("offset_length({}, {}) succeeded with {} bytes in scope", o, l, rem)));
                        }
                        if sc.data().len() != l || !within(st.buf, sc.data()) {
                            return Err(fail("offset_length-window", format!("offset_length({}, {}) returned {} bytes", o, l, sc.data().len())));
                        }
                        if l > 0 {
                            let exp = &st.buf[st.pos() + o..st.pos() + o + l];
                            if sc.data().as_ptr() != exp.as_ptr() {
                                return Err(fail("offset_length-window", format!("offset_length({}, {}) window starts at the wrong byte", o, l)));
                            }
                            // the same window reached by another route is the same scope: ReadScope's equality (and
                            // read_cache, which keys on it) covers the window's position, not only its bytes
                            // (after seeded miss C14-13)
                            if let Ok(other) = st.ctxt.scope().offset(o).offset_length(0, l) {
                                if other != sc {
                                    return Err(fail("scope-identity-differs-by-route", format!("offset_length({}, {}) != offset({}).offset_length(0, {}) although both are the same window of the same buffer", o, l, o, l)));
                                }
                            }
                            st.win = (st.pos() + o, st.pos() + o + l);
                        } else {
                            st.win = (st.win.1, st.win.1);
                        }
                        st.off = 0;
                        st.ctxt = sc.ctxt();
                        st.note_result(true);
                    }
                    Err(_) => {
                        if fits {
                            return Err(fail("spurious-eof", format!("offset_length({}, {}) failed with {} bytes in scope", o, l, rem)));
                        }
                        st.note_result(false);
                    }
                }
                st.check_cursor("offset_length")?;
            }
            Op::Rescope => {
                let sc = st.ctxt.scope();
                st.win = (st.pos(), st.win.1);
                st.off = 0;
                st.ctxt = sc.ctxt();
                st.check_cursor("scope().ctxt()")?;
            }
            Op::BytesAvailable => {
                if st.ctxt.bytes_available() != (st.rem() > 0) {
                    return Err(fail("bytes_available", format!("bytes_available() = {} with {} remaining", st.ctxt.bytes_available(), st.rem())));
                }
            }
            Op::Reset => {
                st.win = (0, buf.len());
                st.off = 0;
                st.ctxt = ReadScope::new(buf).ctxt();
            }
        }
    }
    rec.set_nontrivial(st.fail_then_ok && st.edge_access);
    rec.class_if(st.fail_then_ok, "fail-then-success");
    rec.class_if(st.edge_access, "array-edge-index");
    rec.class_if(overflow_arg, "overflow-magnitude-arg");
    rec.class_if(strided, "strided-array");
    rec.class_if(buf.is_empty(), "empty-buffer");
    Ok(())
}

impl Property for C14 {
    fn id(&self) -> &'static str {
        "C14"
    }
    fn rule(&self) -> String {
        "proptest generates (buffer of 0-64 bytes, sequence of 1-40 reader operations with boundary/overflow-magnitude arguments); \
         the sequence is interpreted on the real ReadScope/ReadCtxt/ReadArray/ReadArrayCow and on a (slice, cursor) model and compared after every step. \
         Non-trivial = the sequence contains a failing read followed by a successful one AND an array access at index len-1 or len; \
         distinct = distinct (buffer, op sequence) by hash of the Debug rendering."
            .to_string()
    }
    fn assumptions(&self) -> Vec<String> {
        vec![
            "memory accesses outside the slice are observed through the verif-hooks assertion in read_unchecked_* (all other reader code is safe Rust)".into(),
            "offset beyond the end of a scope yields an empty scope (documented by ReadScope::offset and the test_offset_length_oob unit test)".into(),
        ]
    }
    fn run(&self, ctx: &mut Ctx) {
        let n = ctx.cases(1_000_000, 20_000_000);
        ctx.section("ops", n, case_strategy(40), |case, rec| check_case(case, rec));
    }
}

// ---------------------------------------------------------------- libFuzzer decoding

use arbitrary::Unstructured;

fn u_num(u: &mut Unstructured) -> arbitrary::Result<Num> {
    Ok(match u.int_in_range(0u8..=20)? {
        0..=7 => Num::Small(u.int_in_range(0u8..=11)?),
        8 => Num::RemMinus1,
        9 | 10 => Num::Rem,
        11 | 12 => Num::RemPlus1,
        13..=15 => Num::FitCount(u.int_in_range(-1i8..=1)?),
        16 => Num::Max,
        17 => Num::HalfMaxPlus1,
        18 | 19 => Num::MaxDivPlus1(u.int_in_range(2u8..=16)?),
        _ => Num::Big(u.arbitrary()?),
    })
}

fn u_elem(u: &mut Unstructured) -> arbitrary::Result<ElemTy> {
    const E: [ElemTy; 12] = [
        ElemTy::U8, ElemTy::I8, ElemTy::U16, ElemTy::I16, ElemTy::U24, ElemTy::U32, ElemTy::I32,
        ElemTy::U64, ElemTy::I64, ElemTy::T2, ElemTy::T3, ElemTy::T4,
    ];
    Ok(E[u.int_in_range(0usize..=11)?])
}

fn u_idx(u: &mut Unstructured) -> arbitrary::Result<Idx> {
    Ok(match u.int_in_range(0u8..=13)? {
        0..=3 => Idx::Small(u.int_in_range(0u8..=9)?),
        4..=6 => Idx::LenMinus1,
        7..=9 => Idx::Len,
        10 => Idx::LenPlus1,
        11 => Idx::HighBit(u.int_in_range(0u8..=4)?, u.int_in_range(0u8..=5)?),
        12 => Idx::MaxDivPlus(u.int_in_range(1u8..=16)?, u.int_in_range(0u8..=5)?),
        _ => Idx::Max,
    })
}

fn u_arr_op(u: &mut Unstructured) -> arbitrary::Result<ArrOp> {
    Ok(match u.int_in_range(0u8..=10)? {
        0 => ArrOp::Len,
        1 => ArrOp::GetItem(u_idx(u)?),
        2 => ArrOp::ReadItem(u_idx(u)?),
        3 => ArrOp::Last,
        4 => {
            if u.arbitrary::<bool>()? {
                ArrOp::Iter(u.int_in_range(0u8..=5)?)
            } else {
                ArrOp::IterAdapt(u.int_in_range(0u8..=4)?, u.int_in_range(0u8..=4)?, u.int_in_range(0u8..=5)?)
            }
        }
        5 => ArrOp::IterRes,
        6 => ArrOp::ToVec,
        7 => ArrOp::ReadToVec,
        8 => ArrOp::BinarySearch(u.arbitrary()?),
        9 => ArrOp::CheckIndex(u_idx(u)?),
        _ => ArrOp::Cow(u.arbitrary()?, u_idx(u)?),
    })
}

/// Decode libFuzzer bytes into a case (structure-aware: the fuzzer mutates op choices).
pub fn case_from_bytes(data: &[u8]) -> arbitrary::Result<Case> {
    let mut u = Unstructured::new(data);
    let blen = u.int_in_range(0usize..=64)?;
    let mut buf = vec![0u8; blen];
    for b in buf.iter_mut() {
        *b = u.arbitrary()?;
    }
    let mut ops = Vec::new();
    while !u.is_empty() && ops.len() < 40 {
        ops.push(match u.int_in_range(0u8..=13)? {
            0..=2 => Op::Read(u_elem(&mut u)?),
            3 => Op::ReadMethod(u.int_in_range(0u8..=7)?),
            4..=7 => {
                let e = u_elem(&mut u)?;
                let c = match u.int_in_range(0u8..=3)? {
                    0 => Ctor::Array(u_num(&mut u)?),
                    1 => Ctor::Stride(u_num(&mut u)?, u_num(&mut u)?),
                    2 => Ctor::Dep(u_num(&mut u)?, u.int_in_range(0u8..=8)?),
                    _ => Ctor::UptoHack(u_num(&mut u)?),
                };
                let k = u.int_in_range(0usize..=5)?;
                let mut aops = Vec::new();
                for _ in 0..k {
                    aops.push(u_arr_op(&mut u)?);
                }
                Op::Array(e, c, aops)
            }
            8 => Op::ReadScope(u_num(&mut u)?),
            9 => Op::ReadSlice(u_num(&mut u)?),
            10 => Op::ReadUntilNibble(u.int_in_range(0u8..=15)?),
            11 => Op::ScopeOffset(u_num(&mut u)?),
            12 => Op::OffsetLength(u_num(&mut u)?, u_num(&mut u)?),
            _ => match u.int_in_range(0u8..=2)? {
                0 => Op::Rescope,
                1 => Op::BytesAvailable,
                _ => Op::Reset,
            },
        });
    }
    if ops.is_empty() {
        ops.push(Op::BytesAvailable);
    }
    Ok(Case { buf, ops })
}
