//! C05 extension: generators for the parts of the GPOS/kern domain the tape generator of
//! `c05.rs` does not reach.
//!
//! * `build_program_dev`  — a tape program decorated with Device / VariationIndex tables behind
//!   the device bits of value records and behind anchor format 3, a GDEF ItemVariationStore and
//!   a normalised location (or no tuple); judged by the unchanged `check_program`.
//! * `build_program_kern` — kern tables with format 0 and format 2 subtables in any order and
//!   number, all coverage bits; kern-only fonts (fallback path) and GPOS fonts without a `kern`
//!   feature; judged by the unchanged `check_program`.
//! * `check_liga_case`    — ligatures formed by a real GSUB (`ccmp`/`liga`: LigatureSubst incl.
//!   ligatures of ligatures, MultipleSubst on bases and marks) applied by `Font::shape`, then
//!   MarkLigPos / MarkBasePos / MarkMarkPos. The reference tracks, from the original glyph
//!   sequence, which component every mark followed.

use super::*;
use crate::fontgen::otl as gs;
use crate::refmodel::varmodel::{AxisRegion, IvsModel};

// ---------------------------------------------------------------------------------------------
// Device / VariationIndex decoration

fn gen_dev(t: &mut Tape, ivs: &IvsModel) -> DevM {
    match t.weighted(&[15, 30, 55]) {
        0 => DevM::None,
        1 => {
            let start = 6 + t.below(12) as u16;
            let end = start + t.below(14) as u16;
            DevM::Hint { start, end, fmt: 1 + t.below(3) as u8, fill: t.raw() as u16 }
        }
        _ => {
            let outer = t.below(ivs.subtables.len());
            let inner = t.below(ivs.subtables[outer].1.len());
            DevM::Var { outer: outer as u16, inner: inner as u16 }
        }
    }
}

fn decorate_value(t: &mut Tape, ivs: &IvsModel, fmt: u8, v: &mut Value) {
    for bit in 0..4 {
        if fmt & (0x10 << bit) != 0 {
            v.dev[bit] = gen_dev(t, ivs);
        }
    }
}

fn decorate_fmt(t: &mut Tape, fmt: &mut u8) {
    if t.chance(70) {
        // device bits for the fields most likely to matter, sometimes any subset
        *fmt |= match t.weighted(&[30, 25, 20, 25]) {
            0 => 0x40,
            1 => 0x10 | 0x20,
            2 => (*fmt & 0x0F) << 4,
            _ => (t.below(16) as u8) << 4,
        };
    }
}

fn decorate_anchor(t: &mut Tape, ivs: &IvsModel, a: &mut AnchorM) {
    if t.chance(45) {
        a.fmt = 3;
    }
    if a.fmt == 3 {
        a.dev = [gen_dev(t, ivs), gen_dev(t, ivs)];
    }
}

fn decorate_subtable(t: &mut Tape, ivs: &IvsModel, st: &mut Subtable) {
    match st {
        Subtable::Single1 { fmt, value, .. } => {
            decorate_fmt(t, fmt);
            decorate_value(t, ivs, *fmt, value);
        }
        Subtable::Single2 { fmt, values, .. } => {
            decorate_fmt(t, fmt);
            for v in values.iter_mut() {
                decorate_value(t, ivs, *fmt, v);
            }
        }
        Subtable::Pair1 { fmt1, fmt2, sets, .. } => {
            decorate_fmt(t, fmt1);
            if *fmt2 != 0 || t.chance(10) {
                decorate_fmt(t, fmt2);
            }
            for set in sets.iter_mut() {
                for (_, v1, v2) in set.iter_mut() {
                    decorate_value(t, ivs, *fmt1, v1);
                    decorate_value(t, ivs, *fmt2, v2);
                }
            }
        }
        Subtable::Pair2 { fmt1, fmt2, matrix, .. } => {
            decorate_fmt(t, fmt1);
            if *fmt2 != 0 || t.chance(10) {
                decorate_fmt(t, fmt2);
            }
            for row in matrix.iter_mut() {
                for (v1, v2) in row.iter_mut() {
                    decorate_value(t, ivs, *fmt1, v1);
                    decorate_value(t, ivs, *fmt2, v2);
                }
            }
        }
        Subtable::Cursive { recs, .. } => {
            for (entry, exit) in recs.iter_mut() {
                if let Some(a) = entry {
                    decorate_anchor(t, ivs, a);
                }
                if let Some(a) = exit {
                    decorate_anchor(t, ivs, a);
                }
            }
        }
        Subtable::MarkBase { marks, bases: rows, .. } | Subtable::MarkMark { marks, mark2s: rows, .. } => {
            for (_, a) in marks.iter_mut() {
                decorate_anchor(t, ivs, a);
            }
            for row in rows.iter_mut() {
                for a in row.iter_mut().flatten() {
                    decorate_anchor(t, ivs, a);
                }
            }
        }
        Subtable::MarkLig { marks, ligs, .. } => {
            for (_, a) in marks.iter_mut() {
                decorate_anchor(t, ivs, a);
            }
            for comps in ligs.iter_mut() {
                for row in comps.iter_mut() {
                    for a in row.iter_mut().flatten() {
                        decorate_anchor(t, ivs, a);
                    }
                }
            }
        }
        _ => {}
    }
}

/// raw F2Dot14 coordinate, biased to the interesting points
fn gen_coord(t: &mut Tape) -> i16 {
    match t.weighted(&[15, 20, 15, 10, 40]) {
        0 => 0,
        1 => 16384,
        2 => -16384,
        3 => [8192, -8192, 4096, 12288][t.below(4)],
        _ => (t.below(32769) as i32 - 16384) as i16,
    }
}

fn gen_axis_region(t: &mut Tape) -> AxisRegion {
    // valid regions only: start <= peak <= end, not spanning zero unless the peak is zero
    match t.weighted(&[25, 25, 15, 20, 15]) {
        0 => AxisRegion { start: 0, peak: 16384, end: 16384 },
        1 => AxisRegion { start: -16384, peak: -16384, end: 0 },
        2 => AxisRegion { start: 0, peak: 0, end: 0 }, // the axis does not take part
        3 => {
            // intermediate region on the positive side
            let a = 1 + t.below(16383) as i16;
            let b = 1 + t.below(16383) as i16;
            let c = 1 + t.below(16384) as i16;
            let mut v = [a, b, c];
            v.sort_unstable();
            AxisRegion { start: v[0], peak: v[1], end: v[2] }
        }
        _ => {
            let a = -(1 + t.below(16384) as i16);
            let b = -(1 + t.below(16383) as i16);
            let c = -(1 + t.below(16383) as i16);
            let mut v = [a, b, c];
            v.sort_unstable();
            AxisRegion { start: v[0], peak: v[1], end: v[2] }
        }
    }
}

fn gen_ivs(t: &mut Tape, axes: usize) -> IvsModel {
    let nregions = 1 + t.below(4);
    let regions: Vec<Vec<AxisRegion>> = (0..nregions).map(|_| (0..axes).map(|_| gen_axis_region(t)).collect()).collect();
    let nsub = 1 + t.below(2);
    let mut subtables = Vec::new();
    for _ in 0..nsub {
        let nri = 1 + t.below(nregions.min(3));
        // region indexes: distinct, any order
        let mut pool: Vec<u16> = (0..nregions as u16).collect();
        let mut ri = Vec::new();
        for _ in 0..nri {
            ri.push(pool.remove(t.below(pool.len())));
        }
        let nitems = 1 + t.below(6);
        let rows: Vec<Vec<i32>> = (0..nitems)
            .map(|_| {
                (0..nri)
                    .map(|_| match t.weighted(&[55, 30, 10, 5]) {
                        0 => t.signed(100) as i32,
                        1 => t.signed(1500) as i32,
                        2 => 0,
                        _ => t.signed(12000) as i32,
                    })
                    .collect()
            })
            .collect();
        subtables.push((ri, rows));
    }
    IvsModel { regions, subtables }
}

pub const DEV_TAIL: usize = 700;

/// A tape program whose value records and anchors carry Device / VariationIndex tables.
pub fn build_program_dev(tape: &[u32]) -> Program {
    let split = TAPE_LEN.min(tape.len());
    let (head, tail) = tape.split_at(split);
    let mut p = build_program(head);
    let mut tape2 = Tape { v: tail, pos: 0 };
    let t = &mut tape2;
    let axes = 1 + t.below(3);
    let ivs = gen_ivs(t, axes);
    let regions = ivs.regions.clone();
    if let Some(g) = p.gpos.as_mut() {
        for l in g.lookups.iter_mut() {
            for st in l.subtables.iter_mut() {
                decorate_subtable(t, &ivs, st);
            }
        }
    }
    match p.gdef.as_mut() {
        Some(g) => g.ivs = Some(ivs),
        None => {
            if p.gpos.is_some() {
                p.gdef = Some(GdefModel { glyph_classes: None, mark_attach: None, mark_sets: vec![], minor: 3, ivs: Some(ivs) });
            }
        }
    }
    p.axes = axes as u16;
    p.tuple = if t.chance(15) {
        None
    } else if t.chance(55) {
        // inside one of the regions: at its peak or between start and peak
        let r = regions[t.below(regions.len())].clone();
        Some(
            r.iter()
                .map(|a| {
                    if a.peak == 0 {
                        gen_coord(t)
                    } else if t.chance(55) {
                        a.peak
                    } else {
                        ((a.start as i32 + a.peak as i32) / 2) as i16
                    }
                })
                .collect(),
        )
    } else {
        Some((0..axes).map(|_| gen_coord(t)).collect())
    };
    p
}

// ---------------------------------------------------------------------------------------------
// kern tables

fn gen_kern_any(t: &mut Tape, all: &[Gid], seed: &[Gid]) -> KernModel {
    let nsub = 1 + t.weighted(&[25, 35, 25, 15]);
    let succ: Vec<(Gid, Gid)> = seed.windows(2).map(|w| (w[0], w[1])).collect();
    let mut subs = Vec::new();
    for _ in 0..nsub {
        let mut coverage = KERN_HORIZONTAL;
        if t.chance(8) {
            coverage = 0;
        }
        if t.chance(6) {
            coverage |= KERN_CROSS_STREAM;
        }
        if t.chance(5) {
            coverage |= KERN_MINIMUM;
        }
        if t.chance(18) {
            coverage |= KERN_OVERRIDE;
        }
        if t.chance(50) {
            let nl = 2 + t.below(3);
            let nr = 2 + t.below(3);
            let n = all.len();
            // class tables that cover the seed glyphs often
            let lf = 1 + t.below(n.min(4)) as u16;
            let ll = 1 + t.below(n - lf as usize + 1);
            let rf = 1 + t.below(n.min(4)) as u16;
            let rl = 1 + t.below(n - rf as usize + 1);
            let left = (0..ll).map(|_| t.below(nl) as u16).collect();
            let right = (0..rl).map(|_| t.below(nr) as u16).collect();
            let matrix = (0..nl).map(|r| (0..nr).map(|c| if r == 0 || c == 0 || t.chance(15) { 0 } else { t.value() }).collect()).collect();
            subs.push(KernSub { coverage, data: KernData::F2 { left_first: lf, left, right_first: rf, right, matrix, layout: t.below(3) as u8 } });
        } else {
            let mut pairs: BTreeMap<(Gid, Gid), i16> = BTreeMap::new();
            for p in &succ {
                if t.chance(55) {
                    pairs.insert(*p, if t.chance(8) { 0 } else { t.value() });
                }
            }
            for _ in 0..t.below(8) {
                let l = all[t.below(all.len())];
                let r = all[t.below(all.len())];
                pairs.insert((l, r), t.value());
            }
            subs.push(KernSub { coverage, data: KernData::F0(pairs.into_iter().map(|((l, r), v)| (l, r, v)).collect()) });
        }
    }
    KernModel { subs, trailing: if t.chance(30) { (t.below(40) * 2) as u16 } else { 0 } }
}

pub const KERN_TAIL: usize = 400;

/// A tape program re-fitted with a kern table of mixed format 0 / format 2 subtables.
pub fn build_program_kern(tape: &[u32]) -> Program {
    let split = TAPE_LEN.min(tape.len());
    let (head, tail) = tape.split_at(split);
    let mut p = build_program(head);
    let mut tape2 = Tape { v: tail, pos: 0 };
    let t = &mut tape2;
    let all: Vec<Gid> = (1..p.nglyphs).collect();
    let seed: Vec<Gid> = p.strings[0].iter().map(|g| g.gid).collect();
    p.kern = Some(gen_kern_any(t, &all, &seed));
    if t.chance(45) {
        // kern-only font: the fallback path (no GDEF, see build_program)
        p.gpos = None;
        p.gdef = None;
        p.custom = vec![];
        p.lang = None;
    } else if let Some(g) = p.gpos.as_mut() {
        // the kern table is used when the selected LangSys has no GPOS `kern` feature
        for f in g.features.iter_mut() {
            if &f.tag == b"kern" {
                f.tag = *b"zzzz";
            }
        }
    }
    // strings made of kern-relevant neighbours
    for s in p.strings.iter_mut().skip(1) {
        if t.chance(40) {
            let len = 2 + t.below(9);
            *s = (0..len).map(|_| GlyphIn { gid: all[t.below(all.len())], comp: 0, lig: false }).collect();
        }
    }
    p
}

// ---------------------------------------------------------------------------------------------
// ligatures formed by GSUB, then mark attachment

/// deviations of the component bookkeeping (bits disjoint from `refm::dev`)
pub mod xdev {
    /// when a ligature is formed, marks between / after the components are numbered by the
    /// position of the preceding glyph *in this ligature's component list*; the component
    /// counts of components that are ligatures themselves, and the mark's component within
    /// such a component, are lost
    pub const LIGA_NESTED: u32 = 1 << 0;
    /// the second and later glyphs of a MultipleSubst output get component 0 instead of the
    /// component of the glyph they replace
    pub const MULTI_DUP: u32 = 1 << 1;
    pub const ALL: [u32; 2] = [LIGA_NESTED, MULTI_DUP];
    pub fn name(bit: u32) -> &'static str {
        match bit {
            LIGA_NESTED => "ligature-of-ligatures-component-numbering",
            MULTI_DUP => "multiple-subst-copy-loses-ligature-component",
            _ => "?",
        }
    }
}

#[derive(Clone, Debug)]
pub enum SubLookup {
    /// LigatureSubst: subtables of (first glyph -> ligatures (components after the first, ligature glyph))
    Lig { flags: Flags, subtables: Vec<BTreeMap<Gid, Vec<(Vec<Gid>, Gid)>>> },
    /// MultipleSubst
    Mult { flags: Flags, map: BTreeMap<Gid, Vec<Gid>> },
}

#[derive(Clone, Debug)]
pub struct LigaCase {
    pub nglyphs: u16,
    pub gdef: GdefModel,
    pub sub: Vec<SubLookup>,
    /// feature tag of every GSUB lookup
    pub sub_feature: Vec<[u8; 4]>,
    pub sub_script: [u8; 4],
    pub gpos: GposModel,
    pub advances: Vec<u16>,
    pub strings: Vec<Vec<Gid>>,
    /// number of original components of every glyph (1 unless a ligature)
    pub ncomp: Vec<usize>,
}

fn to_gs_flags(f: &Flags) -> gs::LookupFlags {
    gs::LookupFlags {
        right_to_left: f.rtl,
        ignore_base: f.ignore_base,
        ignore_ligatures: f.ignore_lig,
        ignore_marks: f.ignore_marks,
        mark_attach_type: f.mark_attach_type,
        mark_filtering_set: f.mark_filter_set,
    }
}

fn gsub_model(c: &LigaCase) -> gs::GsubModel {
    let mut lookups = Vec::new();
    for l in &c.sub {
        match l {
            SubLookup::Lig { flags, subtables } => {
                let sts = subtables
                    .iter()
                    .map(|m| {
                        let cov = gs::Cov::new(m.keys().copied().collect(), 1 + (m.len() % 2) as u8);
                        let sets = cov.glyphs.iter().map(|g| m[g].iter().map(|(rest, lig)| gs::Lig { components: rest.clone(), glyph: *lig }).collect()).collect();
                        gs::Subtable::Ligature { cov, sets }
                    })
                    .collect();
                lookups.push(gs::Lookup { lookup_type: 4, flags: to_gs_flags(flags), subtables: sts, extension: None });
            }
            SubLookup::Mult { flags, map } => {
                let cov = gs::Cov::new(map.keys().copied().collect(), 1);
                let seqs = cov.glyphs.iter().map(|g| map[g].clone()).collect();
                lookups.push(gs::Lookup { lookup_type: 2, flags: to_gs_flags(flags), subtables: vec![gs::Subtable::Multiple { cov, seqs }], extension: None });
            }
        }
    }
    let tags: [[u8; 4]; 2] = [*b"ccmp", *b"liga"];
    let features: Vec<gs::FeatureM> = tags
        .iter()
        .map(|tag| gs::FeatureM { tag: *tag, lookups: (0..c.sub.len()).filter(|i| &c.sub_feature[*i] == tag).map(|i| i as u16).collect() })
        .collect();
    gs::GsubModel {
        scripts: vec![gs::ScriptM { tag: c.sub_script, default_langsys: Some(gs::LangSysM { required_feature: 0xFFFF, feature_indices: vec![0, 1] }), langsys: vec![] }],
        features,
        lookups,
        feature_variations: None,
        force_v11: false,
    }
}

/// one glyph of the run while the reference applies GSUB
#[derive(Clone, Debug)]
struct RG {
    gid: Gid,
    mark: bool,
    /// original (input) indices of the non-mark glyphs this glyph was made of, in order
    origs: Vec<usize>,
    /// marks: original index of the non-mark glyph the mark followed in the input
    follows: Option<usize>,
    /// component-number bookkeeping (second formulation; carries the deviations)
    comp: usize,
    ncomp: usize,
}

pub struct SubResult {
    pub glyphs: Vec<GlyphIn>,
    pub classes: Vec<String>,
    pub ambiguous: bool,
}

/// Reference GSUB for the two lookup types of this section (OpenType GSUB: LookupType 2 and 4;
/// chapter 2 lookup flags), with the mark-to-component bookkeeping GPOS MarkLigPos asks the
/// client for: a mark belongs to the ligature component it followed in the original sequence.
pub fn apply_sub(c: &LigaCase, input: &[Gid], xdevs: u32) -> SubResult {
    let gdef = Some(&c.gdef);
    let is_mark = |g: Gid| c.gdef.class(g) == 3;
    let mut classes: Vec<String> = Vec::new();
    let mut run: Vec<RG> = Vec::new();
    let mut last_base: Option<usize> = None;
    for (k, g) in input.iter().enumerate() {
        if is_mark(*g) {
            run.push(RG { gid: *g, mark: true, origs: vec![], follows: last_base, comp: 0, ncomp: 1 });
        } else {
            last_base = Some(k);
            run.push(RG { gid: *g, mark: false, origs: vec![k], follows: None, comp: 0, ncomp: 1 });
        }
    }
    for l in &c.sub {
        match l {
            SubLookup::Lig { flags, subtables } => {
                let mut i = 0;
                while i < run.len() {
                    if refm::skip_reason(gdef, flags, run[i].gid, 0).is_some() {
                        i += 1;
                        continue;
                    }
                    let mut found: Option<(Gid, Vec<usize>)> = None;
                    'search: for st in subtables {
                        if let Some(set) = st.get(&run[i].gid) {
                            for (rest, lig) in set {
                                let mut positions = vec![i];
                                let mut cur = i;
                                let mut ok = true;
                                for want in rest {
                                    let mut nxt = cur + 1;
                                    while nxt < run.len() && refm::skip_reason(gdef, flags, run[nxt].gid, 0).is_some() {
                                        nxt += 1;
                                    }
                                    if nxt >= run.len() || run[nxt].gid != *want {
                                        ok = false;
                                        break;
                                    }
                                    positions.push(nxt);
                                    cur = nxt;
                                }
                                if ok {
                                    found = Some((*lig, positions));
                                    break 'search;
                                }
                            }
                        }
                    }
                    let (lig, positions) = match found {
                        Some(f) => f,
                        None => {
                            i += 1;
                            continue;
                        }
                    };
                    classes.push(format!("gsub:ligature-{}", positions.len().min(4)));
                    // component offsets of the matched glyphs within the new ligature
                    let mut offsets = Vec::new();
                    let mut total = 0;
                    for p in &positions {
                        offsets.push(total);
                        total += run[*p].ncomp;
                    }
                    if positions.iter().any(|p| run[*p].ncomp > 1) {
                        classes.push("gsub:ligature-of-ligature".into());
                    }
                    let last = *positions.last().unwrap();
                    let k = positions.len() - 1;
                    // glyphs between the components were skipped by the flags (marks: the flags
                    // of this section skip nothing else)
                    let mut skipped_between = 0;
                    for j in 0..k {
                        for q in positions[j] + 1..positions[j + 1] {
                            skipped_between += 1;
                            let old = run[q].comp;
                            run[q].comp = if xdevs & xdev::LIGA_NESTED != 0 { j } else { offsets[j] + old };
                            if run[q].mark {
                                classes.push("gsub:mark-between-components".into());
                                if run[positions[j]].ncomp > 1 {
                                    classes.push("gsub:mark-inside-nested-ligature".into());
                                }
                            }
                        }
                    }
                    // marks directly after the last component follow that component
                    let mut q = last + 1;
                    while q < run.len() && run[q].mark {
                        let old = run[q].comp;
                        run[q].comp = if xdevs & xdev::LIGA_NESTED != 0 { k } else { offsets[k] + old };
                        classes.push("gsub:mark-after-ligature".into());
                        q += 1;
                    }
                    let mut origs = Vec::new();
                    for p in &positions {
                        origs.extend(run[*p].origs.iter().copied());
                    }
                    run[i] = RG { gid: lig, mark: false, origs, follows: None, comp: 0, ncomp: total };
                    for p in positions[1..].iter().rev() {
                        run.remove(*p);
                    }
                    i += skipped_between + 1;
                }
            }
            SubLookup::Mult { flags, map } => {
                let mut i = 0;
                while i < run.len() {
                    if refm::skip_reason(gdef, flags, run[i].gid, 0).is_some() {
                        i += 1;
                        continue;
                    }
                    match map.get(&run[i].gid) {
                        Some(seq) => {
                            let old = run[i].clone();
                            classes.push(if old.mark { "gsub:multiple-on-mark".into() } else { "gsub:multiple-on-base".into() });
                            if old.mark && old.comp > 0 && seq.len() > 1 {
                                classes.push("gsub:multiple-on-mark-of-component>0".into());
                            }
                            run.remove(i);
                            for (j, g) in seq.iter().enumerate() {
                                let mut n = old.clone();
                                n.gid = *g;
                                n.ncomp = 1;
                                if j > 0 && xdevs & xdev::MULTI_DUP != 0 {
                                    n.comp = 0;
                                }
                                run.insert(i + j, n);
                            }
                            i += seq.len();
                        }
                        None => i += 1,
                    }
                }
            }
        }
    }
    // association by original positions (first formulation): the component is the place of
    // the glyph the mark followed among the originals of the final preceding non-mark glyph
    let mut ambiguous = false;
    let mut out = Vec::new();
    let mut base: Option<usize> = None;
    for (j, g) in run.iter().enumerate() {
        if !g.mark {
            base = Some(j);
            out.push(GlyphIn { gid: g.gid, comp: 0, lig: false });
            continue;
        }
        // (a base that MultipleSubst split into glyphs which then became different components
        // of one ligature is "the glyph the mark followed" twice over: not asserted)
        let by_origs = match (base, g.follows) {
            (Some(b), Some(f)) if run[b].origs.iter().filter(|o| **o == f).count() == 1 => run[b].origs.iter().position(|o| *o == f),
            _ => None,
        };
        let comp = if xdevs == 0 {
            match (base, by_origs) {
                (None, _) => 0,
                (Some(_), Some(p)) => {
                    // the two formulations of the specification's rule must agree
                    assert_eq!(p, g.comp, "component bookkeeping formulations disagree on {:?} in {:?}", g, run);
                    p
                }
                (Some(_), None) => {
                    ambiguous = true;
                    0
                }
            }
        } else {
            g.comp
        };
        if comp > 0 {
            classes.push("gsub:mark-on-component>0".into());
        }
        out.push(GlyphIn { gid: g.gid, comp: comp as u16, lig: false });
    }
    SubResult { glyphs: out, classes, ambiguous }
}

struct LigaBuilt {
    font: Vec<u8>,
}

fn build_liga(c: &LigaCase) -> Result<LigaBuilt, TooBig> {
    let mut f = BasicFont::with_glyphs(c.nglyphs);
    for g in 0..c.nglyphs {
        f.metrics[g as usize] = (c.advances[g as usize], 0);
        f.cmap.insert(0xE000 + g as u32, g);
    }
    let gsub = gs::gsub_table(&gsub_model(c)).map_err(|_| TooBig)?;
    f.extra.push((*b"GSUB", gsub));
    f.extra.push((*b"GPOS", encode_gpos(&c.gpos)?));
    f.extra.push((*b"GDEF", encode_gdef(&c.gdef)?));
    Ok(LigaBuilt { font: f.build() })
}

fn liga_anchor(t: &mut Tape, comp: usize) -> AnchorM {
    // anchors of different components are far apart so that a wrong component shows
    AnchorM { x: (comp as i16) * 400 + t.signed(150), y: 500 + t.signed(300), fmt: 1 + t.below(3) as u8, point: t.below(20) as u16, dev: [DevM::None; 2] }
}

pub const LIGA_TAPE: usize = 500;

pub fn build_liga_case(tape: &[u32]) -> LigaCase {
    let mut tape = Tape { v: tape, pos: 0 };
    let t = &mut tape;
    let nb = 3 + t.below(3);
    let nx = 2; // extra bases (MultipleSubst outputs)
    let nm = 2 + t.below(3);
    let nmx = 1 + t.below(2); // extra marks (MultipleSubst outputs)
    let nl = 2 + t.below(3);
    let mut next: Gid = 1;
    let mut take = |n: usize| -> Vec<Gid> {
        let v: Vec<Gid> = (0..n as u16).map(|i| next + i).collect();
        next += n as u16;
        v
    };
    let bases = take(nb);
    let xbases = take(nx);
    let marks = take(nm);
    let xmarks = take(nmx);
    let ligs = take(nl);
    let nglyphs = next;
    let mut class_map: BTreeMap<Gid, u16> = BTreeMap::new();
    for g in bases.iter().chain(xbases.iter()) {
        class_map.insert(*g, 1);
    }
    for g in marks.iter().chain(xmarks.iter()) {
        class_map.insert(*g, 3);
    }
    for g in &ligs {
        class_map.insert(*g, 2);
    }
    let all_marks: Vec<Gid> = marks.iter().chain(xmarks.iter()).copied().collect();
    let attach: BTreeMap<Gid, u16> = all_marks.iter().map(|g| (*g, 1 + t.below(2) as u16)).collect();
    let nsets = 1 + t.below(2);
    let mark_sets: Vec<Cov> = (0..nsets).map(|_| gen_cov(t, &all_marks, 50)).collect();
    let gdef = GdefModel {
        glyph_classes: Some(ClassDefM { map: class_map, fmt: 1 + t.below(3) as u8 }),
        mark_attach: Some(ClassDefM { map: attach, fmt: 1 + t.below(3) as u8 }),
        mark_sets,
        minor: 2,
        ivs: None,
    };

    // ligature definitions: every ligature glyph has exactly one decomposition
    let mut ncomp = vec![1usize; nglyphs as usize];
    let mut defs: Vec<(Vec<Gid>, Gid)> = Vec::new();
    let plain_pool: Vec<Gid> = bases.iter().chain(xbases.iter().take(1)).copied().collect();
    for (k, lg) in ligs.iter().enumerate() {
        let mut comps: Vec<Gid> = Vec::new();
        let nested = k > 0 && t.chance(55);
        if nested {
            let inner = ligs[t.below(k)];
            match t.weighted(&[60, 25, 15]) {
                0 => {
                    comps.push(inner);
                    comps.push(plain_pool[t.below(plain_pool.len())]);
                }
                1 => {
                    comps.push(plain_pool[t.below(plain_pool.len())]);
                    comps.push(inner);
                }
                _ => comps.push(inner), // a one-component "ligature" of a ligature
            }
            if comps.len() == 2 && t.chance(20) {
                comps.push(plain_pool[t.below(plain_pool.len())]);
            }
        } else {
            let n = 2 + t.weighted(&[70, 30]);
            for _ in 0..n {
                comps.push(plain_pool[t.below(plain_pool.len())]);
            }
        }
        if defs.iter().any(|d| d.0 == comps) {
            // keep decompositions distinct: vary the last component
            let alt = plain_pool[(k + 1) % plain_pool.len()];
            comps.push(alt);
        }
        ncomp[*lg as usize] = comps.iter().map(|g| ncomp[*g as usize]).sum();
        defs.push((comps, *lg));
    }

    // GSUB lookups
    let nlig_lookups = 1 + t.weighted(&[35, 45, 20]);
    let mut lig_lookup_defs: Vec<Vec<(Vec<Gid>, Gid)>> = vec![Vec::new(); nlig_lookups];
    for (k, d) in defs.iter().enumerate() {
        let is_nested = d.0.iter().any(|g| ncomp[*g as usize] > 1);
        let li = if is_nested && t.chance(75) {
            // after the lookup that forms its inner ligature
            let inner = d.0.iter().find(|g| ncomp[**g as usize] > 1).copied().unwrap();
            let inner_at = lig_lookup_defs.iter().position(|v| v.iter().any(|x| x.1 == inner)).unwrap_or(0);
            (inner_at + 1).min(nlig_lookups - 1)
        } else {
            t.below(nlig_lookups)
        };
        let _ = k;
        lig_lookup_defs[li].push(d.clone());
    }
    let mut sub: Vec<SubLookup> = Vec::new();
    for ds in lig_lookup_defs.into_iter() {
        let mut flags = Flags::default();
        match t.weighted(&[55, 13, 16, 16]) {
            0 => flags.ignore_marks = true,
            1 => {}
            2 => flags.mark_attach_type = 1 + t.below(2) as u8,
            _ => flags.mark_filter_set = Some(t.below(nsets) as u16),
        }
        let nst = if ds.len() > 1 && t.chance(30) { 2 } else { 1 };
        let mut subtables: Vec<BTreeMap<Gid, Vec<(Vec<Gid>, Gid)>>> = vec![BTreeMap::new(); nst];
        for d in ds {
            let si = t.below(nst);
            subtables[si].entry(d.0[0]).or_default().push((d.0[1..].to_vec(), d.1));
        }
        for st in subtables.iter_mut() {
            for set in st.values_mut() {
                // longest first (the usual order), sometimes as generated
                if !t.chance(20) {
                    set.sort_by(|a, b| b.0.len().cmp(&a.0.len()));
                }
            }
        }
        subtables.retain(|m| !m.is_empty());
        if subtables.is_empty() {
            continue;
        }
        sub.push(SubLookup::Lig { flags, subtables });
    }
    if t.chance(60) {
        let mut map: BTreeMap<Gid, Vec<Gid>> = BTreeMap::new();
        if t.chance(70) {
            // a mark decomposes into marks
            let m = marks[t.below(marks.len())];
            let mut seq = vec![if t.chance(60) { m } else { xmarks[0] }];
            seq.push(xmarks[t.below(xmarks.len())]);
            if t.chance(20) {
                seq.push(marks[t.below(marks.len())]);
            }
            map.insert(m, seq);
        }
        if map.is_empty() || t.chance(50) {
            // a base decomposes into bases
            let b = bases[t.below(bases.len())];
            let mut seq = vec![if t.chance(50) { b } else { xbases[1] }];
            seq.push(xbases[t.below(xbases.len())]);
            map.insert(b, seq);
        }
        let flags = if t.chance(25) { Flags { ignore_marks: true, ..Flags::default() } } else { Flags::default() };
        let at = t.below(sub.len() + 1);
        sub.insert(at, SubLookup::Mult { flags, map });
    }
    let sub_feature: Vec<[u8; 4]> = (0..sub.len()).map(|_| if t.chance(40) { *b"ccmp" } else { *b"liga" }).collect();
    let sub_script = if t.chance(50) { *b"DFLT" } else { *b"latn" };

    // GPOS: mark-to-ligature (+ mark-to-base, mark-to-mark)
    let mut lookups: Vec<Lookup> = Vec::new();
    let nml = 1 + t.weighted(&[75, 25]);
    for _ in 0..nml {
        let mark_cov = gen_cov(t, &all_marks, 85);
        let lig_cov = gen_cov(t, &ligs, 90);
        let class_count = 1 + t.below(2) as u16;
        let marks_arr: Vec<(u16, AnchorM)> = (0..mark_cov.len()).map(|_| (t.below(class_count as usize) as u16, liga_anchor(t, 0))).collect();
        let ligs_arr: Vec<Vec<Vec<Option<AnchorM>>>> = lig_cov
            .glyphs
            .iter()
            .map(|lg| (0..ncomp[*lg as usize]).map(|comp| (0..class_count).map(|_| if t.chance(92) { Some(liga_anchor(t, comp)) } else { None }).collect()).collect())
            .collect();
        let mut flags = Flags::default();
        if t.chance(20) {
            match t.below(2) {
                0 => flags.mark_attach_type = 1 + t.below(2) as u8,
                _ => flags.mark_filter_set = Some(t.below(nsets) as u16),
            }
        }
        lookups.push(Lookup {
            ltype: 5,
            flags,
            subtables: vec![Subtable::MarkLig { mark_cov, lig_cov, class_count, marks: marks_arr, ligs: ligs_arr }],
            extension: t.chance(15),
            share: t.chance(50),
        });
    }
    let mut mark_feature: Vec<u16> = (0..lookups.len() as u16).collect();
    if t.chance(50) {
        let mark_cov = gen_cov(t, &all_marks, 80);
        let nonlig: Vec<Gid> = bases.iter().chain(xbases.iter()).copied().collect();
        let base_cov = gen_cov(t, &nonlig, 70);
        let marks_arr: Vec<(u16, AnchorM)> = (0..mark_cov.len()).map(|_| (0, liga_anchor(t, 0))).collect();
        let bases_arr = (0..base_cov.len()).map(|_| vec![Some(liga_anchor(t, 0))]).collect();
        mark_feature.push(lookups.len() as u16);
        lookups.push(Lookup { ltype: 4, flags: Flags::default(), subtables: vec![Subtable::MarkBase { mark_cov, base_cov, class_count: 1, marks: marks_arr, bases: bases_arr }], extension: false, share: false });
    }
    let mut features = vec![Feature { tag: *b"mark", lookups: mark_feature }];
    if t.chance(35) {
        let mark1_cov = gen_cov(t, &all_marks, 70);
        let mark2_cov = gen_cov(t, &all_marks, 70);
        let marks_arr: Vec<(u16, AnchorM)> = (0..mark1_cov.len()).map(|_| (0, liga_anchor(t, 0))).collect();
        let mark2s = (0..mark2_cov.len()).map(|_| vec![Some(liga_anchor(t, 0))]).collect();
        features.push(Feature { tag: *b"mkmk", lookups: vec![lookups.len() as u16] });
        lookups.push(Lookup { ltype: 6, flags: Flags::default(), subtables: vec![Subtable::MarkMark { mark1_cov, mark2_cov, class_count: 1, marks: marks_arr, mark2s }], extension: false, share: false });
    }
    let nf = features.len() as u16;
    let gpos = GposModel { lookups, features, scripts: vec![ScriptM { tag: if t.chance(50) { *b"DFLT" } else { *b"latn" }, default: Some((0..nf).collect()), langsys: vec![] }], minor: 0 };

    let zero_marks = t.chance(60);
    let mut advances = vec![600u16];
    for g in 1..nglyphs {
        let mark = gdef.class(g) == 3;
        advances.push(if mark {
            if zero_marks || t.chance(40) {
                0
            } else {
                1 + t.below(300) as u16
            }
        } else {
            200 + t.below(900) as u16
        });
    }

    // strings: expansions of ligature definitions with marks sprinkled after components
    let expand = |lg: Gid, defs: &Vec<(Vec<Gid>, Gid)>| -> Vec<Gid> {
        let mut v = vec![lg];
        loop {
            let mut changed = false;
            let mut w = Vec::new();
            for g in &v {
                match defs.iter().find(|d| d.1 == *g) {
                    Some(d) => {
                        w.extend(d.0.iter().copied());
                        changed = true;
                    }
                    None => w.push(*g),
                }
            }
            v = w;
            if !changed {
                return v;
            }
        }
    };
    let mut strings: Vec<Vec<Gid>> = Vec::new();
    for _ in 0..4 {
        let mut s: Vec<Gid> = Vec::new();
        let kind = t.weighted(&[70, 20, 10]);
        if kind == 2 {
            let len = 1 + t.below(10);
            for _ in 0..len {
                s.push(if t.chance(35) { marks[t.below(marks.len())] } else { plain_pool[t.below(plain_pool.len())] });
            }
        } else {
            if t.chance(35) {
                s.push(plain_pool[t.below(plain_pool.len())]);
                if t.chance(40) {
                    s.push(marks[t.below(marks.len())]);
                }
            }
            let nwords = 1 + (kind == 1) as usize;
            for _ in 0..nwords {
                let lg = ligs[t.below(ligs.len())];
                let comps = expand(lg, &defs);
                let last = comps.len() - 1;
                for (k, g) in comps.iter().enumerate() {
                    s.push(*g);
                    let p = if k == last { 65 } else { 40 };
                    if t.chance(p) {
                        s.push(marks[t.below(marks.len())]);
                        if t.chance(25) {
                            s.push(marks[t.below(marks.len())]);
                        }
                    }
                }
            }
            if t.chance(30) {
                s.push(plain_pool[t.below(plain_pool.len())]);
            }
        }
        s.truncate(14);
        strings.push(s);
    }
    LigaCase { nglyphs, gdef, sub, sub_feature, sub_script, gpos, advances, strings, ncomp }
}

fn liga_stub(c: &LigaCase) -> Program {
    Program {
        nglyphs: c.nglyphs,
        gdef: Some(c.gdef.clone()),
        gpos: Some(c.gpos.clone()),
        kern: None,
        advances: c.advances.clone(),
        strings: vec![],
        custom: vec![*b"ccmp", *b"liga"],
        lang: None,
        kerning: vec![],
        zero_advance_marks: false,
        axes: 0,
        tuple: None,
    }
}

static XPRESENT: std::sync::OnceLock<u32> = std::sync::OnceLock::new();

fn xlisted(k: u32) -> bool {
    crate::engine::known::known_for("C05").contains_key(&format!("C05:{}", xdev::name(k)))
}

/// component-bookkeeping deviations allsorts exhibits on their pinned cases and that
/// known_findings.json lists as known
pub fn xpresent() -> u32 {
    *XPRESENT.get_or_init(|| {
        let mut m = 0;
        for k in xdev::ALL.iter() {
            if let Ok((PinnedStatus::Present, _)) = xpinned_status(*k) {
                if xlisted(*k) {
                    m |= *k;
                }
            }
        }
        m
    })
}

/// One string of a ligature case against allsorts. `allow`: deviation sets (xdev, dev) that may
/// explain a mismatch. Returns the classes and, if attributed, the deviations used.
fn check_liga_string(c: &LigaCase, font: &[u8], stub: &Program, input: &[Gid], allow_x: u32, allow_d: u32) -> Result<(Vec<String>, u32, u32, bool), Fail> {
    let s_in: Vec<GlyphIn> = input.iter().map(|g| GlyphIn { gid: *g, comp: 0, lig: false }).collect();
    let tags: [[u8; 4]; 6] = [*b"dist", *b"kern", *b"mark", *b"mkmk", *b"ccmp", *b"liga"];
    let (steps, _) = refm::steps_for(Some(&c.gpos), false, b"latn", None, &tags);
    let spec = apply_sub(c, input, 0);
    let mut classes = spec.classes.clone();
    if spec.ambiguous {
        classes.push("excluded:mark-association-lost".into());
        return Ok((classes, 0, 0, false));
    }
    let run = |glyphs: &[GlyphIn], devs: u32| Interp::new(Some(&c.gdef), Some(&c.gpos), None, devs, glyphs).run(&steps);
    let r0 = run(&spec.glyphs, 0);
    if r0.notes.overflow || !r0.notes.ambiguous.is_empty() {
        for a in r0.notes.ambiguous.iter() {
            classes.push(format!("excluded:{}", a));
        }
        return Ok((classes, 0, 0, false));
    }
    let obs = observe(font, &s_in, &stub.custom, None, true)?;
    let ctx = |d: &str| {
        format!(
            "input [{}] -> expected [{}], allsorts [{}]: {}\ncase: {:?}",
            input.iter().map(|g| g.to_string()).collect::<Vec<_>>().join(" "),
            render_string(&spec.glyphs),
            obs.infos.iter().map(|i| format!("{}c{}", i.glyph.glyph_index, i.glyph.liga_component_pos)).collect::<Vec<_>>().join(" "),
            d,
            c
        )
    };
    // the glyph sequence GSUB produced
    let got: Vec<Gid> = obs.infos.iter().map(|i| i.glyph.glyph_index).collect();
    let want: Vec<Gid> = spec.glyphs.iter().map(|g| g.gid).collect();
    if got != want {
        return Err(fail("gsub-sequence", ctx("Font::shape produced another glyph sequence")));
    }
    let mut cls = Vec::new();
    let verdict = diff_all(stub, &spec.glyphs, &obs, &r0, 0, false, &mut cls);
    let nontrivial = r0.out.iter().any(|o| !o.is_trivial());
    for cl in &r0.notes.classes {
        classes.push(cl.clone());
    }
    let (sig, d) = match verdict {
        None => {
            classes.push("matches-spec".into());
            classes.extend(cls);
            return Ok((classes, 0, 0, nontrivial));
        }
        Some(v) => v,
    };
    // attribution: the reference with a set of listed deviations must reproduce allsorts exactly
    let xs: Vec<u32> = [0, xdev::LIGA_NESTED, xdev::MULTI_DUP, xdev::LIGA_NESTED | xdev::MULTI_DUP].iter().copied().filter(|x| x & !allow_x == 0).collect();
    let mut ds: Vec<u32> = vec![0];
    for k in refm::dev::ALL.iter() {
        if allow_d & *k != 0 {
            let more: Vec<u32> = ds.iter().map(|d| d | *k).collect();
            ds.extend(more);
        }
    }
    ds.sort_by_key(|d| d.count_ones());
    for x in &xs {
        for dset in &ds {
            if *x == 0 && *dset == 0 {
                continue;
            }
            let alt = apply_sub(c, input, *x);
            if alt.glyphs.iter().map(|g| g.gid).collect::<Vec<_>>() != want {
                continue;
            }
            let r = run(&alt.glyphs, *dset);
            if r.notes.overflow {
                continue;
            }
            let mut c2 = Vec::new();
            if diff_all(stub, &alt.glyphs, &obs, &r, *dset, false, &mut c2).is_none() {
                classes.extend(c2);
                for k in xdev::ALL.iter() {
                    if x & k != 0 {
                        classes.push(format!("attributed:{}", xdev::name(*k)));
                    }
                }
                for k in refm::dev::ALL.iter() {
                    if dset & k != 0 {
                        classes.push(format!("attributed:{}", refm::dev::name(*k)));
                    }
                }
                return Ok((classes, *x, *dset, nontrivial));
            }
        }
    }
    Err(fail(&sig, ctx(&format!("{} (no listed deviation reproduces the output)", d))))
}

pub fn check_liga_case(tape: &Vec<u32>, rec: &mut Rec) -> CaseResult {
    let c = build_liga_case(tape);
    check_liga(&c, rec)
}

pub fn check_liga(c: &LigaCase, rec: &mut Rec) -> CaseResult {
    let b = match build_liga(c) {
        Ok(b) => b,
        Err(TooBig) => {
            rec.class("excluded:table-too-big");
            return Ok(());
        }
    };
    rec.artefact("font", &b.font);
    rec.hash_bytes(&b.font);
    let stub = liga_stub(c);
    let allow_d = present_devs() & (refm::dev::MKMK_ANY | refm::dev::MARK_FLAGS | refm::dev::MARKSET_NONMARK | refm::dev::POS_BASE_TWICE);
    let allow_x = xpresent();
    let mut classes: Vec<String> = Vec::new();
    let mut any = false;
    let mut evals = 0u64;
    for s in &c.strings {
        rec.hash_bytes(format!("{:?}", s).as_bytes());
        let (cls, _, _, nontrivial) = check_liga_string(c, &b.font, &stub, s, allow_x, allow_d)?;
        classes.extend(cls);
        any |= nontrivial;
        evals += 1;
    }
    classes.sort();
    classes.dedup();
    for cl in classes.iter().take(60) {
        rec.class(cl);
    }
    rec.evaluations(evals.saturating_sub(1));
    rec.set_nontrivial(any);
    rec.sample(|| format!("{} GSUB lookups; strings {:?}", c.sub.len(), c.strings));
    Ok(())
}

// pinned minimal cases of the component-bookkeeping deviations

/// glyphs: 1,2,3 bases; 4 mark; 5 = ligature(1 2); 6 = ligature(5 3); 7 mark
pub fn xpinned_case(k: u32) -> LigaCase {
    let class_map: BTreeMap<Gid, u16> = [(1, 1), (2, 1), (3, 1), (4, 3), (5, 2), (6, 2), (7, 3)].into_iter().collect();
    let gdef = GdefModel { glyph_classes: Some(ClassDefM { map: class_map, fmt: 2 }), mark_attach: None, mark_sets: vec![], minor: 0, ivs: None };
    let im = Flags { ignore_marks: true, ..Flags::default() };
    let lig = |first: Gid, rest: Vec<Gid>, out: Gid| SubLookup::Lig { flags: im, subtables: vec![[(first, vec![(rest, out)])].into_iter().collect()] };
    let a = |x: i16, y: i16| AnchorM { x, y, fmt: 1, point: 0, dev: [DevM::None; 2] };
    let (sub, lig_glyph, ncomps, input): (Vec<SubLookup>, Gid, usize, Vec<Gid>) = match k {
        xdev::LIGA_NESTED => (vec![lig(1, vec![2], 5), lig(5, vec![3], 6)], 6, 3, vec![1, 2, 4, 3]),
        _ => (vec![lig(1, vec![2], 5), SubLookup::Mult { flags: Flags::default(), map: [(4, vec![4, 7])].into_iter().collect() }], 5, 2, vec![1, 2, 4]),
    };
    let ligs = vec![(0..ncomps).map(|comp| vec![Some(a(100 + 400 * comp as i16, 700))]).collect()];
    let gpos = GposModel {
        lookups: vec![Lookup {
            ltype: 5,
            flags: Flags::default(),
            subtables: vec![Subtable::MarkLig { mark_cov: Cov::new(vec![4, 7], 1), lig_cov: Cov::new(vec![lig_glyph], 1), class_count: 1, marks: vec![(0, a(10, 20)), (0, a(30, 40))], ligs }],
            extension: false,
            share: false,
        }],
        features: vec![Feature { tag: *b"mark", lookups: vec![0] }],
        scripts: vec![ScriptM { tag: *b"DFLT", default: Some(vec![0]), langsys: vec![] }],
        minor: 0,
    };
    let mut ncomp = vec![1usize; 8];
    ncomp[5] = 2;
    ncomp[6] = 3;
    LigaCase {
        nglyphs: 8,
        gdef,
        sub_feature: vec![*b"liga"; sub.len()],
        sub,
        sub_script: *b"DFLT",
        gpos,
        advances: vec![600, 500, 520, 540, 0, 900, 1300, 0],
        strings: vec![input],
        ncomp,
    }
}

pub fn xpinned_status(k: u32) -> Result<(PinnedStatus, String), Fail> {
    let c = xpinned_case(k);
    let b = build_liga(&c).map_err(|_| fail("pinned-case", "pinned case does not encode".into()))?;
    let stub = liga_stub(&c);
    let input = &c.strings[0];
    let text = |what: &str| format!("{} on input {:?}: {}", xdev::name(k), input, what);
    // spec only
    match check_liga_string(&c, &b.font, &stub, input, 0, 0) {
        Ok(_) => return Ok((PinnedStatus::Absent, text("allsorts matches the specification"))),
        Err(f) if f.sig == "C05:gsub-sequence" => return Ok((PinnedStatus::Unexplained, f.msg)),
        Err(_) => {}
    }
    match check_liga_string(&c, &b.font, &stub, input, k, 0) {
        Ok((_, x, _, _)) if x == k => {
            let spec = apply_sub(&c, input, 0);
            let alt = apply_sub(&c, input, k);
            Ok((PinnedStatus::Present, text(&format!("specification [{}], allsorts [{}]", render_string(&spec.glyphs), render_string(&alt.glyphs)))))
        }
        Ok(_) => Ok((PinnedStatus::Unexplained, text("attributed without the deviation"))),
        Err(f) => Ok((PinnedStatus::Unexplained, f.msg)),
    }
}
