//! C11 — not built yet.
use crate::engine::{Ctx, Property};

pub struct C11;

impl Property for C11 {
    fn id(&self) -> &'static str {
        "C11"
    }
    fn rule(&self) -> String {
        "not implemented".to_string()
    }
    fn run(&self, _ctx: &mut Ctx) {}
}
