//! C11 — WOFF2 decoding reconstructs the original font.
//!
//! Forward construction: font model → my glyf/loca/hmtx encoders (`fontgen::glyfgen`,
//! `fontgen::basic`) → my WOFF2 encoder (`fontgen::woff2`, written from the W3C Recommendation,
//! stored brotli meta-blocks) with free encoder choices → `allsorts::woff2::Woff2Font` /
//! `FontData` → `table_provider(i)` → tables compared with the encoder's input: untransformed
//! tables byte-identical, glyf/loca semantically through `refmodel::glyf_min`, hmtx per glyph,
//! head modulo checkSumAdjustment / indexToLocFormat; per collection member.
//! Side sections: exhaustive 255UInt16, UIntBase128 boundaries / rejections, all 128 triplet
//! rows × payload samples through crafted one-glyph WOFF2 files, real fixtures.

use crate::engine::{fixtures, CaseResult, Ctx, Fail, Property, Rec};
use crate::fontgen::basic;
use crate::fontgen::glyfgen::{self as gg, Component, Composite, Glyph, Simple, Xform};
use crate::fontgen::sfnt;
use crate::fontgen::woff2 as w2;
use crate::refmodel::glyf_min::{self as gm, PComponent, PGlyph};
use allsorts::binary::read::ReadScope;
use allsorts::font_data::FontData;
use allsorts::tables::{FontTableProvider, SfntVersion};
use allsorts::woff2::{PackedU16, U32Base128, Woff2Font};
use proptest::prelude::*;
use std::collections::{BTreeMap, BTreeSet};

pub struct C11;

type Tag = [u8; 4];
const TTCF: u32 = 0x7474_6366;

/// Known finding (defect model): with hmtx flag bit 1 the leftSideBearing[] array is rebuilt from
/// the xMin of the glyphs 0..numGlyphs instead of numberOfHMetrics..numGlyphs.
const KNOWN_HMTX: &str = "hmtx-lsb-array-not-skipping-long-metrics";

fn fail(sig: &str, msg: String) -> Fail {
    Fail::new(format!("C11:{}", sig), msg)
}

// =========================================================================================
// raw (generated) model

/// (kind, a, b, bits): bits 0/1 = negative x/y, bit 2 = on-curve
type PtRaw = (u8, u16, u16, u8);

#[derive(Clone, Debug)]
pub enum GlyphRaw {
    Empty,
    EmptyHeader,
    Simple {
        contours: Vec<Vec<PtRaw>>,
        /// >= 65000: the first contour is blown up to 253..900 points (255UInt16 forms of nPoints)
        big_sel: u16,
        instr_sel: u16,
        /// 0,1: stored bbox = computed; 2: small perturbation; 3: arbitrary
        bbox_mode: u8,
        bbox_noise: (i16, i16, i16, i16),
        /// source glyf encoding style bits
        style: u8,
    },
    Composite {
        comps: Vec<CompRaw>,
        instr_sel: u16,
        bbox: (i16, i16, i16, i16),
    },
}

#[derive(Clone, Debug)]
pub struct CompRaw {
    misc: u16,
    words: bool,
    glyph: u16,
    a1: u16,
    a2: u16,
    xkind: u8,
    xf: (i16, i16, i16, i16),
}

#[derive(Clone, Debug)]
pub struct MetricsRaw {
    adv: Vec<u16>,
    lsb_noise: Vec<i16>,
    /// 0,4: lsb = xMin everywhere; 1: proportional part only; 2: monospaced tail only; 3: none; 5: all but one
    lsb_mode: u8,
    /// 0: 1, 1: n/2, 2: n, 3: 1 + r % n
    nhm_sel: u8,
    r: u16,
}

#[derive(Clone, Debug)]
pub struct FontRaw {
    glyphs: Vec<GlyphRaw>,
    metrics: MetricsRaw,
    long_loca: bool,
    align_sel: u8,
    /// (tag selector, content)
    extras: Vec<(u8, Vec<u8>)>,
    /// 0: CFF flavoured (no glyf), else TrueType
    outline_sel: u8,
    flavour_true: bool,
    /// adds a 66–70 KB table (brotli MLEN with more than 4 nibbles)
    big_table: u8,
}

#[derive(Clone, Debug)]
pub enum MemberRaw {
    /// shares glyf/loca/maxp with the base font; own hmtx/hhea (and optionally own head)
    Sibling { metrics: Option<MetricsRaw>, own_head: bool, share_mask: u8 },
    /// a complete second font; cmap/name/OS2/post shared with the base per mask
    Independent { font: FontRaw, share_mask: u8 },
}

#[derive(Clone, Debug)]
pub struct CollRaw {
    extra: Vec<MemberRaw>,
    v2: bool,
    shuffle_indices: bool,
}

#[derive(Clone, Debug)]
pub struct EncRaw {
    /// per glyph group: 0 = null transform (3), else transform 0
    glyf_xform: Vec<u8>,
    /// per hmtx table: wanted flag bits (masked by what is legal)
    hmtx_want: Vec<u8>,
    /// transform hmtx although glyf is null-transformed (soft probe, see rule())
    hmtx_only_probe: u8,
    order: Vec<u16>,
    explicit_mask: u32,
    choices: Vec<u8>,
    bbox_choose: bool,
    wbits_sel: u8,
    chunks: Vec<u32>,
    meta_every: u8,
    meta_skip: u8,
    version: (u16, u16),
    metadata: Option<Vec<u8>>,
    private: Vec<u8>,
    via_fontdata: bool,
}

#[derive(Clone, Debug)]
pub struct Case {
    font: FontRaw,
    coll: Option<CollRaw>,
    enc: EncRaw,
}

// =========================================================================================
// strategies

fn pt_raw() -> impl Strategy<Value = PtRaw> {
    (0u8..16, any::<u16>(), any::<u16>(), 0u8..8)
}

fn bbox_raw() -> impl Strategy<Value = (i16, i16, i16, i16)> {
    prop_oneof![
        3 => (-3i16..4, -3i16..4, -3i16..4, -3i16..4),
        2 => (any::<i16>(), any::<i16>(), any::<i16>(), any::<i16>()),
        1 => (-2000i16..2000, -2000i16..2000, -2000i16..2000, -2000i16..2000),
    ]
}

fn sel16(p_special_permille: u32) -> impl Strategy<Value = u16> {
    // a u16 selector whose top range (>= 65000) is taken with the given probability
    prop_oneof![
        (1000 - p_special_permille) => 0u16..65000,
        p_special_permille => 65000u16..=65535,
    ]
}

fn comp_raw() -> impl Strategy<Value = CompRaw> {
    (any::<u16>(), any::<bool>(), any::<u16>(), any::<u16>(), any::<u16>(), 0u8..4, (any::<i16>(), any::<i16>(), any::<i16>(), any::<i16>()))
        .prop_map(|(misc, words, glyph, a1, a2, xkind, xf)| CompRaw { misc, words, glyph, a1, a2, xkind, xf })
}

fn glyph_raw() -> impl Strategy<Value = GlyphRaw> {
    let simple = (
        proptest::collection::vec(proptest::collection::vec(pt_raw(), 1..7), 1..5),
        sel16(8),
        sel16(60),
        0u8..4,
        bbox_raw(),
        0u8..8,
    )
        .prop_map(|(contours, big_sel, instr_sel, bbox_mode, bbox_noise, style)| GlyphRaw::Simple {
            contours,
            big_sel,
            instr_sel,
            bbox_mode,
            bbox_noise,
            style,
        });
    let composite = (proptest::collection::vec(comp_raw(), 1..5), sel16(60), bbox_raw())
        .prop_map(|(comps, instr_sel, bbox)| GlyphRaw::Composite { comps, instr_sel, bbox });
    prop_oneof![
        70 => simple,
        16 => composite,
        11 => Just(GlyphRaw::Empty),
        3 => Just(GlyphRaw::EmptyHeader),
    ]
}

fn metrics_raw() -> impl Strategy<Value = MetricsRaw> {
    (
        proptest::collection::vec(any::<u16>(), 1..6),
        proptest::collection::vec(prop_oneof![2 => -40i16..40, 1 => any::<i16>()], 1..6),
        0u8..6,
        0u8..4,
        any::<u16>(),
    )
        .prop_map(|(adv, lsb_noise, lsb_mode, nhm_sel, r)| MetricsRaw { adv, lsb_noise, lsb_mode, nhm_sel, r })
}

fn font_raw(small: bool) -> BoxedStrategy<FontRaw> {
    let count = if small {
        prop_oneof![1usize..3, 1usize..9].boxed()
    } else {
        prop_oneof![
            4 => 1usize..12,
            4 => 12usize..44,
            1 => 30usize..36,
            1 => 62usize..68,
        ]
        .boxed()
    };
    (
        count.prop_flat_map(|n| proptest::collection::vec(glyph_raw(), n..=n)),
        metrics_raw(),
        any::<bool>(),
        0u8..3,
        proptest::collection::vec((prop_oneof![1 => 0u8..16, 1 => 0u8..N_EXTRA_TAGS], proptest::collection::vec(any::<u8>(), 1..24)), 0..4),
        0u8..12,
        prop::bool::weighted(0.1),
        0u8..48,
    )
        .prop_map(|(glyphs, metrics, long_loca, align_sel, extras, outline_sel, flavour_true, big_table)| FontRaw {
            glyphs,
            metrics,
            long_loca,
            align_sel,
            extras,
            outline_sel,
            flavour_true,
            big_table,
        })
        .boxed()
}

fn member_raw() -> impl Strategy<Value = MemberRaw> {
    prop_oneof![
        (proptest::option::weighted(0.8, metrics_raw()), any::<bool>(), any::<u8>())
            .prop_map(|(metrics, own_head, share_mask)| MemberRaw::Sibling { metrics, own_head, share_mask }),
        (font_raw(true), any::<u8>()).prop_map(|(font, share_mask)| MemberRaw::Independent { font, share_mask }),
    ]
}

fn enc_raw() -> impl Strategy<Value = EncRaw> {
    let chunk = prop_oneof![
        2 => 1u32..64,
        3 => 64u32..4096,
        1 => Just(65535u32),
        2 => Just(65536u32),
        1 => 65537u32..200_000,
    ];
    (
        (
            proptest::collection::vec(0u8..5, 3),
            proptest::collection::vec(0u8..4, 3),
            0u8..16,
            proptest::collection::vec(any::<u16>(), 0..8),
            prop_oneof![2 => Just(0u32), 1 => any::<u32>(), 1 => Just(u32::MAX)],
            proptest::collection::vec(any::<u8>(), 0..24),
            any::<bool>(),
        ),
        (
            0u8..20,
            proptest::collection::vec(chunk, 1..4),
            0u8..4,
            0u8..6,
            (any::<u16>(), any::<u16>()),
            proptest::option::weighted(0.15, proptest::collection::vec(0x20u8..0x7F, 1..40)),
            proptest::collection::vec(any::<u8>(), 0..6),
            any::<bool>(),
        ),
    )
        .prop_map(
            |(
                (glyf_xform, hmtx_want, hmtx_only_probe, order, explicit_mask, choices, bbox_choose),
                (wbits_sel, chunks, meta_every, meta_skip, version, metadata, private, via_fontdata),
            )| EncRaw {
                glyf_xform,
                hmtx_want,
                hmtx_only_probe,
                order,
                explicit_mask,
                choices,
                bbox_choose,
                wbits_sel,
                chunks,
                meta_every,
                meta_skip,
                version,
                metadata,
                private,
                via_fontdata,
            },
        )
}

pub fn case_strategy() -> impl Strategy<Value = Case> {
    let coll = proptest::option::weighted(
        0.3,
        (proptest::collection::vec(member_raw(), 0..3), any::<bool>(), prop::bool::weighted(0.3))
            .prop_map(|(extra, v2, shuffle_indices)| CollRaw { extra, v2, shuffle_indices }),
    );
    (font_raw(false), coll, enc_raw()).prop_map(|(font, coll, enc)| Case { font, coll, enc })
}

// =========================================================================================
// libFuzzer input decoder: bytes -> Case, same domain as `case_strategy()`
//
// Layout (front to back): encoder options, base font header (scalars, metrics, extra tables),
// collection (members with their own small glyph lists), then the base font's glyphs until the
// input ends. `Unstructured` pads an exhausted input with zeros and never fails for the
// operations used here, so every input decodes; the selectors are arranged such that the
// all-zero padding means "TrueType, glyf transform 0, hmtx flags wanted, no collection, one
// 65536-byte brotli chunk" (the interesting default) and a short input is a small font.

type UR<T> = arbitrary::Result<T>;
type Un<'a, 'b> = &'b mut arbitrary::Unstructured<'a>;

/// `bbox_raw()`: small / arbitrary / medium boxes (the union is every i16 quadruple)
fn u_bbox(u: Un) -> UR<(i16, i16, i16, i16)> {
    Ok(match u.int_in_range(0u8..=5)? {
        0..=2 => (u.int_in_range(-3i16..=3)?, u.int_in_range(-3i16..=3)?, u.int_in_range(-3i16..=3)?, u.int_in_range(-3i16..=3)?),
        3..=4 => (u.arbitrary()?, u.arbitrary()?, u.arbitrary()?, u.arbitrary()?),
        _ => (u.int_in_range(-2000i16..=1999)?, u.int_in_range(-2000i16..=1999)?, u.int_in_range(-2000i16..=1999)?, u.int_in_range(-2000i16..=1999)?),
    })
}

/// `sel16(p)`: any u16; the special range 65000..=65535 (536 values) is taken for one of the
/// `one_in` selector values (not for 0, so that zero padding gives the ordinary range)
fn u_sel16(u: Un, one_in: u8) -> UR<u16> {
    let m = u.int_in_range(0u8..=one_in - 1)?;
    let v: u16 = u.arbitrary()?;
    Ok(if m == one_in - 1 { 65000 + v % 536 } else { v % 65000 })
}

/// `pt_raw()`: one byte holds kind (0..16) and the sign / on-curve bits (0..8)
fn u_pt(u: Un) -> UR<PtRaw> {
    let k: u8 = u.arbitrary()?;
    Ok((k & 15, u.arbitrary()?, u.arbitrary()?, (k >> 4) & 7))
}

/// `comp_raw()`
fn u_comp(u: Un) -> UR<CompRaw> {
    let k: u8 = u.arbitrary()?;
    Ok(CompRaw {
        words: k & 1 != 0,
        xkind: (k >> 1) & 3,
        misc: u.arbitrary()?,
        glyph: u.arbitrary()?,
        a1: u.arbitrary()?,
        a2: u.arbitrary()?,
        xf: (u.arbitrary()?, u.arbitrary()?, u.arbitrary()?, u.arbitrary()?),
    })
}

/// `glyph_raw()`: 10/16 simple, 3/16 composite, 2/16 empty, 1/16 empty with header
fn u_glyph(u: Un) -> UR<GlyphRaw> {
    Ok(match u.int_in_range(0u8..=15)? {
        0..=9 => {
            let h: u8 = u.arbitrary()?;
            let (bbox_mode, style) = (h & 3, (h >> 2) & 7);
            let big_sel = u_sel16(u, 32)?;
            let instr_sel = u_sel16(u, 8)?;
            // the noise is only read where it is used (modes 2, 3); (0, 0, 0, 0) is in bbox_raw()
            let bbox_noise = if bbox_mode >= 2 { u_bbox(u)? } else { (0, 0, 0, 0) };
            let nc = u.int_in_range(1usize..=4)?;
            let mut contours = Vec::with_capacity(nc);
            for _ in 0..nc {
                let np = u.int_in_range(1usize..=6)?;
                let mut c = Vec::with_capacity(np);
                for _ in 0..np {
                    c.push(u_pt(u)?);
                }
                contours.push(c);
            }
            GlyphRaw::Simple { contours, big_sel, instr_sel, bbox_mode, bbox_noise, style }
        }
        10..=12 => {
            let instr_sel = u_sel16(u, 8)?;
            let bbox = u_bbox(u)?;
            let n = u.int_in_range(1usize..=4)?;
            let mut comps = Vec::with_capacity(n);
            for _ in 0..n {
                comps.push(u_comp(u)?);
            }
            GlyphRaw::Composite { comps, instr_sel, bbox }
        }
        13..=14 => GlyphRaw::Empty,
        _ => GlyphRaw::EmptyHeader,
    })
}

/// `metrics_raw()`
fn u_metrics(u: Un) -> UR<MetricsRaw> {
    let h: u8 = u.arbitrary()?;
    let nhm_sel = h & 3;
    let lsb_mode = (h >> 2) % 6;
    let r: u16 = u.arbitrary()?;
    let na = u.int_in_range(1usize..=5)?;
    let mut adv = Vec::with_capacity(na);
    for _ in 0..na {
        adv.push(u.arbitrary()?);
    }
    let nl = u.int_in_range(1usize..=5)?;
    let mut lsb_noise = Vec::with_capacity(nl);
    for _ in 0..nl {
        lsb_noise.push(if u.int_in_range(0u8..=2)? < 2 { u.int_in_range(-40i16..=39)? } else { u.arbitrary()? });
    }
    Ok(MetricsRaw { adv, lsb_noise, lsb_mode, nhm_sel, r })
}

/// everything of `font_raw()` except the glyph list
fn u_font_head(u: Un) -> UR<FontRaw> {
    // 0 = CFF flavoured in the model; the padding value 0 is mapped to TrueType
    let outline_sel = (u.int_in_range(0u8..=11)? + 1) % 12;
    let h: u8 = u.arbitrary()?;
    let long_loca = h & 1 != 0;
    let align_sel = (h >> 1) % 3;
    let flavour_true = u.int_in_range(0u8..=9)? == 9;
    let big_table = u.int_in_range(0u8..=47)?;
    let metrics = u_metrics(u)?;
    let ne = u.int_in_range(0usize..=3)?;
    let mut extras = Vec::with_capacity(ne);
    for _ in 0..ne {
        let sel = u.int_in_range(0u8..=N_EXTRA_TAGS - 1)?;
        let len = u.int_in_range(1usize..=23)?;
        let mut d = Vec::with_capacity(len);
        for _ in 0..len {
            d.push(u.arbitrary()?);
        }
        extras.push((sel, d));
    }
    Ok(FontRaw { glyphs: Vec::new(), metrics, long_loca, align_sel, extras, outline_sel, flavour_true, big_table })
}

/// `member_raw()`; the complete second font is `font_raw(true)`: 1..=8 glyphs
fn u_member(u: Un) -> UR<MemberRaw> {
    let k: u8 = u.arbitrary()?;
    let share_mask: u8 = u.arbitrary()?;
    Ok(if k & 1 == 0 {
        let metrics = if (k >> 1) % 5 != 4 { Some(u_metrics(u)?) } else { None };
        MemberRaw::Sibling { metrics, own_head: k & 0x80 != 0, share_mask }
    } else {
        let mut font = u_font_head(u)?;
        let n = u.int_in_range(1usize..=8)?;
        for _ in 0..n {
            font.glyphs.push(u_glyph(u)?);
        }
        MemberRaw::Independent { font, share_mask }
    })
}

/// one brotli chunk length of `enc_raw()`: 1..=4095, 65535, 65536 or 65537..=199_999
fn u_chunk(u: Un) -> UR<u32> {
    Ok(match u.int_in_range(0u8..=8)? {
        0..=1 => 65536,
        2..=4 => u.int_in_range(64u32..=4095)?,
        5..=6 => u.int_in_range(1u32..=63)?,
        7 => 65535,
        _ => u.int_in_range(65537u32..=199_999)?,
    })
}

/// `enc_raw()`
fn u_enc(u: Un) -> UR<EncRaw> {
    let mut glyf_xform = Vec::with_capacity(3);
    let mut hmtx_want = Vec::with_capacity(3);
    for _ in 0..3 {
        // padding 0 -> transform 0 (model value 1); model value 0 (null transform) is input 4
        glyf_xform.push((u.int_in_range(0u8..=4)? + 1) % 5);
    }
    for _ in 0..3 {
        // padding 0 -> both flag bits wanted
        hmtx_want.push((u.int_in_range(0u8..=3)? + 3) % 4);
    }
    // the soft probe is model value 0; padding 0 -> 1 (no probe)
    let hmtx_only_probe = (u.int_in_range(0u8..=15)? + 1) % 16;
    let h: u8 = u.arbitrary()?;
    let bbox_choose = h & 1 != 0;
    let via_fontdata = h & 2 != 0;
    let meta_every = (h >> 2) & 3;
    let meta_skip = (h >> 4) % 6;
    let wbits_sel = u.int_in_range(0u8..=19)?;
    let explicit_mask = match u.int_in_range(0u8..=3)? {
        0..=1 => 0,
        2 => u.arbitrary()?,
        _ => u32::MAX,
    };
    let nchunks = u.int_in_range(1usize..=3)?;
    let mut chunks = Vec::with_capacity(nchunks);
    for _ in 0..nchunks {
        chunks.push(u_chunk(u)?);
    }
    let version: (u16, u16) = (u.arbitrary()?, u.arbitrary()?);
    let no = u.int_in_range(0usize..=7)?;
    let mut order = Vec::with_capacity(no);
    for _ in 0..no {
        order.push(u.arbitrary()?);
    }
    let nch = u.int_in_range(0usize..=23)?;
    let mut choices = Vec::with_capacity(nch);
    for _ in 0..nch {
        choices.push(u.arbitrary()?);
    }
    let nm = u.int_in_range(0usize..=39)?;
    let metadata = if nm == 0 {
        None
    } else {
        let mut m = Vec::with_capacity(nm);
        for _ in 0..nm {
            m.push(u.int_in_range(0x20u8..=0x7E)?);
        }
        Some(m)
    };
    let np = u.int_in_range(0usize..=5)?;
    let mut private = Vec::with_capacity(np);
    for _ in 0..np {
        private.push(u.arbitrary()?);
    }
    Ok(EncRaw {
        glyf_xform,
        hmtx_want,
        hmtx_only_probe,
        order,
        explicit_mask,
        choices,
        bbox_choose,
        wbits_sel,
        chunks,
        meta_every,
        meta_skip,
        version,
        metadata,
        private,
        via_fontdata,
    })
}

/// The largest glyph count of the base font (`font_raw(false)`: 1..=43 or 62..=67).
const FUZZ_MAX_GLYPHS: usize = 67;

/// bytes -> Case (libFuzzer target `c11_woff2`, `vcheck replay-bytes c11_woff2 <file>`)
pub fn case_from_bytes(data: &[u8]) -> arbitrary::Result<Case> {
    let mut u = arbitrary::Unstructured::new(data);
    let u = &mut u;
    let enc = u_enc(u)?;
    let mut font = u_font_head(u)?;
    let coll = match u.int_in_range(0u8..=9)? {
        0..=6 => None,
        k => {
            let h: u8 = u.arbitrary()?;
            let n = (k - 7) as usize; // 0..=2 further members
            let mut extra = Vec::with_capacity(n);
            for _ in 0..n {
                extra.push(u_member(u)?);
            }
            Some(CollRaw { extra, v2: h & 1 != 0, shuffle_indices: (h >> 1) % 10 < 3 })
        }
    };
    // the base font's glyphs take the rest of the input
    while font.glyphs.len() < FUZZ_MAX_GLYPHS && !u.is_empty() {
        font.glyphs.push(u_glyph(u)?);
    }
    // the strategy's glyph counts are 1..=43 and 62..=67
    if font.glyphs.is_empty() {
        font.glyphs.push(u_glyph(u)?);
    }
    if (44..62).contains(&font.glyphs.len()) {
        font.glyphs.truncate(43);
    }
    Ok(Case { font, coll, enc })
}

// =========================================================================================
// resolution: raw -> glyph model -> tables

const BOUNDARY: [i32; 26] =
    [0, 1, 15, 16, 17, 32, 33, 48, 49, 64, 65, 255, 256, 257, 512, 513, 768, 769, 1023, 1024, 1279, 1280, 4095, 4096, 32766, 32767];

fn magnitudes(p: &PtRaw) -> (i32, i32) {
    let (k, a, b, _) = *p;
    let (a, b) = (a as i32, b as i32);
    match k {
        0..=2 => {
            let m = a % 1280;
            if b & 1 == 0 {
                (0, m)
            } else {
                (m, 0)
            }
        }
        3..=6 => (1 + a % 64, 1 + b % 64),
        7..=10 => (1 + a % 768, 1 + b % 768),
        11..=12 => (a % 4096, b % 4096),
        13 => (a % 32768, b % 32768),
        14 => (BOUNDARY[a as usize % BOUNDARY.len()], BOUNDARY[b as usize % BOUNDARY.len()]),
        _ => (
            if a % 16 == 0 { 32768 } else { BOUNDARY[a as usize % BOUNDARY.len()] },
            if b % 16 == 0 { 32768 } else { BOUNDARY[b as usize % BOUNDARY.len()] },
        ),
    }
}

/// next coordinate: |delta| = mag in the wanted direction where the i16 range allows it
/// (32768 exists only as the delta -32768)
fn step(cur: i32, mag: i32, neg: bool) -> i32 {
    let mut d = if neg || mag == 32768 { -mag } else { mag };
    let mut n = cur + d;
    if !(-32768..=32767).contains(&n) {
        d = -d;
        if d == 32768 {
            d = 32767;
        }
        n = cur + d;
    }
    if !(-32768..=32767).contains(&n) {
        n = cur;
    }
    n
}

const INSTR_LENS: [usize; 12] = [252, 253, 254, 505, 506, 507, 508, 509, 761, 762, 763, 1500];
const BIG_CONTOURS: [usize; 10] = [253, 254, 505, 506, 508, 509, 761, 762, 763, 900];

fn instr_bytes(sel: u16) -> Vec<u8> {
    let len = if sel >= 65000 {
        INSTR_LENS[(sel - 65000) as usize % INSTR_LENS.len()]
    } else if sel % 2 == 0 {
        0
    } else {
        ((sel / 2) % 7) as usize
    };
    (0..len).map(|i| (sel as usize).wrapping_mul(31).wrapping_add(i * 7) as u8).collect()
}

fn resolve_glyph(g: &GlyphRaw, num_glyphs: usize) -> Glyph {
    match g {
        GlyphRaw::Empty => Glyph::Empty,
        GlyphRaw::EmptyHeader => Glyph::EmptyHeader,
        GlyphRaw::Simple { contours, big_sel, instr_sel, bbox_mode, bbox_noise, .. } => {
            let (mut x, mut y) = (0i32, 0i32);
            let mut out: Vec<Vec<gg::Pt>> = Vec::new();
            for (ci, c) in contours.iter().enumerate() {
                let total = if ci == 0 && *big_sel >= 65000 {
                    BIG_CONTOURS[(*big_sel - 65000) as usize % BIG_CONTOURS.len()]
                } else {
                    c.len()
                };
                let mut pts = Vec::with_capacity(total);
                for k in 0..total {
                    let p = &c[k % c.len()];
                    // later cycles of a blown-up contour vary the magnitudes a little
                    let cyc = (k / c.len()) as u16;
                    let p2 = (p.0, p.1.wrapping_add(cyc.wrapping_mul(37)), p.2.wrapping_add(cyc.wrapping_mul(101)), p.3 ^ (cyc as u8 & 3));
                    let (mx, my) = magnitudes(&p2);
                    x = step(x, mx, p2.3 & 1 != 0);
                    y = step(y, my, p2.3 & 2 != 0);
                    pts.push((x as i16, y as i16, p2.3 & 4 != 0));
                }
                out.push(pts);
            }
            let mut s = Simple { contours: out, instructions: instr_bytes(*instr_sel), bbox: (0, 0, 0, 0) };
            let cb = s.computed_bbox();
            s.bbox = match bbox_mode {
                0 | 1 => cb,
                2 => {
                    let n = bbox_noise;
                    let adj = |v: i16, d: i16| v.saturating_add(d % 4);
                    let b = (adj(cb.0, n.0), adj(cb.1, n.1), adj(cb.2, n.2), adj(cb.3, n.3));
                    if b == cb {
                        (cb.0.saturating_sub(1), cb.1, cb.2, cb.3.saturating_add(1))
                    } else {
                        b
                    }
                }
                _ => *bbox_noise,
            };
            Glyph::Simple(s)
        }
        GlyphRaw::Composite { comps, instr_sel, bbox } => {
            let mut components: Vec<Component> = comps
                .iter()
                .map(|c| {
                    // WE_HAVE_INSTRUCTIONS is placed below, per pattern
                    let misc = c.misc & gg::FREE_COMPONENT_FLAGS & !gg::WE_HAVE_INSTRUCTIONS;
                    let xy = misc & gg::ARGS_ARE_XY_VALUES != 0;
                    let conv = |a: u16| -> i32 {
                        match (c.words, xy) {
                            (true, true) => a as i16 as i32,
                            (true, false) => a as i32,
                            (false, true) => a as u8 as i8 as i32,
                            (false, false) => a as u8 as i32,
                        }
                    };
                    Component {
                        misc_flags: misc,
                        words: c.words,
                        glyph: (c.glyph as usize % num_glyphs.max(1)) as u16,
                        arg1: conv(c.a1),
                        arg2: conv(c.a2),
                        xform: match c.xkind {
                            0 => Xform::None,
                            1 => Xform::Scale(c.xf.0),
                            2 => Xform::XY(c.xf.0, c.xf.1),
                            _ => Xform::Matrix(c.xf.0, c.xf.1, c.xf.2, c.xf.3),
                        },
                    }
                })
                .collect();
            // which components carry WE_HAVE_INSTRUCTIONS: none / last only / first only /
            // one in the middle / all / all but the last
            let n = components.len();
            let sel = *instr_sel;
            let instructions = if sel < 65000 && sel % 4 == 0 {
                None
            } else {
                let on: Vec<usize> = match (sel >> 2) % 5 {
                    0 => vec![n - 1],
                    1 => vec![0],
                    2 => vec![n / 2],
                    3 => (0..n).collect(),
                    _ => {
                        if n > 1 {
                            (0..n - 1).collect()
                        } else {
                            vec![0]
                        }
                    }
                };
                for i in on {
                    components[i].misc_flags |= gg::WE_HAVE_INSTRUCTIONS;
                }
                // mostly non-empty; sometimes the flag with zero instructions
                let len = if sel >= 65000 {
                    INSTR_LENS[(sel - 65000) as usize % INSTR_LENS.len()]
                } else if (sel >> 5) % 8 == 0 {
                    0
                } else {
                    1 + ((sel >> 8) % 6) as usize
                };
                Some((0..len).map(|i| (sel as usize).wrapping_mul(29).wrapping_add(i * 11) as u8).collect())
            };
            Glyph::Composite(Composite { components, instructions, bbox: *bbox })
        }
    }
}

pub fn expected_pglyph(g: &Glyph) -> PGlyph {
    match g {
        Glyph::Empty | Glyph::EmptyHeader => PGlyph::Empty,
        Glyph::Simple(s) => PGlyph::Simple {
            bbox: s.bbox,
            contours: s.contours.iter().map(|c| c.iter().map(|p| (p.0 as i32, p.1 as i32, p.2)).collect()).collect(),
            instructions: s.instructions.clone(),
        },
        Glyph::Composite(c) => {
            let last = c.components.len() - 1;
            PGlyph::Composite {
                bbox: c.bbox,
                components: c
                    .components
                    .iter()
                    .enumerate()
                    .map(|(i, k)| PComponent {
                        flags: k.flags(i != last),
                        glyph: k.glyph,
                        arg1: k.arg1,
                        arg2: k.arg2,
                        xform: match k.xform {
                            Xform::None => vec![],
                            Xform::Scale(s) => vec![s],
                            Xform::XY(x, y) => vec![x, y],
                            Xform::Matrix(a, b, cc, d) => vec![a, b, cc, d],
                        },
                    })
                    .collect(),
                instructions: c.instructions.clone(),
            }
        }
    }
}

/// glyf + loca of one glyph set
#[derive(Clone, Debug)]
pub struct Group {
    pub glyphs: Vec<Glyph>,
    pub long: bool,
    pub glyf: Vec<u8>,
    pub loca: Vec<u8>,
}

#[derive(Clone, Debug)]
pub enum DKind {
    Plain,
    Glyf(usize),
    Loca(usize),
    Hmtx { group: Option<usize>, metrics: Vec<(u16, i16)>, nhm: usize, legal: u8 },
}

/// a distinct table of the file (shared tables appear once)
#[derive(Clone, Debug)]
pub struct DTable {
    pub tag: Tag,
    pub data: Vec<u8>,
    pub kind: DKind,
}

#[derive(Clone, Debug)]
pub struct Member {
    pub flavour: u32,
    /// indices into `Built::dtables`
    pub tables: Vec<usize>,
    pub group: Option<usize>,
}

#[derive(Clone, Debug, Default)]
pub struct Built {
    pub groups: Vec<Group>,
    pub dtables: Vec<DTable>,
    pub members: Vec<Member>,
}

const EXTRA_TAGS: [&[u8; 4]; 16] = [
    b"cvt ", b"fpgm", b"prep", b"gasp", b"GSUB", b"GPOS", b"GDEF", b"kern", b"ZZZZ", b"abcd", b"meta", b"glyx", b"Sill", b"Zapf", b"locb",
    b"hmtX",
];

/// tags the font model builds itself (an extra table must not collide with them)
const STRUCTURAL_TAGS: [&[u8; 4]; 13] =
    [b"cmap", b"head", b"hhea", b"hmtx", b"maxp", b"name", b"OS/2", b"post", b"glyf", b"loca", b"CFF ", b"CFF2", b"DSIG"];

/// tag of an extra table: the 16 hand-picked ones first (selectors 0..16 keep their meaning),
/// then every other tag of the WOFF2 known-tag list (each has its own 6-bit directory index)
fn extra_tag(sel: u8) -> Tag {
    let mut all: Vec<Tag> = EXTRA_TAGS.iter().map(|t| **t).collect();
    for t in w2::KNOWN_TAGS.iter() {
        if !all.contains(*t) && !STRUCTURAL_TAGS.contains(t) {
            all.push(**t);
        }
    }
    all[sel as usize % all.len()]
}
const N_EXTRA_TAGS: u8 = 64;

fn resolve_metrics(m: &MetricsRaw, glyphs: Option<&[Glyph]>, n: usize) -> (Vec<(u16, i16)>, usize, u8) {
    let nhm = match m.nhm_sel {
        0 => 1,
        1 => (n / 2).max(1),
        2 => n,
        _ => 1 + m.r as usize % n,
    };
    let odd = m.r as usize % n;
    let mut v = Vec::with_capacity(n);
    for i in 0..n {
        let xmin = glyphs.map(|g| g[i].x_min()).unwrap_or(0);
        let noise = m.lsb_noise[i % m.lsb_noise.len()];
        let lsb = match m.lsb_mode {
            0 | 4 => xmin,
            1 => {
                if i < nhm {
                    xmin
                } else {
                    noise
                }
            }
            2 => {
                if i >= nhm {
                    xmin
                } else {
                    noise
                }
            }
            3 => noise,
            _ => {
                if i == odd {
                    xmin.wrapping_add(1 + (noise & 7))
                } else {
                    xmin
                }
            }
        };
        let adv = if i < nhm { m.adv[i % m.adv.len()] } else { m.adv[(nhm - 1) % m.adv.len()] };
        v.push((adv, lsb));
    }
    let mut legal = 0u8;
    if let Some(g) = glyphs {
        if (0..nhm).all(|i| v[i].1 == g[i].x_min()) {
            legal |= w2::HMTX_NO_PROPORTIONAL_LSB;
        }
        if (nhm..n).all(|i| v[i].1 == g[i].x_min()) {
            legal |= w2::HMTX_NO_MONOSPACE_LSB;
        }
    }
    (v, nhm, legal)
}

fn push(b: &mut Built, tag: Tag, data: Vec<u8>, kind: DKind) -> usize {
    b.dtables.push(DTable { tag, data, kind });
    b.dtables.len() - 1
}

fn head_table(long: bool, revision: u32) -> Vec<u8> {
    let mut h = basic::head(1000, long, (0, -200, 1000, 800));
    h[4..8].copy_from_slice(&revision.to_be_bytes());
    // a non-zero checkSumAdjustment, as in a real font (the decoder is free to change it)
    h[8..12].copy_from_slice(&0xB1B0_AFBAu32.wrapping_sub(revision).to_be_bytes());
    h
}

/// Build the tables of one complete font and register them; returns the member.
fn build_font(b: &mut Built, f: &FontRaw, shared_misc: Option<(&Member, u8)>) -> Member {
    let n = f.glyphs.len();
    let cff = f.outline_sel == 0;
    let mut tables: Vec<usize> = Vec::new();
    let group = if cff {
        None
    } else {
        let glyphs: Vec<Glyph> = f.glyphs.iter().map(|g| resolve_glyph(g, n)).collect();
        let styles: Vec<u8> = f
            .glyphs
            .iter()
            .map(|g| match g {
                GlyphRaw::Simple { style, .. } => *style,
                _ => 0,
            })
            .collect();
        let align = [1usize, 2, 4][f.align_sel as usize % 3];
        let mut long = f.long_loca;
        let (mut glyf, mut loca) = gg::encode_glyf_loca(&glyphs, &styles, long, align);
        if !long && glyf.len() > 131_070 {
            long = true;
            let r = gg::encode_glyf_loca(&glyphs, &styles, long, align);
            glyf = r.0;
            loca = r.1;
        }
        b.groups.push(Group { glyphs, long, glyf, loca });
        Some(b.groups.len() - 1)
    };
    let long = group.map(|g| b.groups[g].long).unwrap_or(false);
    let (metrics, nhm, legal) = resolve_metrics(&f.metrics, group.map(|g| &b.groups[g].glyphs[..]), n);
    let adv_max = metrics.iter().map(|m| m.0).max().unwrap_or(0);
    let revision = 0x0001_0000 + b.members.len() as u32;
    tables.push(push(b, *b"head", head_table(long, revision), DKind::Plain));
    tables.push(push(b, *b"hhea", basic::hhea(800, -200, adv_max, nhm as u16), DKind::Plain));
    tables.push(push(b, *b"maxp", if cff { basic::maxp_v05(n as u16) } else { basic::maxp_v1(n as u16) }, DKind::Plain));
    tables.push(push(b, *b"hmtx", basic::hmtx(&metrics, nhm as u16), DKind::Hmtx { group, metrics, nhm, legal }));
    if let Some(g) = group {
        let (glyf, loca) = (b.groups[g].glyf.clone(), b.groups[g].loca.clone());
        tables.push(push(b, *b"glyf", glyf, DKind::Glyf(g)));
        tables.push(push(b, *b"loca", loca, DKind::Loca(g)));
    } else {
        let cff_bytes: Vec<u8> = (0..40 + n).map(|i| (i * 13 + 1) as u8).collect();
        tables.push(push(b, *b"CFF ", cff_bytes, DKind::Plain));
    }
    // misc tables: shared with the base font per mask, else own copies
    let mut cmap = BTreeMap::new();
    cmap.insert(0x41u16, (n as u16).saturating_sub(1));
    let misc: [(Tag, Vec<u8>); 4] = [
        (*b"cmap", basic::cmap_table(&[(3, 1, basic::cmap_format4(&cmap))])),
        (*b"name", basic::name_minimal()),
        (*b"OS/2", basic::os2_v4(0x41, 0x41, 400)),
        (*b"post", basic::post_v3()),
    ];
    for (i, (tag, data)) in misc.into_iter().enumerate() {
        let shared = shared_misc.and_then(|(base, mask)| {
            if mask & (1 << i) != 0 {
                base.tables.iter().copied().find(|t| b.dtables[*t].tag == tag)
            } else {
                None
            }
        });
        match shared {
            Some(t) => tables.push(t),
            None => tables.push(push(b, tag, data, DKind::Plain)),
        }
    }
    let mut seen: BTreeSet<Tag> = tables.iter().map(|t| b.dtables[*t].tag).collect();
    for (sel, data) in &f.extras {
        let tag = extra_tag(*sel);
        if seen.insert(tag) {
            tables.push(push(b, tag, data.clone(), DKind::Plain));
        }
    }
    if f.big_table == 1 {
        let len = 66_000 + (f.metrics.r as usize % 4000);
        let data: Vec<u8> = (0..len).map(|i| (i ^ (i >> 8)) as u8).collect();
        tables.push(push(b, *b"BIGT", data, DKind::Plain));
    }
    let flavour = if cff {
        sfnt::OTTO
    } else if f.flavour_true {
        sfnt::TRUE
    } else {
        sfnt::TTF
    };
    Member { flavour, tables, group }
}

fn build_sibling(b: &mut Built, base: &Member, metrics: &Option<MetricsRaw>, own_head: bool, share_mask: u8) -> Member {
    let mut tables = Vec::new();
    let n = base.group.map(|g| b.groups[g].glyphs.len());
    for &t in &base.tables {
        let tag = b.dtables[t].tag;
        match &tag {
            b"hmtx" | b"hhea" if metrics.is_some() && n.is_some() => {}
            b"head" if own_head => {
                let mut h = b.dtables[t].data.clone();
                let revision = 0x0002_0000u32 + b.members.len() as u32;
                h[4..8].copy_from_slice(&revision.to_be_bytes());
                tables.push(push(b, tag, h, DKind::Plain));
            }
            b"name" | b"OS/2" | b"post" | b"cmap" if share_mask & 0x10 != 0 && share_mask & 1 == 0 => {
                // an own copy with identical content (a separate directory entry)
                let d = b.dtables[t].data.clone();
                tables.push(push(b, tag, d, DKind::Plain));
            }
            _ => tables.push(t),
        }
    }
    if let (Some(m), Some(n)) = (metrics, n) {
        let g = base.group.unwrap();
        let (metrics, nhm, legal) = resolve_metrics(m, Some(&b.groups[g].glyphs[..]), n);
        let adv_max = metrics.iter().map(|m| m.0).max().unwrap_or(0);
        tables.push(push(b, *b"hhea", basic::hhea(800, -200, adv_max, nhm as u16), DKind::Plain));
        tables.push(push(b, *b"hmtx", basic::hmtx(&metrics, nhm as u16), DKind::Hmtx { group: Some(g), metrics, nhm, legal }));
    }
    Member { flavour: base.flavour, tables, group: base.group }
}

pub fn build(case: &Case) -> Built {
    let mut b = Built::default();
    let base = build_font(&mut b, &case.font, None);
    b.members.push(base.clone());
    if let Some(c) = &case.coll {
        for m in &c.extra {
            let member = match m {
                MemberRaw::Sibling { metrics, own_head, share_mask } => build_sibling(&mut b, &base, metrics, *own_head, *share_mask),
                MemberRaw::Independent { font, share_mask } => build_font(&mut b, font, Some((&base, *share_mask))),
            };
            b.members.push(member);
        }
    }
    b
}

// =========================================================================================
// encoding plan

#[derive(Clone, Debug)]
pub struct Plan {
    pub group_xf: Vec<bool>,
    /// per dtable: hmtx transform flags (0 = not transformed)
    pub hmtx_flags: Vec<u8>,
    /// dtable indices in directory order
    pub order: Vec<usize>,
    pub probe_hmtx_only: bool,
}

fn plan(case: &Case, b: &Built) -> Plan {
    let e = &case.enc;
    let group_xf: Vec<bool> = (0..b.groups.len()).map(|g| e.glyf_xform[g % e.glyf_xform.len()] != 0).collect();
    let probe = e.hmtx_only_probe == 0;
    let mut hmtx_flags = vec![0u8; b.dtables.len()];
    let mut k = 0;
    for (i, t) in b.dtables.iter().enumerate() {
        if let DKind::Hmtx { group: Some(g), legal, .. } = &t.kind {
            let want = e.hmtx_want[k % e.hmtx_want.len()];
            k += 1;
            if group_xf[*g] || probe {
                hmtx_flags[i] = want & legal;
            }
        }
    }
    // directory order: sort by generated keys, then move every loca directly behind its glyf
    let mut idx: Vec<usize> = (0..b.dtables.len()).collect();
    if !e.order.is_empty() {
        idx.sort_by_key(|i| (e.order[i % e.order.len()].wrapping_mul(*i as u16 + 1), *i));
    }
    let mut order = Vec::with_capacity(idx.len());
    for i in idx {
        match b.dtables[i].kind {
            DKind::Loca(_) => {}
            DKind::Glyf(g) => {
                order.push(i);
                let l = b.dtables.iter().position(|t| matches!(t.kind, DKind::Loca(x) if x == g)).unwrap();
                order.push(l);
            }
            _ => order.push(i),
        }
    }
    Plan { group_xf, hmtx_flags, order, probe_hmtx_only: probe }
}

pub struct Encoded {
    pub bytes: Vec<u8>,
    pub stats: w2::XStats,
}

fn encode(case: &Case, b: &Built, p: &Plan, forced: Option<&w2::ForcedTriplets>) -> Encoded {
    let e = &case.enc;
    let mut ch = w2::Choices::new(&e.choices);
    let mut st = w2::XStats::new();
    let policy = if e.bbox_choose { w2::BboxPolicy::Choose } else { w2::BboxPolicy::ElideWhenEqual };
    let mut dir_pos = vec![0u16; b.dtables.len()];
    let mut tabs = Vec::with_capacity(p.order.len());
    for (pos, &i) in p.order.iter().enumerate() {
        dir_pos[i] = pos as u16;
        let t = &b.dtables[i];
        let explicit = e.explicit_mask & (1 << (i % 32)) != 0;
        let et = match &t.kind {
            DKind::Plain => w2::EncTable::plain(t.tag, &t.data, explicit),
            DKind::Glyf(g) => {
                if p.group_xf[*g] {
                    let grp = &b.groups[*g];
                    let data = w2::transform_glyf(&grp.glyphs, if grp.long { 1 } else { 0 }, policy, forced, &mut ch, &mut st);
                    w2::EncTable::transformed(t.tag, 0, t.data.len() as u32, data, explicit)
                } else {
                    w2::EncTable::plain(t.tag, &t.data, explicit)
                }
            }
            DKind::Loca(g) => {
                if p.group_xf[*g] {
                    w2::EncTable::transformed(t.tag, 0, t.data.len() as u32, Vec::new(), explicit)
                } else {
                    w2::EncTable::plain(t.tag, &t.data, explicit)
                }
            }
            DKind::Hmtx { metrics, nhm, .. } => {
                if p.hmtx_flags[i] != 0 {
                    w2::EncTable::transformed(t.tag, 1, t.data.len() as u32, w2::transform_hmtx(metrics, *nhm, p.hmtx_flags[i]), explicit)
                } else {
                    w2::EncTable::plain(t.tag, &t.data, explicit)
                }
            }
        };
        tabs.push(et);
    }
    let total: usize = tabs.iter().map(|t| t.data.len()).sum();
    let min_chunk = if total > 8192 { 64 } else { 1 };
    let opts = w2::ContainerOpts {
        brotli: w2::BrotliOpts {
            wbits: match e.wbits_sel {
                0..=5 => 16,
                s => 10 + (s - 6), // 10..=23
            }
            .min(24),
            chunks: e.chunks.iter().map(|c| (*c).max(min_chunk)).collect(),
            meta_every: e.meta_every,
            meta_skip: e.meta_skip,
        },
        major: e.version.0,
        minor: e.version.1,
        metadata: e.metadata.clone(),
        private: e.private.clone(),
    };
    let bytes = match &case.coll {
        None => w2::encode_woff2(b.members[0].flavour, &tabs, None, &opts, &mut ch, &mut st),
        Some(c) => {
            let fonts = b
                .members
                .iter()
                .enumerate()
                .map(|(mi, m)| {
                    let mut idx: Vec<u16> = m.tables.iter().map(|t| dir_pos[*t]).collect();
                    if c.shuffle_indices {
                        idx.sort_by_key(|i| (i.wrapping_mul(40503).wrapping_add(mi as u16 * 7)) & 0xFF);
                    } else {
                        idx.sort_by_key(|i| b.dtables[p.order[*i as usize]].tag);
                    }
                    (m.flavour, idx)
                })
                .collect();
            let col = w2::EncCollection { version: if c.v2 { 0x0002_0000 } else { 0x0001_0000 }, fonts };
            w2::encode_woff2(TTCF, &tabs, Some(&col), &opts, &mut ch, &mut st)
        }
    };
    Encoded { bytes, stats: st }
}

// =========================================================================================
// oracle

fn tag_str(t: u32) -> String {
    t.to_be_bytes().iter().map(|b| if (0x20..0x7F).contains(b) { *b as char } else { '?' }).collect()
}

type Got = BTreeMap<u32, Vec<u8>>;

fn decode_member(bytes: &[u8], index: usize, via_fontdata: bool) -> Result<(u32, Got), Fail> {
    if via_fontdata {
        let fd = ReadScope::new(bytes).read::<FontData<'_>>().map_err(|e| fail("read", format!("FontData::read of a conforming WOFF2 file: {:?}", e)))?;
        let p = fd.table_provider(index).map_err(|e| fail("provider", format!("table_provider({}): {:?}", index, e)))?;
        let tags = p.table_tags().ok_or_else(|| fail("tag-set", "table_tags() returned None".into()))?;
        let mut got = Got::new();
        for t in tags {
            let d = p
                .table_data(t)
                .map_err(|e| fail("table-data", format!("table_data({}): {:?}", tag_str(t), e)))?
                .ok_or_else(|| fail("table-data", format!("table_data({}) is None for a listed tag", tag_str(t))))?;
            got.insert(t, d.to_vec());
        }
        Ok((p.sfnt_version(), got))
    } else {
        let w = ReadScope::new(bytes).read::<Woff2Font<'_>>().map_err(|e| fail("read", format!("Woff2Font::read of a conforming WOFF2 file: {:?}", e)))?;
        let p = w.table_provider(index).map_err(|e| fail("provider", format!("table_provider({}): {:?}", index, e)))?;
        let fl = p.sfnt_version();
        let got: Got = p.into_tables().into_iter().map(|(k, v)| (k, v.to_vec())).collect();
        Ok((fl, got))
    }
}

fn describe_glyph(g: &PGlyph) -> String {
    crate::engine::util::truncate(&format!("{:?}", g), 400)
}

/// Compare reconstructed glyf/loca/head of one member with the model.
fn check_glyf(mi: usize, grp: &Group, orig_head: &[u8], got: &Got) -> CaseResult {
    let n = grp.glyphs.len();
    let head = got.get(&u32::from_be_bytes(*b"head")).unwrap();
    if head.len() != orig_head.len() {
        return Err(fail("head", format!("font {}: head length {} != {}", mi, head.len(), orig_head.len())));
    }
    for (i, (a, b)) in head.iter().zip(orig_head.iter()).enumerate() {
        if a != b && !(8..12).contains(&i) && !(50..52).contains(&i) {
            return Err(fail("head", format!("font {}: head byte {} is {:#04x}, original {:#04x}", mi, i, a, b)));
        }
    }
    let fmt = i16::from_be_bytes([head[50], head[51]]);
    if fmt != 0 && fmt != 1 {
        return Err(fail("head", format!("font {}: indexToLocFormat {}", mi, fmt)));
    }
    let glyf = got.get(&u32::from_be_bytes(*b"glyf")).unwrap();
    let loca = got.get(&u32::from_be_bytes(*b"loca")).unwrap();
    let parsed = gm::parse_glyf(glyf, loca, fmt == 1, n, true)
        .map_err(|e| fail("glyf-loca-parse", format!("font {}: reconstructed glyf/loca (indexToLocFormat {}): {}", mi, fmt, e)))?;
    for (i, (pg, g)) in parsed.iter().zip(grp.glyphs.iter()).enumerate() {
        let want = expected_pglyph(g);
        if *pg != want {
            let sig = match (&want, pg) {
                (PGlyph::Simple { .. }, PGlyph::Simple { .. }) => "glyph-simple",
                (PGlyph::Composite { .. }, PGlyph::Composite { .. }) => "glyph-composite",
                _ => "glyph-kind",
            };
            return Err(fail(sig, format!("font {} glyph {}: reconstructed {} expected {}", mi, i, describe_glyph(pg), describe_glyph(&want))));
        }
    }
    Ok(())
}

fn check_hmtx(mi: usize, orig: &[u8], metrics: &[(u16, i16)], nhm: usize, grp: Option<&Group>, flags: u8, got: &[u8]) -> CaseResult {
    if got == orig {
        return Ok(());
    }
    let n = metrics.len();
    // defect model: the monospaced tail is rebuilt from the xMin of *all* glyphs starting at
    // glyph 0 instead of the glyphs numberOfHMetrics..numGlyphs
    if let Some(g) = grp {
        if flags & w2::HMTX_NO_MONOSPACE_LSB != 0 {
            let mut model = orig[..4 * nhm].to_vec();
            for gl in &g.glyphs {
                model.extend_from_slice(&gl.x_min().to_be_bytes());
            }
            if got == &model[..] {
                return Err(fail(
                    KNOWN_HMTX,
                    format!(
                        "font {}: hmtx flags {:#04b}, numGlyphs {}, numberOfHMetrics {}: reconstructed hmtx has {} bytes (expected {}): the leftSideBearing[] tail holds xMin of glyphs 0..{} instead of glyphs {}..{}",
                        mi, flags, n, nhm, got.len(), orig.len(), n, nhm, n
                    ),
                ));
            }
        }
    }
    match gm::parse_hmtx(got, n, nhm) {
        Err(e) => Err(fail("hmtx", format!("font {} (hmtx flags {:#04b}): {}", mi, flags, e))),
        Ok(v) => {
            let i = (0..n).find(|i| v[*i] != metrics[*i]).unwrap_or(0);
            Err(fail(
                "hmtx",
                format!("font {} (hmtx flags {:#04b}, numberOfHMetrics {}): glyph {} has (advance, lsb) {:?}, original {:?}", mi, flags, nhm, i, v[i], metrics[i]),
            ))
        }
    }
}

/// Everything the decoder delivered for member `mi` against the encoder's input.
fn check_member(mi: usize, b: &Built, p: &Plan, is_collection: bool, flavour: u32, got: &Got) -> CaseResult {
    let mut deferred = None;
    check_member_inner(mi, b, p, is_collection, flavour, got, &mut deferred)?;
    match deferred {
        Some(f) => Err(f),
        None => Ok(()),
    }
}

/// Failures attributed to a specific defect model (narrow signatures) are *deferred*: the rest of
/// the member is still checked and any other discrepancy is reported first, so that such a
/// defect does not hide different violations behind it.
fn check_member_inner(mi: usize, b: &Built, p: &Plan, is_collection: bool, flavour: u32, got: &Got, deferred: &mut Option<Fail>) -> CaseResult {
    let m = &b.members[mi];
    let want_tags: BTreeSet<u32> = m.tables.iter().map(|t| u32::from_be_bytes(b.dtables[*t].tag)).collect();
    let got_tags: BTreeSet<u32> = got.keys().copied().collect();
    if want_tags != got_tags {
        let missing: Vec<String> = want_tags.difference(&got_tags).map(|t| tag_str(*t)).collect();
        let extra: Vec<String> = got_tags.difference(&want_tags).map(|t| tag_str(*t)).collect();
        return Err(fail("tag-set", format!("font {}: missing {:?}, unexpected {:?}", mi, missing, extra)));
    }
    if flavour != m.flavour {
        if is_collection && flavour == TTCF {
            deferred.get_or_insert(fail(
                "collection-member-flavour-ttcf",
                format!("font {} of a collection: sfnt_version() is 'ttcf', the member's flavour is {:#010x}", mi, m.flavour),
            ));
        } else {
            return Err(fail("flavour", format!("font {}: sfnt_version() {:#010x}, original {:#010x}", mi, flavour, m.flavour)));
        }
    }
    let hmtx_i = m.tables.iter().copied().find(|t| matches!(b.dtables[*t].kind, DKind::Hmtx { .. })).unwrap();
    let hmtx_flags = p.hmtx_flags[hmtx_i];
    let glyf_xf = m.group.map(|g| p.group_xf[g]).unwrap_or(false);
    // With hmtx transformed but glyf not (probe), a decoder may re-serialise glyf; that
    // combination is only compared semantically.
    let semantic = glyf_xf || (hmtx_flags != 0 && m.group.is_some());
    for &t in &m.tables {
        let dt = &b.dtables[t];
        let g = got.get(&u32::from_be_bytes(dt.tag)).unwrap();
        match &dt.kind {
            DKind::Hmtx { group, metrics, nhm, .. } => {
                if let Err(f) = check_hmtx(mi, &dt.data, metrics, *nhm, group.map(|x| &b.groups[x]), hmtx_flags, g) {
                    if f.sig == format!("C11:{}", KNOWN_HMTX) {
                        deferred.get_or_insert(f);
                    } else {
                        return Err(f);
                    }
                }
            }
            DKind::Glyf(_) | DKind::Loca(_) if semantic => {}
            DKind::Plain if semantic && &dt.tag == b"head" => {}
            _ => {
                if g != &dt.data {
                    let at = g.iter().zip(dt.data.iter()).position(|(a, b)| a != b).unwrap_or(g.len().min(dt.data.len()));
                    return Err(fail(
                        "untransformed-bytes",
                        format!("font {}: table {} ({} bytes, original {}) differs from the original at byte {}", mi, tag_str(u32::from_be_bytes(dt.tag)), g.len(), dt.data.len(), at),
                    ));
                }
            }
        }
    }
    if semantic {
        let head_i = m.tables.iter().copied().find(|t| &b.dtables[*t].tag == b"head").unwrap();
        check_glyf(mi, &b.groups[m.group.unwrap()], &b.dtables[head_i].data, got)?;
    }
    Ok(())
}

/// Self-check of the harness: my reader applied to my source glyf/loca/hmtx returns the model.
fn self_check(b: &Built) {
    for g in &b.groups {
        let parsed = gm::parse_glyf(&g.glyf, &g.loca, g.long, g.glyphs.len(), true).expect("own glyf does not parse");
        for (i, (pg, gl)) in parsed.iter().zip(g.glyphs.iter()).enumerate() {
            assert!(*pg == expected_pglyph(gl), "glyf_min(glyfgen(model)) != model at glyph {}", i);
        }
    }
    for t in &b.dtables {
        if let DKind::Hmtx { metrics, nhm, .. } = &t.kind {
            let v = gm::parse_hmtx(&t.data, metrics.len(), *nhm).expect("own hmtx does not parse");
            assert!(&v == metrics, "hmtx reader != model");
        }
    }
}

fn rec_has(rec: &Rec, label: &str) -> bool {
    rec.classes.iter().any(|c| c == label)
}

pub fn check_case(case: &Case, rec: &mut Rec) -> CaseResult {
    let b = build(case);
    self_check(&b);
    let p = plan(case, &b);
    let enc = encode(case, &b, &p, None);
    rec.artefact("woff2", &enc.bytes);
    rec.hash_bytes(&enc.bytes);
    rec.guard_alloc(enc.bytes.len());
    let is_coll = case.coll.is_some();

    // classification
    let st = &enc.stats;
    let any_xf = p.group_xf.iter().any(|x| *x);
    rec.set_nontrivial(any_xf && st.simple_ge3_points > 0);
    rec.class(if any_xf { "glyf:transform-0" } else if b.groups.is_empty() { "glyf:none(CFF)" } else { "glyf:null-transform" });
    rec.class_if(st.bbox_elided > 0, "bbox:elided");
    rec.class_if(st.overlap_bitmaps > 0, "glyf:overlapSimpleBitmap");
    rec.class_if(st.bbox_explicit_diff > 0, "bbox:explicit-different");
    rec.class_if(st.bbox_explicit_equal > 0, "bbox:explicit-equal");
    rec.class_if(st.composites > 0 && any_xf, "glyph:composite-transformed");
    for (gi, g) in b.groups.iter().enumerate() {
        if !p.group_xf[gi] {
            continue;
        }
        for gl in &g.glyphs {
            if let Glyph::Composite(c) = gl {
                let n = c.components.len();
                let on: Vec<bool> = c.components.iter().map(|k| k.misc_flags & gg::WE_HAVE_INSTRUCTIONS != 0).collect();
                let cnt = on.iter().filter(|x| **x).count();
                let label = if cnt == 0 {
                    "composite-instr:none"
                } else if cnt == n && n > 1 {
                    "composite-instr:all"
                } else if on[n - 1] {
                    "composite-instr:last(-only)"
                } else if cnt == 1 && on[0] {
                    "composite-instr:first-only(not-last)"
                } else if cnt == 1 {
                    "composite-instr:middle-only"
                } else {
                    "composite-instr:several-not-last"
                };
                if !rec_has(rec, label) {
                    rec.class(label);
                }
                if cnt > 0 && c.instructions.as_ref().map(|i| i.is_empty()).unwrap_or(false) && !rec_has(rec, "composite-instr:flag-with-zero-length") {
                    rec.class("composite-instr:flag-with-zero-length");
                }
            }
        }
    }
    rec.class_if(st.empty > 0 && any_xf, "glyph:empty-transformed");
    for (k, name) in ["u255:1-byte", "u255:code255", "u255:code254", "u255:code253"].iter().enumerate() {
        rec.class_if(st.u255_forms[k] > 0, name);
    }
    let mut hmtx_only = false;
    for (i, t) in b.dtables.iter().enumerate() {
        if let DKind::Hmtx { group, metrics, nhm, .. } = &t.kind {
            let f = p.hmtx_flags[i];
            rec.class(&format!("hmtx:flags={}", f));
            if f != 0 {
                rec.class(if *nhm == metrics.len() { "hmtx:nHM=n" } else if *nhm == 1 { "hmtx:nHM=1" } else { "hmtx:1<nHM<n" });
                rec.class_if(f & 2 != 0 && *nhm < metrics.len(), "hmtx:nHM<n+tail-elided");
                if let Some(g) = group {
                    if !p.group_xf[*g] {
                        hmtx_only = true;
                    }
                }
            }
        }
    }
    rec.class_if(hmtx_only, "probe:hmtx-transformed+glyf-null");
    rec.class(if is_coll { &["collection:1", "collection:2", "collection:3"][(b.members.len() - 1).min(2)] } else { "single" });
    rec.class_if(b.dtables.iter().any(|t| w2::known_tag_index(&t.tag).is_none()), "tag:arbitrary");
    rec.class_if(case.enc.explicit_mask != 0, "tag:known-written-explicitly");
    rec.class_if(b.groups.iter().any(|g| g.long), "loca:long");
    rec.class_if(b.groups.iter().any(|g| !g.long), "loca:short");
    rec.class_if(b.dtables.iter().any(|t| &t.tag == b"BIGT"), "brotli:mlen>65536-possible");
    {
        // at most 20 triplet-bin labels per case, starting at a case dependent bin, so that
        // the histogram shows every bin that is ever hit
        let start = (enc.bytes.len() * 7 + b.dtables.len()) % 128;
        let mut k = 0;
        for j in 0..128 {
            let bin = (start + j) % 128;
            if st.triplet_bins[bin] > 0 {
                rec.class(&format!("triplet-bin:{:03}", bin));
                k += 1;
                if k == 20 {
                    break;
                }
            }
        }
    }
    rec.sample(|| {
        format!(
            "{} bytes, {} font(s), tables {:?}, glyf xform {:?}, hmtx flags {:?}, glyph counts {:?}",
            enc.bytes.len(),
            b.members.len(),
            p.order.iter().map(|i| tag_str(u32::from_be_bytes(b.dtables[*i].tag))).collect::<Vec<_>>(),
            p.group_xf,
            p.hmtx_flags.iter().filter(|f| **f != 0).collect::<Vec<_>>(),
            b.groups.iter().map(|g| g.glyphs.len()).collect::<Vec<_>>()
        )
    });

    let mut deferred: Option<Fail> = None;
    for mi in 0..b.members.len() {
        match decode_member(&enc.bytes, mi, case.enc.via_fontdata) {
            Ok((fl, got)) => check_member_inner(mi, &b, &p, is_coll, fl, &got, &mut deferred)?,
            Err(f) => {
                // soft probe: hmtx transformed while glyf is not — a decoder may refuse it
                // (it must not panic, and if it accepts the result must be right)
                let m = &b.members[mi];
                let hm = m.tables.iter().copied().find(|t| matches!(b.dtables[*t].kind, DKind::Hmtx { .. })).unwrap();
                let glyf_xf = m.group.map(|g| p.group_xf[g]).unwrap_or(false);
                if p.hmtx_flags[hm] != 0 && !glyf_xf && f.sig == "C11:provider" {
                    rec.class("probe:hmtx-only-rejected");
                    continue;
                }
                return Err(f);
            }
        }
    }
    if let Some(md) = &case.enc.metadata {
        let w = ReadScope::new(&enc.bytes).read::<Woff2Font<'_>>().map_err(|e| fail("read", format!("{:?}", e)))?;
        let got = w.extended_metadata().map_err(|e| fail("metadata", format!("extended_metadata(): {:?}", e)))?;
        if got.as_deref().map(|s| s.as_bytes()) != Some(&md[..]) {
            return Err(fail("metadata", format!("extended_metadata() = {:?}, stored {:?}", got, String::from_utf8_lossy(md))));
        }
        rec.class("container:metadata");
    }
    match deferred {
        Some(f) => Err(f),
        None => Ok(()),
    }
}

// =========================================================================================
// side sections

fn check_u255_chunk(chunk: u64, rec: &mut Rec) -> CaseResult {
    let mut evals = 0;
    for lo in 0..256u32 {
        let v = ((chunk as u32) << 8 | lo) as u16;
        let forms = w2::u255_forms(v);
        for f in &forms {
            let mut bytes = f.clone();
            bytes.push(0xA5);
            let mut ctxt = ReadScope::new(&bytes).ctxt();
            let got = ctxt.read::<PackedU16>().map_err(|e| fail("u255", format!("{:?} (value {}): {:?}", f, v, e)))?;
            if got != v {
                return Err(fail("u255", format!("{:?} decodes to {}, expected {}", f, got, v)));
            }
            let next = ctxt.read_u8().ok();
            if next != Some(0xA5) || ctxt.bytes_available() {
                return Err(fail("u255-length", format!("{:?} (value {}): reader did not consume exactly {} bytes", f, v, f.len())));
            }
            // every proper prefix is a truncated value
            for cut in 0..f.len() {
                if ReadScope::new(&f[..cut]).read::<PackedU16>().is_ok() {
                    return Err(fail("u255-truncated", format!("prefix {:?} of {:?} was accepted", &f[..cut], f)));
                }
            }
            evals += 1;
        }
    }
    rec.evaluations(evals);
    rec.nontrivial();
    rec.hash_u64(chunk);
    Ok(())
}

fn base128_values(i: u64) -> Vec<u32> {
    // item 0: boundaries; other items: 64 pseudo-random values each
    if i == 0 {
        let mut v = vec![0u32, 1, 63, 127, 128, 255, 16383, 16384, (1 << 21) - 1, 1 << 21, (1 << 28) - 1, 1 << 28, u32::MAX - 1, u32::MAX];
        for k in 0..32 {
            let p = 1u32 << k;
            v.extend_from_slice(&[p.wrapping_sub(1), p, p.wrapping_add(1)]);
        }
        v
    } else {
        (0..64u64)
            .map(|k| {
                let r = crate::engine::util::mix64(i * 64 + k);
                // vary the magnitude: 1..=32 significant bits
                (r as u32) >> ((r >> 32) % 32)
            })
            .collect()
    }
}

fn check_base128_item(i: u64, rec: &mut Rec) -> CaseResult {
    let rd = |b: &[u8]| ReadScope::new(b).read::<U32Base128>();
    let mut evals = 0;
    for v in base128_values(i) {
        let enc = w2::uint_base128(v);
        let mut bytes = enc.clone();
        bytes.push(0x5A);
        let mut ctxt = ReadScope::new(&bytes).ctxt();
        let got = ctxt.read::<U32Base128>().map_err(|e| fail("uintbase128", format!("{:02x?} (value {}): {:?}", enc, v, e)))?;
        if got != v {
            return Err(fail("uintbase128", format!("{:02x?} decodes to {}, expected {}", enc, got, v)));
        }
        if ctxt.read_u8().ok() != Some(0x5A) || ctxt.bytes_available() {
            return Err(fail("uintbase128-length", format!("{:02x?}: reader did not consume exactly {} bytes", enc, enc.len())));
        }
        // leading zero group(s) make the value illegal
        let mut lead = vec![0x80u8];
        lead.extend_from_slice(&enc);
        if rd(&lead).is_ok() {
            return Err(fail("uintbase128-leading-zero", format!("{:02x?} (leading zero) was accepted", lead)));
        }
        // truncated: continuation bit on the last byte
        let mut cut = enc.clone();
        *cut.last_mut().unwrap() |= 0x80;
        if cut.len() < 5 && rd(&cut).is_ok() {
            return Err(fail("uintbase128-truncated", format!("{:02x?} (no terminating byte) was accepted", cut)));
        }
        evals += 3;
    }
    if i == 0 {
        // overflow: five groups whose value exceeds 2^32-1, and a six byte form
        for b in [
            vec![0x90u8, 0x80, 0x80, 0x80, 0x00],
            vec![0xFF, 0xFF, 0xFF, 0xFF, 0x7F],
            vec![0x9F, 0xFF, 0xFF, 0xFF, 0x7F],
            vec![0x81, 0x80, 0x80, 0x80, 0x80, 0x00],
            vec![0x8F, 0xFF, 0xFF, 0xFF, 0xFF, 0x7F],
            vec![0x8F, 0xFF, 0xFF, 0xFF, 0xFF],
        ] {
            if let Ok(v) = rd(&b) {
                return Err(fail("uintbase128-overflow", format!("{:02x?} (overflow / more than 5 bytes) was accepted as {}", b, v)));
            }
            evals += 1;
        }
        // largest legal
        if rd(&[0x8F, 0xFF, 0xFF, 0xFF, 0x7F]).ok() != Some(u32::MAX) {
            return Err(fail("uintbase128", "8F FF FF FF 7F is not 2^32-1".into()));
        }
    }
    rec.evaluations(evals);
    rec.nontrivial();
    rec.hash_u64(i);
    Ok(())
}

/// A case with fixed encoder options (used by the crafted sections).
fn fixed_case(long: bool, glyf_xform: u8, hmtx_want: u8, via_fontdata: bool) -> Case {
    Case {
        font: FontRaw {
            glyphs: vec![],
            metrics: MetricsRaw { adv: vec![], lsb_noise: vec![], lsb_mode: 0, nhm_sel: 0, r: 0 },
            long_loca: long,
            align_sel: 0,
            extras: vec![],
            outline_sel: 1,
            flavour_true: false,
            big_table: 0,
        },
        coll: None,
        enc: EncRaw {
            glyf_xform: vec![glyf_xform],
            hmtx_want: vec![hmtx_want],
            hmtx_only_probe: 1,
            order: vec![],
            explicit_mask: 0,
            choices: vec![],
            bbox_choose: false,
            wbits_sel: 0,
            chunks: vec![65536],
            meta_every: 0,
            meta_skip: 0,
            version: (1, 0),
            metadata: None,
            private: vec![],
            via_fontdata,
        },
    }
}

/// payload samples for a field of `bits` bits with base `delta` (|value| must stay <= 32767 so
/// that the way back to the origin is a legal glyf delta too)
fn payload_samples(bits: u32, delta: i32, salt: u32) -> Vec<i32> {
    if bits == 0 {
        return vec![0];
    }
    let max_field = (1i64 << bits) - 1;
    let max = max_field.min((32767 - delta) as i64) as i32;
    let mut v = vec![0, 1, max / 2, max - 1, max, (salt as i32 * 2654435 & 0x7FFF_FFFF) % (max + 1)];
    v.retain(|x| *x >= 0 && *x <= max);
    v.sort();
    v.dedup();
    v
}

/// One crafted font per triplet row: glyph 1 has a single contour that alternates a point
/// reached through the forced row (with a sampled payload) and the origin.
fn check_triplet_row(item: u64, rec: &mut Rec) -> CaseResult {
    let idx = (item % 128) as u8;
    let variant = (item / 128) as u32; // 0: points on-curve, 1: off-curve, long loca
    let t = w2::triplet_entry(idx);
    let xs = payload_samples(t.x_bits, t.delta_x, idx as u32 + 1);
    let ys = payload_samples(t.y_bits, t.delta_y, idx as u32 + 77);
    let mut pts: Vec<gg::Pt> = Vec::new();
    let mut forced = w2::ForcedTriplets::new();
    for xv in &xs {
        for yv in &ys {
            // raw field values -> data bytes -> (dx, dy) through my implementation of the table
            let total = 8 * t.data_bytes as u32;
            let mut word: u64 = 0;
            if t.x_bits > 0 {
                word |= (*xv as u64) << (total - t.x_bits);
            }
            if t.y_bits > 0 {
                word |= (*yv as u64) << (total - t.x_bits - t.y_bits);
            }
            let data: Vec<u8> = (0..t.data_bytes).map(|i| (word >> (8 * (t.data_bytes - 1 - i))) as u8).collect();
            let (dx, dy) = w2::triplet_decode(idx, &data);
            assert!(w2::triplet_encode(idx, dx, dy) == data, "triplet encode/decode disagree for row {}", idx);
            assert!(w2::triplet_candidates(dx, dy).contains(&idx), "row {} not a candidate for its own decoding", idx);
            forced.insert((1, pts.len()), idx);
            pts.push((dx as i16, dy as i16, variant == 0));
            pts.push((0, 0, variant != 0));
        }
    }
    let npts = pts.len();
    let mut s = Simple { contours: vec![pts], instructions: vec![], bbox: (0, 0, 0, 0) };
    s.bbox = s.computed_bbox();
    let glyphs = vec![Glyph::Empty, Glyph::Simple(s)];
    let long = variant != 0;
    let (glyf, loca) = gg::encode_glyf_loca(&glyphs, &[0, 0], long, 2);
    let mut b = Built::default();
    b.groups.push(Group { glyphs, long, glyf: glyf.clone(), loca: loca.clone() });
    let metrics = vec![(500u16, 0i16), (600, 10)];
    let mut tables = vec![
        push(&mut b, *b"head", head_table(long, 0x0001_0000), DKind::Plain),
        push(&mut b, *b"hhea", basic::hhea(800, -200, 600, 2), DKind::Plain),
        push(&mut b, *b"maxp", basic::maxp_v1(2), DKind::Plain),
    ];
    tables.push(push(&mut b, *b"hmtx", basic::hmtx(&metrics, 2), DKind::Hmtx { group: Some(0), metrics, nhm: 2, legal: 0 }));
    tables.push(push(&mut b, *b"glyf", glyf, DKind::Glyf(0)));
    tables.push(push(&mut b, *b"loca", loca, DKind::Loca(0)));
    b.members.push(Member { flavour: sfnt::TTF, tables, group: Some(0) });
    self_check(&b);
    let case = fixed_case(long, 1, 0, variant != 0);
    let p = plan(&case, &b);
    let enc = encode(&case, &b, &p, Some(&forced));
    assert!(enc.stats.triplet_bins[idx as usize] as usize >= npts / 2);
    rec.artefact("woff2", &enc.bytes);
    rec.hash_bytes(&enc.bytes);
    let (fl, got) = decode_member(&enc.bytes, 0, case.enc.via_fontdata).map_err(|f| fail("triplet", format!("row {}: {} ({})", idx, f.msg, f.sig)))?;
    check_member(0, &b, &p, false, fl, &got).map_err(|f| {
        if f.sig == "C11:glyph-simple" {
            fail("triplet", format!("triplet row {} ({:?}): {}", idx, t, f.msg))
        } else {
            f
        }
    })?;
    rec.evaluations((npts / 2) as u64);
    rec.nontrivial();
    rec.class(&format!("triplet-row-bytes:{}", t.data_bytes));
    Ok(())
}

/// Fonts at the upper end of the glyph-count range (the bbox bitmap has
/// 4*floor((numGlyphs+31)/32) bytes): a few real glyphs at both ends, empty glyphs between.
/// Cases of the ordinary generator in which the font carries a plain table for EVERY tag of the
/// known-tag list beyond the structural ones, each with its own content; the directory is written
/// with 6-bit indices only, explicit tags only, or the generated mix. The reconstructed font must
/// serve every table under its own tag (a wrong entry anywhere in the decoder's tag list shows).
fn known_tags_strategy() -> impl Strategy<Value = Case> {
    (case_strategy(), 0u8..3).prop_map(|(mut case, form)| {
        case.font.extras = (0..N_EXTRA_TAGS)
            .map(|sel| {
                let t = extra_tag(sel);
                let mut d = t.to_vec();
                d.push(sel);
                d.extend_from_slice(&t);
                (sel, d)
            })
            .collect();
        match form {
            0 => case.enc.explicit_mask = 0,
            1 => case.enc.explicit_mask = u32::MAX,
            _ => {}
        }
        case
    })
}

fn check_glyph_count(item: u64, rec: &mut Rec) -> CaseResult {
    if item == 9 {
        return check_short_to_long(rec);
    }
    let n = [65504usize, 65505, 65535][(item % 3) as usize];
    let variant = item / 3; // 0: short loca, no hmtx transform; 1: long loca, hmtx flags 1; 2: long loca, hmtx flags 3
    let long = variant >= 1;
    let rect = |x0: i16, y0: i16, x1: i16, y1: i16| {
        let mut s = Simple { contours: vec![vec![(x0, y0, true), (x0, y1, false), (x1, y1, true), (x1, y0, true)]], instructions: vec![1, 2, 3], bbox: (0, 0, 0, 0) };
        s.bbox = s.computed_bbox();
        Glyph::Simple(s)
    };
    let comp = |g: u16, bbox| {
        Glyph::Composite(Composite {
            components: vec![Component { misc_flags: gg::ARGS_ARE_XY_VALUES | gg::WE_HAVE_INSTRUCTIONS, words: true, glyph: g, arg1: -300, arg2: 40, xform: Xform::Scale(0x2000) }],
            instructions: Some(vec![9, 8]),
            bbox,
        })
    };
    let mut glyphs = vec![Glyph::Empty; n];
    glyphs[0] = rect(10, 0, 500, 700);
    glyphs[1] = comp(0, (-7, -8, 900, 901));
    glyphs[n - 3] = rect(-20, -30, 40, 50);
    glyphs[n - 2] = rect(5, 6, 7, 8);
    if let Glyph::Simple(s) = &mut glyphs[n - 2] {
        s.bbox = (1, 2, 3, 4); // explicit, different from the computed box
    }
    glyphs[n - 1] = comp(1, (11, 12, 13, 14));
    let styles = vec![0u8; n];
    let (glyf, loca) = gg::encode_glyf_loca(&glyphs, &styles, long, 2);
    let metrics: Vec<(u16, i16)> = glyphs.iter().enumerate().map(|(i, g)| (if i == 0 { 777 } else { 777 }, g.x_min())).collect();
    let mut b = Built::default();
    b.groups.push(Group { glyphs, long, glyf: glyf.clone(), loca: loca.clone() });
    let mut tables = vec![
        push(&mut b, *b"head", head_table(long, 0x0001_0000), DKind::Plain),
        push(&mut b, *b"hhea", basic::hhea(800, -200, 777, 1), DKind::Plain),
        push(&mut b, *b"maxp", basic::maxp_v1(n as u16), DKind::Plain),
    ];
    tables.push(push(&mut b, *b"hmtx", basic::hmtx(&metrics, 1), DKind::Hmtx { group: Some(0), metrics, nhm: 1, legal: 3 }));
    tables.push(push(&mut b, *b"glyf", glyf, DKind::Glyf(0)));
    tables.push(push(&mut b, *b"loca", loca, DKind::Loca(0)));
    b.members.push(Member { flavour: sfnt::TTF, tables, group: Some(0) });
    let case = fixed_case(long, 1, [0, 1, 3][variant as usize], variant == 1);
    let p = plan(&case, &b);
    let enc = encode(&case, &b, &p, None);
    rec.hash_bytes(&enc.bytes);
    rec.guard_alloc(enc.bytes.len());
    let (fl, got) = decode_member(&enc.bytes, 0, case.enc.via_fontdata).map_err(|f| Fail::new(f.sig, format!("numGlyphs {}: {}", n, f.msg)))?;
    check_member(0, &b, &p, false, fl, &got).map_err(|f| Fail::new(f.sig, format!("numGlyphs {}: {}", n, f.msg)))?;
    rec.evaluations(n as u64);
    rec.nontrivial();
    rec.class(&format!("numGlyphs:{}", n));
    Ok(())
}

/// A short-loca font whose compactly encoded glyf fits 16-bit offsets while a glyf with
/// 16-bit deltas for every point does not: the decoder has to deliver a loca/head pair that is
/// consistent with whatever glyf it writes.
fn check_short_to_long(rec: &mut Rec) -> CaseResult {
    let n = 4600usize;
    let glyphs: Vec<Glyph> = (0..n)
        .map(|i| {
            let k = (i % 50) as i16;
            let mut s = Simple { contours: vec![vec![(k, 0, true), (k + 5, 9, false), (k + 9, 3, true), (k + 2, -4, true)]], instructions: vec![], bbox: (0, 0, 0, 0) };
            s.bbox = s.computed_bbox();
            Glyph::Simple(s)
        })
        .collect();
    let styles = vec![gg::STYLE_SHORT | gg::STYLE_SAME | gg::STYLE_REPEAT; n];
    let (glyf, loca) = gg::encode_glyf_loca(&glyphs, &styles, false, 2);
    assert!(glyf.len() <= 131_070 && n * 34 > 131_070, "short-to-long construction is off: {}", glyf.len());
    let metrics: Vec<(u16, i16)> = glyphs.iter().map(|g| (600, g.x_min())).collect();
    let mut b = Built::default();
    b.groups.push(Group { glyphs, long: false, glyf: glyf.clone(), loca: loca.clone() });
    let mut tables = vec![
        push(&mut b, *b"head", head_table(false, 0x0001_0000), DKind::Plain),
        push(&mut b, *b"hhea", basic::hhea(800, -200, 600, n as u16), DKind::Plain),
        push(&mut b, *b"maxp", basic::maxp_v1(n as u16), DKind::Plain),
    ];
    tables.push(push(&mut b, *b"hmtx", basic::hmtx(&metrics, n as u16), DKind::Hmtx { group: Some(0), metrics, nhm: n, legal: 3 }));
    tables.push(push(&mut b, *b"glyf", glyf, DKind::Glyf(0)));
    tables.push(push(&mut b, *b"loca", loca, DKind::Loca(0)));
    b.members.push(Member { flavour: sfnt::TTF, tables, group: Some(0) });
    self_check(&b);
    let case = fixed_case(false, 1, 1, false);
    let p = plan(&case, &b);
    let enc = encode(&case, &b, &p, None);
    rec.hash_bytes(&enc.bytes);
    let (fl, got) = decode_member(&enc.bytes, 0, false)?;
    check_member(0, &b, &p, false, fl, &got).map_err(|f| Fail::new(f.sig, format!("short-loca font with {} glyphs: {}", n, f.msg)))?;
    let head = &got[&u32::from_be_bytes(*b"head")];
    rec.class(if head[51] == 1 { "short-to-long:decoder-switched-to-long" } else { "short-to-long:decoder-kept-short" });
    rec.evaluations(n as u64);
    rec.nontrivial();
    Ok(())
}

// ---- fixtures

fn be16(d: &[u8], at: usize) -> u16 {
    u16::from_be_bytes([d[at], d[at + 1]])
}

/// PGlyph -> model glyph; None if the record uses something the model cannot express exactly
fn glyph_from_parsed(p: &PGlyph) -> Option<Glyph> {
    Some(match p {
        PGlyph::Empty => Glyph::Empty,
        PGlyph::Simple { bbox, contours, instructions } => {
            if contours.iter().any(|c| c.is_empty()) {
                return None;
            }
            let mut cs = Vec::new();
            for c in contours {
                let mut v = Vec::new();
                for p in c {
                    v.push((i16::try_from(p.0).ok()?, i16::try_from(p.1).ok()?, p.2));
                }
                cs.push(v);
            }
            // consecutive deltas must be representable (|d| <= 32768)
            Glyph::Simple(Simple { contours: cs, instructions: instructions.clone(), bbox: *bbox })
        }
        PGlyph::Composite { bbox, components, instructions } => {
            let comps: Vec<Component> = components
                .iter()
                .map(|c| Component {
                    misc_flags: c.flags & gg::FREE_COMPONENT_FLAGS,
                    words: c.flags & gg::ARG_1_AND_2_ARE_WORDS != 0,
                    glyph: c.glyph,
                    arg1: c.arg1,
                    arg2: c.arg2,
                    xform: match c.xform.len() {
                        0 => Xform::None,
                        1 => Xform::Scale(c.xform[0]),
                        2 => Xform::XY(c.xform[0], c.xform[1]),
                        _ => Xform::Matrix(c.xform[0], c.xform[1], c.xform[2], c.xform[3]),
                    },
                })
                .collect();
            let g = Glyph::Composite(Composite { components: comps, instructions: instructions.clone(), bbox: *bbox });
            if expected_pglyph(&g) != *p {
                return None; // reserved flag bits
            }
            g
        }
    })
}

/// The decoded WOFF2 fixtures with a known source font, and real TrueType fixtures pushed
/// through my encoder.
fn fixture_items() -> Vec<(String, Option<String>, u8)> {
    let mut v: Vec<(String, Option<String>)> = vec![
        ("fonts/woff2/test-font.woff2".into(), Some("fonts/opentype/test-font.ttf".into())),
        ("fonts/woff2/SFNT-TTF-Composite.woff2".into(), Some("fonts/opentype/SFNT-TTF-Composite.ttf".into())),
        ("fonts/woff2/roundtrip-hmtx-lsb-001.woff2".into(), None),
        ("fonts/woff2/roundtrip-offset-tables-001.woff2".into(), None),
        ("fonts/woff2/TestSVGgzip.woff2".into(), None),
        ("fonts/woff2/test_glyf_loca_null_transforms.woff2".into(), None),
    ];
    let mut v: Vec<(String, Option<String>, u8)> = v.into_iter().map(|(a, b)| (a, b, 0)).collect();
    // TrueType fixtures: mode 0 = null transform, transform 0, transform 0 + hmtx flag bit 0;
    // mode 1 = transform 0 + hmtx flag bits 0 and 1 (a separate item because of the known finding)
    for f in fixtures::list("fonts", &["ttf"], 65536) {
        v.push((f.clone(), None, 0));
        v.push((f, None, 1));
    }
    v
}

fn sfnt_tables(data: &[u8]) -> Option<(u32, Vec<(Tag, Vec<u8>)>)> {
    let (fl, dir) = sfnt::parse_directory(data)?;
    let mut v = Vec::new();
    for e in dir {
        let d = data.get(e.offset as usize..(e.offset as usize).checked_add(e.length as usize)?)?;
        v.push((e.tag, d.to_vec()));
    }
    Some((fl, v))
}

fn check_fixture(item: u64, rec: &mut Rec) -> CaseResult {
    let items = fixture_items();
    let (path, source, mode) = &items[item as usize];
    let Some(bytes) = fixtures::read(path) else {
        rec.class("fixture:missing");
        return Ok(());
    };
    rec.hash_bytes(path.as_bytes());
    if path.ends_with(".woff2") {
        // real WOFF2 files load through the same API calls the generated ones use
        let w = ReadScope::new(&bytes).read::<Woff2Font<'_>>().map_err(|e| fail("fixture-read", format!("{}: {:?}", path, e)))?;
        let nfonts = w.collection_directory.as_ref().map(|d| d.fonts().count()).unwrap_or(1);
        for i in 0..nfonts {
            let (_, got) = decode_member(&bytes, i, i % 2 == 0).map_err(|f| fail("fixture-provider", format!("{}: {}", path, f.msg)))?;
            // glyf/loca/hmtx delivered for the fixture must at least parse consistently
            if let (Some(glyf), Some(loca), Some(head), Some(maxp), Some(hhea), Some(hmtx)) = (
                got.get(&u32::from_be_bytes(*b"glyf")),
                got.get(&u32::from_be_bytes(*b"loca")),
                got.get(&u32::from_be_bytes(*b"head")),
                got.get(&u32::from_be_bytes(*b"maxp")),
                got.get(&u32::from_be_bytes(*b"hhea")),
                got.get(&u32::from_be_bytes(*b"hmtx")),
            ) {
                let n = be16(maxp, 4) as usize;
                let parsed = gm::parse_glyf(glyf, loca, be16(head, 50) == 1, n, false).map_err(|e| fail("fixture-glyf", format!("{} font {}: {}", path, i, e)))?;
                let nhm = be16(hhea, 34) as usize;
                let hm = match gm::parse_hmtx(hmtx, n, nhm) {
                    Ok(v) => v,
                    Err(e) => {
                        // attribution to the known finding: the file's hmtx transform has flag bit 1
                        // (read through allsorts' container API, used for attribution only) and the
                        // delivered table is exactly the defect model's output
                        let flags = w
                            .find_table_entry(allsorts::tag::HMTX, i)
                            .filter(|e| e.transform_length.is_some())
                            .and_then(|e| e.read_table(&w.table_data_block_scope()).ok())
                            .and_then(|t| t.scope().data().first().copied())
                            .unwrap_or(0);
                        let xmins: Vec<u8> = parsed
                            .iter()
                            .flat_map(|g| {
                                match g {
                                    PGlyph::Empty => 0i16,
                                    PGlyph::Simple { bbox, .. } | PGlyph::Composite { bbox, .. } => bbox.0,
                                }
                                .to_be_bytes()
                            })
                            .collect();
                        if flags & w2::HMTX_NO_MONOSPACE_LSB != 0 && nhm <= n && hmtx.len() == 4 * nhm + 2 * n && hmtx[4 * nhm..] == xmins[..] {
                            return Err(fail(KNOWN_HMTX, format!("{} font {}: hmtx flags {:#04b}: {} (leftSideBearing[] holds xMin of glyphs 0..{})", path, i, flags, e, n)));
                        }
                        return Err(fail("fixture-hmtx", format!("{} font {}: {}", path, i, e)));
                    }
                };
                if let Some(src) = source {
                    if let Some(sb) = fixtures::read(src) {
                        let (_, st) = sfnt_tables(&sb).ok_or_else(|| fail("fixture-source", format!("{} unreadable", src)))?;
                        let tb = |t: &[u8; 4]| st.iter().find(|e| &e.0 == t).map(|e| &e.1[..]);
                        let (sg, sl, sh, sm, shh, shm) =
                            (tb(b"glyf").unwrap(), tb(b"loca").unwrap(), tb(b"head").unwrap(), tb(b"maxp").unwrap(), tb(b"hhea").unwrap(), tb(b"hmtx").unwrap());
                        let sn = be16(sm, 4) as usize;
                        let sp = gm::parse_glyf(sg, sl, be16(sh, 50) == 1, sn, false).expect("source fixture glyf");
                        let shmv = gm::parse_hmtx(shm, sn, be16(shh, 34) as usize).expect("source fixture hmtx");
                        if sp != parsed {
                            let k = sp.iter().zip(parsed.iter()).position(|(a, b)| a != b).unwrap_or(0);
                            return Err(fail(
                                "fixture-glyph",
                                format!("{} glyph {}: decoded {} source {}", path, k, describe_glyph(&parsed[k.min(parsed.len() - 1)]), describe_glyph(&sp[k])),
                            ));
                        }
                        if shmv != hm {
                            return Err(fail("fixture-hmtx", format!("{}: decoded hmtx differs from {}", path, src)));
                        }
                        rec.class("fixture:woff2-vs-source-ttf");
                    }
                }
                rec.evaluations(n as u64);
            }
        }
        rec.class("fixture:woff2");
        rec.nontrivial();
        return Ok(());
    }
    // a real TrueType font: re-encode with my encoder (transformed and null) and decode
    let Some((fl, tabs)) = sfnt_tables(&bytes) else {
        rec.class("fixture:not-sfnt");
        return Ok(());
    };
    let tb = |t: &[u8; 4]| tabs.iter().find(|e| &e.0 == t).map(|e| &e.1[..]);
    let (Some(glyf), Some(loca), Some(head), Some(maxp), Some(hhea), Some(hmtx)) = (tb(b"glyf"), tb(b"loca"), tb(b"head"), tb(b"maxp"), tb(b"hhea"), tb(b"hmtx")) else {
        rec.class("fixture:no-glyf");
        return Ok(());
    };
    if head.len() < 54 || maxp.len() < 6 || hhea.len() < 36 {
        rec.class("fixture:skipped");
        return Ok(());
    }
    let n = be16(maxp, 4) as usize;
    let long = be16(head, 50) == 1;
    let nhm = be16(hhea, 34) as usize;
    let (Ok(parsed), Ok(metrics)) = (gm::parse_glyf(glyf, loca, long, n, false), gm::parse_hmtx(hmtx, n, nhm)) else {
        rec.class("fixture:skipped-unparsable");
        return Ok(());
    };
    let mut glyphs = Vec::new();
    for p in &parsed {
        match glyph_from_parsed(p) {
            Some(g) => glyphs.push(g),
            None => {
                rec.class("fixture:skipped-inexpressible");
                return Ok(());
            }
        }
    }
    // deltas between consecutive points must fit the glyf format (they do in a real font)
    let mut legal = 0u8;
    if (0..nhm).all(|i| metrics[i].1 == glyphs[i].x_min()) {
        legal |= 1;
    }
    if (nhm..n).all(|i| metrics[i].1 == glyphs[i].x_min()) {
        legal |= 2;
    }
    let variants: &[u8] = if *mode == 0 { &[0, 1, 2] } else { &[3] };
    for &variant in variants {
        let mut b = Built::default();
        b.groups.push(Group { glyphs: glyphs.clone(), long, glyf: glyf.to_vec(), loca: loca.to_vec() });
        let mut tables = Vec::new();
        for (tag, data) in &tabs {
            if tag == b"DSIG" {
                continue;
            }
            let kind = match tag {
                b"glyf" => DKind::Glyf(0),
                b"loca" => DKind::Loca(0),
                b"hmtx" => DKind::Hmtx { group: Some(0), metrics: metrics.clone(), nhm, legal },
                _ => DKind::Plain,
            };
            tables.push(push(&mut b, *tag, data.clone(), kind));
        }
        b.members.push(Member { flavour: fl, tables, group: Some(0) });
        let mut case = fixed_case(long, if variant == 0 { 0 } else { 1 }, [0, 0, 1, 3][variant as usize], variant == 1);
        case.enc.wbits_sel = variant * 6;
        case.enc.chunks = vec![65536, 1000];
        if variant >= 2 {
            case.enc.order = vec![7, 3, 11];
            case.enc.explicit_mask = 0x5555_5555;
            case.enc.choices = vec![item as u8, 3, 1, 2, 0, 1];
            case.enc.bbox_choose = true;
        }
        let p = plan(&case, &b);
        let enc = encode(&case, &b, &p, None);
        if variant == 1 {
            rec.artefact("woff2", &enc.bytes);
        }
        let (f, got) = decode_member(&enc.bytes, 0, case.enc.via_fontdata).map_err(|f| fail("fixture-reencode", format!("{} variant {}: {} ({})", path, variant, f.msg, f.sig)))?;
        check_member(0, &b, &p, false, f, &got).map_err(|f| Fail::new(f.sig, format!("{} variant {}: {}", path, variant, f.msg)))?;
        rec.evaluations(n as u64);
        rec.class_if(p.hmtx_flags.iter().any(|f| *f != 0), "fixture:ttf-hmtx-transformed");
    }
    rec.class("fixture:ttf-reencoded");
    rec.nontrivial();
    Ok(())
}

impl Property for C11 {
    fn id(&self) -> &'static str {
        "C11"
    }
    fn rule(&self) -> String {
        "Cases: generated TrueType (and a few CFF-flavoured) font models -> own glyf/loca/hmtx encoders -> own WOFF2 encoder \
         (W3C Rec; brotli stored meta-blocks) with free choices (glyf/loca transform 0 or null, hmtx transform flags 1/2/3 when legal, \
         directory order, known-tag index or explicit tag, every legal 255UInt16 form, any representable triplet row per point, explicit or elided \
         simple bbox, 1-3 collection members sharing tables, brotli window/meta-block split, metadata/private blocks) -> Woff2Font/FontData -> \
         table_provider(i) compared with the encoder input. Non-trivial = the glyf transform is applied and at least one simple glyph has >= 3 points; \
         distinct = distinct WOFF2 file bytes. Side sections: every u16 under every 255UInt16 form (exhaustive), UIntBase128 boundaries + rejections, \
         all 128 triplet rows x payload samples x on/off-curve through crafted one-glyph files (exhaustive over rows), WOFF2 fixtures and re-encoded \
         TrueType fixtures. Soft probe (1/16 of cases): hmtx transformed while glyf is null-transformed — the decoder may reject but must not panic, \
         and if it accepts the tables must be right (glyf compared semantically). Known finding C11:hmtx-lsb-array-not-skipping-long-metrics is matched by a defect model \
         (hmtx flag bit 1 set and delivered hmtx == correct long metrics ++ xMin of all glyphs from glyph 0); it is reported only after every other check of the case has passed."
            .into()
    }
    fn assumptions(&self) -> Vec<String> {
        vec![
            "my WOFF2 encoder follows the W3C Recommendation (it was written from the specification text, not from allsorts); its triplet table is cross-checked only against allsorts' behaviour and the real fixtures".into(),
            "coordinate deltas stay within what a glyf table can hold (|delta| <= 32767, or -32768); contours have >= 1 point; WE_HAVE_INSTRUCTIONS on any subset of the components (instructions present iff any has it); reserved composite flag bits (4, 13-15, 'set to 0') are not generated; no OVERLAP_SIMPLE (overlapSimpleBitmap is not generated)".into(),
            "loca directly follows its glyf in the table directory; hmtx transform bits are only set when the elided side bearings equal the stored xMin (0 for empty glyphs)".into(),
            "the brotli decompressor (third-party crate) is trusted; only stored meta-blocks are produced".into(),
            "head is compared except checkSumAdjustment and indexToLocFormat (the latter must be 0/1 and agree with the delivered loca)".into(),
        ]
    }
    fn run(&self, ctx: &mut Ctx) {
        let n = ctx.cases(40_000, 1_000_000);
        ctx.section("fonts", n, case_strategy(), |c, rec| check_case(c, rec));
        ctx.enumerate("u255-exhaustive", 256, true, check_u255_chunk);
        let n = if ctx.thorough() { 4096 } else { 512 };
        ctx.enumerate("uintbase128", n, false, check_base128_item);
        ctx.enumerate("triplet-rows", 256, true, check_triplet_row);
        ctx.enumerate("glyph-count-boundaries", 10, true, check_glyph_count);
        let nk = ctx.cases(48, 2_000);
        ctx.section("known-tags", nk, known_tags_strategy(), |c, rec| check_case(c, rec));
        let n = fixture_items().len() as u64;
        ctx.enumerate("fixtures", n, true, check_fixture);
    }
}
