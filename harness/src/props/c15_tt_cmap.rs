// (included into c15_tt.rs) cmap subtables and whole cmap tables

#[derive(Clone, Debug, PartialEq)]
pub enum CmapSubM {
    F0 { lang: u16, gids: Vec<u8> },
    /// segments (start, end, idDelta, idRangeOffset) + glyphIdArray
    F4 { lang: u16, segs: Vec<(u16, u16, i16, u16)>, gia: Vec<u16> },
    F6 { lang: u16, first: u16, gids: Vec<u16> },
    F10 { lang: u32, start: u32, gids: Vec<u16> },
    F12 { lang: u32, groups: Vec<(u32, u32, u32)> },
}

fn f4_search(n: usize) -> (u16, u16, u16) {
    // searchRange = 2 × 2^floor(log2(segCount)), entrySelector = log2(searchRange/2), rangeShift = 2×segCount − searchRange
    let mut p = 1usize;
    let mut e = 0u16;
    while p * 2 <= n {
        p *= 2;
        e += 1;
    }
    ((2 * p) as u16, e, (2 * n).wrapping_sub(2 * p) as u16)
}

fn enc_cmap_sub(m: &CmapSubM) -> Vec<u8> {
    enc_cmap_sub_with(m, None)
}

/// `junk`: values for the header fields the reader does not use (format 4 searchRange,
/// entrySelector, rangeShift, reservedPad; the length of formats 0 (≥ 262), 6, 10 and 12) — a
/// sub-table written by a sloppy tool; the mapping it describes is the same
fn enc_cmap_sub_with(m: &CmapSubM, junk: Option<[u16; 4]>) -> Vec<u8> {
    let mut b = Buf::new();
    match m {
        CmapSubM::F0 { lang, gids } => {
            b.u16(0).u16(junk.map_or(262, |j| 262u16.saturating_add(j[0] & 0xFF))).u16(*lang).bytes(gids);
        }
        CmapSubM::F4 { lang, segs, gia } => {
            let n = segs.len();
            let (sr, es, rs) = match junk {
                Some(j) => (j[0], j[1], j[2]),
                None if n == 0 => (0, 0, 0),
                None => f4_search(n),
            };
            b.u16(4).u16((16 + 8 * n + 2 * gia.len()) as u16).u16(*lang).u16((2 * n) as u16).u16(sr).u16(es).u16(rs);
            for s in segs {
                b.u16(s.1);
            }
            b.u16(junk.map_or(0, |j| j[3]));
            for s in segs {
                b.u16(s.0);
            }
            for s in segs {
                b.i16(s.2);
            }
            for s in segs {
                b.u16(s.3);
            }
            for g in gia {
                b.u16(*g);
            }
        }
        CmapSubM::F6 { lang, first, gids } => {
            b.u16(6).u16(junk.map_or((10 + 2 * gids.len()) as u16, |j| j[0])).u16(*lang).u16(*first).u16(gids.len() as u16);
            for g in gids {
                b.u16(*g);
            }
        }
        CmapSubM::F10 { lang, start, gids } => {
            b.u16(10).u16(0).u32(junk.map_or((20 + 2 * gids.len()) as u32, |j| (j[0] as u32) << 16 | j[1] as u32)).u32(*lang).u32(*start).u32(gids.len() as u32);
            for g in gids {
                b.u16(*g);
            }
        }
        CmapSubM::F12 { lang, groups } => {
            b.u16(12).u16(0).u32(junk.map_or((16 + 12 * groups.len()) as u32, |j| (j[0] as u32) << 16 | j[1] as u32)).u32(*lang).u32(groups.len() as u32);
            for g in groups {
                b.u32(g.0).u32(g.1).u32(g.2);
            }
        }
    }
    b.into_vec()
}

/// my structural reader of a cmap subtable; also validates the derived header fields
pub(crate) fn dec_cmap_sub(d: &[u8]) -> Result<(CmapSubM, usize), String> {
    let r16 = |o: usize| -> Result<u16, String> { d.get(o..o + 2).map(|b| u16::from_be_bytes([b[0], b[1]])).ok_or_else(|| format!("short read at {}", o)) };
    let r32 = |o: usize| -> Result<u32, String> { d.get(o..o + 4).map(|b| u32::from_be_bytes([b[0], b[1], b[2], b[3]])).ok_or_else(|| format!("short read at {}", o)) };
    match r16(0)? {
        0 => {
            if r16(2)? != 262 {
                return Err(format!("format 0 length {}", r16(2)?));
            }
            Ok((CmapSubM::F0 { lang: r16(4)?, gids: d.get(6..262).ok_or("format 0 array short")?.to_vec() }, 262))
        }
        4 => {
            let len = r16(2)? as usize;
            let n2 = r16(6)? as usize;
            if n2 % 2 != 0 {
                return Err("odd segCountX2".into());
            }
            let n = n2 / 2;
            if n > 0 {
                let (sr, es, rs) = f4_search(n);
                if (r16(8)?, r16(10)?, r16(12)?) != (sr, es, rs) {
                    return Err(format!("searchRange/entrySelector/rangeShift {:?} for {} segments, expected {:?}", (r16(8)?, r16(10)?, r16(12)?), n, (sr, es, rs)));
                }
            }
            if len < 16 + 8 * n || (len - 16 - 8 * n) % 2 != 0 {
                return Err(format!("length {} for {} segments", len, n));
            }
            let g = (len - 16 - 8 * n) / 2;
            let mut segs = Vec::new();
            for i in 0..n {
                segs.push((r16(16 + 2 * n + 2 * i)?, r16(14 + 2 * i)?, r16(16 + 4 * n + 2 * i)? as i16, r16(16 + 6 * n + 2 * i)?));
            }
            let mut gia = Vec::new();
            for i in 0..g {
                gia.push(r16(16 + 8 * n + 2 * i)?);
            }
            Ok((CmapSubM::F4 { lang: r16(4)?, segs, gia }, len))
        }
        6 => {
            let n = r16(8)? as usize;
            if r16(2)? as usize != 10 + 2 * n {
                return Err(format!("format 6 length {} for {} entries", r16(2)?, n));
            }
            let mut gids = Vec::new();
            for i in 0..n {
                gids.push(r16(10 + 2 * i)?);
            }
            Ok((CmapSubM::F6 { lang: r16(4)?, first: r16(6)?, gids }, 10 + 2 * n))
        }
        10 => {
            let n = r32(16)? as usize;
            if r16(2)? != 0 || r32(4)? as usize != 20 + 2 * n {
                return Err(format!("format 10 reserved {} length {} for {} entries", r16(2)?, r32(4)?, n));
            }
            let mut gids = Vec::new();
            for i in 0..n {
                gids.push(r16(20 + 2 * i)?);
            }
            Ok((CmapSubM::F10 { lang: r32(8)?, start: r32(12)?, gids }, 20 + 2 * n))
        }
        12 => {
            let n = r32(12)? as usize;
            if r16(2)? != 0 || r32(4)? as usize != 16 + 12 * n {
                return Err(format!("format 12 reserved {} length {} for {} groups", r16(2)?, r32(4)?, n));
            }
            let mut groups = Vec::new();
            for i in 0..n {
                groups.push((r32(16 + 12 * i)?, r32(20 + 12 * i)?, r32(24 + 12 * i)?));
            }
            Ok((CmapSubM::F12 { lang: r32(8)?, groups }, 16 + 12 * n))
        }
        f => Err(format!("format {}", f)),
    }
}

fn groups_vec(groups: &[(u32, u32, u32)]) -> Vec<SequentialMapGroup> {
    let mut b = Buf::new();
    for g in groups {
        b.u32(g.0).u32(g.1).u32(g.2);
    }
    match ReadScope::new(&b.0).ctxt().read_array::<SequentialMapGroup>(groups.len()) {
        Ok(a) => a.to_vec(),
        Err(_) => Vec::new(),
    }
}

fn owned_sub(m: &CmapSubM) -> ocmap::CmapSubtable {
    match m {
        CmapSubM::F0 { lang, gids } => {
            let mut a = [0u8; 256];
            a.copy_from_slice(&gids[..256]);
            ocmap::CmapSubtable::Format0 { language: *lang, glyph_id_array: Box::new(a) }
        }
        CmapSubM::F4 { lang, segs, gia } => ocmap::CmapSubtable::Format4(ocmap::CmapSubtableFormat4 {
            language: *lang,
            end_codes: segs.iter().map(|s| s.1).collect(),
            start_codes: segs.iter().map(|s| s.0).collect(),
            id_deltas: segs.iter().map(|s| s.2).collect(),
            id_range_offsets: segs.iter().map(|s| s.3).collect(),
            glyph_id_array: gia.clone(),
        }),
        CmapSubM::F6 { lang, first, gids } => ocmap::CmapSubtable::Format6 { language: *lang, first_code: *first, glyph_id_array: gids.clone() },
        CmapSubM::F10 { lang, start, gids } => ocmap::CmapSubtable::Format10 { language: *lang, start_char_code: *start, glyph_id_array: gids.clone() },
        CmapSubM::F12 { lang, groups } => ocmap::CmapSubtable::Format12(ocmap::CmapSubtableFormat12 { language: *lang, groups: groups_vec(groups) }),
    }
}

/// does the subtable fit its fields?
fn sub_fits(m: &CmapSubM) -> bool {
    match m {
        CmapSubM::F0 { .. } => true,
        CmapSubM::F4 { segs, gia, .. } => segs.len() <= 0x7FFF && 16 + 8 * segs.len() + 2 * gia.len() <= 0xFFFF,
        CmapSubM::F6 { gids, .. } => gids.len() <= 0xFFFF && 10 + 2 * gids.len() <= 0xFFFF,
        CmapSubM::F10 { .. } | CmapSubM::F12 { .. } => true,
    }
}

fn probes(m: &CmapSubM) -> Vec<u32> {
    let mut p = vec![0u32, 1, 0x41, 0xFF, 0x100, 0xFFFF, 0x10000, 0x10FFFF];
    match m {
        CmapSubM::F4 { segs, .. } => {
            for s in segs.iter().take(6) {
                p.extend_from_slice(&[s.0 as u32, s.1 as u32, (s.0 as u32 + s.1 as u32) / 2, s.1 as u32 + 1]);
            }
        }
        CmapSubM::F6 { first, gids, .. } => p.extend_from_slice(&[*first as u32, *first as u32 + gids.len() as u32, (*first as u32 + gids.len() as u32).saturating_sub(1)]),
        CmapSubM::F10 { start, gids, .. } => p.extend_from_slice(&[*start, start.wrapping_add(gids.len() as u32), start.wrapping_add(gids.len() as u32).wrapping_sub(1)]),
        CmapSubM::F12 { groups, .. } => {
            for g in groups.iter().take(6) {
                p.extend_from_slice(&[g.0, g.1, g.1.wrapping_add(1)]);
            }
        }
        _ => {}
    }
    p
}

fn check_cmap_sub(m: &CmapSubM, rec: &mut Rec) -> CaseResult {
    let fits = sub_fits(m);
    let ov = owned_sub(m);
    // (a) owned value → writer → my decoder
    let Some(written) = judge("cmap-owned", wb::<ocmap::CmapSubtable, _>(ov.clone()), !fits, || format!("{:?}", m))? else {
        rec.class("cmap-owned:refused(overflow)");
        rec.nontrivial();
        return Ok(());
    };
    let (dec, used) = dec_cmap_sub(&written).map_err(|e| fail("cmap-owned:written-undecodable", format!("{} — model {:?}; written {}", e, m, hexs(&written))))?;
    if &dec != m || used != written.len() {
        return Err(fail("cmap-owned:written-differs", format!("decoded {:?} ({} of {} bytes), model {:?}", dec, used, written.len(), m)));
    }
    // (b) my bytes → borrowed reader → to_owned == owned value; → writer → …
    let raw = enc_cmap_sub(m);
    if written != raw {
        return Err(fail("cmap-owned:written-bytes", diff(&written, &raw)));
    }
    let pr = probes(m);
    let same = |a: &CmapSubtable<'_>, b: &CmapSubtable<'_>| -> Result<(), String> {
        let (oa, ob) = (a.to_owned(), b.to_owned());
        if oa.as_ref() != Some(&ov) || ob.as_ref() != Some(&ov) {
            return Err(format!("to_owned {:?} / {:?} vs {:?}", oa, ob, ov));
        }
        for ch in &pr {
            let (x, y, z) = (a.map_glyph(*ch), b.map_glyph(*ch), ov.map_glyph(*ch));
            if x != y || x != z {
                return Err(format!("map_glyph({:#x}): {:?} / {:?} / owned {:?}", ch, x, y, z));
            }
        }
        Ok(())
    };
    let g2 = stable!("cmap", &raw, |d| ReadScope::new(d).read::<CmapSubtable<'_>>(), |t| wb::<CmapSubtable<'_>, _>(t), |a, b| same(a, b));
    if g2 != raw {
        return Err(fail("cmap:gen2-bytes", diff(&g2, &raw)));
    }
    // the same sub-table with junk in the header fields the reader ignores: same value, canonical output
    let h = crate::engine::util::fnv1a(&raw);
    if h % 2 == 0 {
        let junk = [(h >> 8) as u16, (h >> 24) as u16, (h >> 40) as u16, (h >> 48) as u16 | 1];
        let sloppy = enc_cmap_sub_with(m, Some(junk));
        let g2 = stable!("cmap-sloppy-header", &sloppy, |d| ReadScope::new(d).read::<CmapSubtable<'_>>(), |t| wb::<CmapSubtable<'_>, _>(t), |a, b| same(a, b));
        if g2 != raw {
            return Err(fail("cmap-sloppy-header:gen2-bytes", diff(&g2, &raw)));
        }
        rec.class("cmap:ignored-header-fields-non-canonical");
        rec.evaluations(1);
    }
    rec.evaluations(pr.len() as u64);
    match m {
        CmapSubM::F0 { .. } => rec.class("cmap:format0"),
        CmapSubM::F4 { segs, gia, .. } => {
            rec.class("cmap:format4");
            rec.class_if(!gia.is_empty(), "cmap:format4-glyphIdArray");
            rec.class_if(segs.len().is_power_of_two(), "cmap:format4-segCount-power-of-two");
            rec.class_if(segs.is_empty(), "cmap:format4-no-segments");
        }
        CmapSubM::F6 { .. } => rec.class("cmap:format6"),
        CmapSubM::F10 { .. } => rec.class("cmap:format10"),
        CmapSubM::F12 { .. } => rec.class("cmap:format12"),
    }
    rec.set_nontrivial(true);
    rec.hash_bytes(&raw);
    Ok(())
}

fn cmap_sub_strategy() -> impl Strategy<Value = CmapSubM> {
    let f0 = (bu16(), proptest::collection::vec(any::<u8>(), 256)).prop_map(|(lang, gids)| CmapSubM::F0 { lang, gids });
    // format 4: sorted disjoint segments ending with 0xFFFF; array-mapped segments point into gia
    let f4 = (bu16(), proptest::collection::vec((1u16..300, 0u16..12, bi16(), any::<bool>(), proptest::collection::vec(bu16(), 12)), 0..7), bi16(), proptest::collection::vec(bu16(), 0..3)).prop_map(
        |(lang, raw, last_delta, junk)| {
            let n = raw.len() + 1;
            let mut segs = Vec::new();
            let mut gia: Vec<u16> = Vec::new();
            let mut code = 0u32;
            for (i, (gap, len, delta, array, gids)) in raw.iter().enumerate() {
                let start = code + *gap as u32;
                let end = start + *len as u32;
                if end >= 0xFFF0 {
                    break;
                }
                code = end + 1;
                if *array {
                    let ro = 2 * (n - i) + 2 * gia.len();
                    gia.extend(gids.iter().take(*len as usize + 1));
                    segs.push((start as u16, end as u16, *delta, ro as u16));
                } else {
                    segs.push((start as u16, end as u16, *delta, 0));
                }
            }
            // idRangeOffsets were computed for n segments: if some were dropped, recompute
            let n2 = segs.len() + 1;
            if n2 != n {
                for (i, s) in segs.iter_mut().enumerate() {
                    if s.3 != 0 {
                        s.3 = (s.3 as usize + 2 * (n2 - i) - 2 * (n - i)) as u16;
                    }
                }
            }
            segs.push((0xFFFF, 0xFFFF, last_delta, 0));
            gia.extend(junk);
            CmapSubM::F4 { lang, segs, gia }
        },
    );
    let f6 = (bu16(), bu16(), proptest::collection::vec(bu16(), 0..20)).prop_map(|(lang, first, gids)| CmapSubM::F6 { lang, first, gids });
    let f10 = (bu32(), prop_oneof![bu32(), 0u32..0x11_0000], proptest::collection::vec(bu16(), 0..20)).prop_map(|(lang, start, gids)| CmapSubM::F10 { lang, start, gids });
    let f12 = (bu32(), proptest::collection::vec((0u32..5000, 0u32..40, prop_oneof![0u32..0xFFFF, bu32().prop_map(|g| g.min(0xFFFF_FF00))]), 0..8)).prop_map(|(lang, raw)| {
        let mut groups = Vec::new();
        let mut code = 0u32;
        for (gap, len, gid) in raw {
            let start = code + gap;
            groups.push((start, start + len, gid));
            code = start + len + 1;
        }
        CmapSubM::F12 { lang, groups }
    });
    prop_oneof![1 => f0, 4 => f4, 2 => f6, 2 => f10, 3 => f12]
}

// ------------------------------------------------------------------ whole cmap (owned)

fn check_cmap_table(recs: &Vec<(u16, u16, CmapSubM)>, rec: &mut Rec) -> CaseResult {
    let v = ocmap::Cmap {
        encoding_records: recs.iter().map(|(p, e, s)| ocmap::EncodingRecord { platform_id: PlatformId(*p), encoding_id: EncodingId(*e), sub_table: owned_sub(s) }).collect(),
    };
    let written = wb::<ocmap::Cmap, _>(v.clone()).map_err(|e| fail("cmap-table:write", format!("{:?}", e)))?;
    // my reader of the header
    let r16 = |o: usize| written.get(o..o + 2).map(|b| u16::from_be_bytes([b[0], b[1]]));
    let r32 = |o: usize| written.get(o..o + 4).map(|b| u32::from_be_bytes([b[0], b[1], b[2], b[3]]));
    if r16(0) != Some(0) || r16(2) != Some(recs.len() as u16) {
        return Err(fail("cmap-table:header", format!("version/numTables {:?}/{:?} for {} records", r16(0), r16(2), recs.len())));
    }
    for (i, (p, e, s)) in recs.iter().enumerate() {
        let o = 4 + 8 * i;
        let off = r32(o + 4).ok_or_else(|| fail("cmap-table:header", "short".into()))? as usize;
        if r16(o) != Some(*p) || r16(o + 2) != Some(*e) || off < 4 + 8 * recs.len() {
            return Err(fail("cmap-table:record", format!("record {}: {:?}/{:?} offset {}", i, r16(o), r16(o + 2), off)));
        }
        let (dec, _) = dec_cmap_sub(written.get(off..).unwrap_or(&[])).map_err(|er| fail("cmap-table:subtable-undecodable", format!("record {} at {}: {}", i, off, er)))?;
        if &dec != s {
            return Err(fail("cmap-table:subtable-differs", format!("record {}: decoded {:?}, model {:?}", i, dec, s)));
        }
    }
    // allsorts reads it back
    let to_owned_table = |d: &[u8]| -> Result<ocmap::Cmap, ParseError> {
        let c = ReadScope::new(d).read::<Cmap<'_>>()?;
        let mut out = Vec::new();
        for r in c.encoding_records() {
            let st = c.scope.offset(r.offset as usize).read::<CmapSubtable<'_>>()?;
            out.push(ocmap::EncodingRecord { platform_id: r.platform_id, encoding_id: r.encoding_id, sub_table: st.to_owned().ok_or(ParseError::NotImplemented)? });
        }
        Ok(ocmap::Cmap { encoding_records: out })
    };
    // my own encoding of the same table: identical sub-tables stored once and shared by several
    // encoding records, sub-tables stored in reverse order of the records
    {
        let h = crate::engine::util::fnv1a(&written);
        let (share, reverse) = (h % 2 == 0, h / 2 % 2 == 0);
        let subs: Vec<Vec<u8>> = recs.iter().map(|r| enc_cmap_sub(&r.2)).collect();
        let mut body = Buf::new();
        let mut at = vec![0usize; recs.len()];
        let order: Vec<usize> = if reverse { (0..recs.len()).rev().collect() } else { (0..recs.len()).collect() };
        let base = 4 + 8 * recs.len();
        let mut shared = false;
        for (n, &i) in order.iter().enumerate() {
            if share {
                if let Some(&j) = order[..n].iter().find(|j| subs[**j] == subs[i]) {
                    at[i] = at[j];
                    shared = true;
                    continue;
                }
            }
            at[i] = base + body.len();
            body.bytes(&subs[i]);
        }
        let mut mine = Buf::new();
        mine.u16(0).u16(recs.len() as u16);
        for (i, r) in recs.iter().enumerate() {
            mine.u16(r.0).u16(r.1).u32(at[i] as u32);
        }
        mine.bytes(&body.0);
        let g2 = stable!("cmap-table-bytes", &mine.0, |d| to_owned_table(d), |t| wb::<ocmap::Cmap, _>(t.clone()), |a, b| if *a == v && *b == v { Ok(()) } else { Err(format!("{:?} vs {:?}", a, v)) });
        if g2 != written {
            return Err(fail("cmap-table-bytes:gen2-bytes", diff(&g2, &written)));
        }
        rec.class_if(shared, "cmap-table:sub-table-shared-by-records");
        rec.class_if(reverse && recs.len() >= 2, "cmap-table:sub-tables-in-reverse-order");
    }
    let g2 = stable!("cmap-table", &written, |d| to_owned_table(d), |t| wb::<ocmap::Cmap, _>(t.clone()), |a, b| if *a == v && *b == v { Ok(()) } else { Err(format!("{:?} vs {:?}", a, v)) });
    if g2 != written {
        return Err(fail("cmap-table:gen2-bytes", diff(&g2, &written)));
    }
    rec.set_nontrivial(recs.len() >= 2);
    rec.class("cmap-table");
    rec.hash_bytes(&written);
    Ok(())
}
