//! C04 — glyph substitution follows OpenType GSUB lookup semantics.
//!
//! program model (raw, shrinkable) → `resolve` (normalises into a valid `GsubModel` +
//! `GdefModel`) → my GSUB/GDEF encoders (`fontgen::otl`) → allsorts (`gsub::apply` on the
//! parsed tables, `Font::shape` with `Features::Custom`, `Font::shape` with `Features::Mask`)
//! → compared with the spec-written interpreter `refmodel::otl_gsub` run on the *model*.

use crate::engine::util::mix64;
use crate::engine::{CaseResult, Ctx, Fail, Property, Rec};
use crate::fontgen::basic::BasicFont;
use crate::fontgen::otl::{
    gdef_table, gsub_table, ChainRule, ClassDefM, ConditionM, Cov, FeatureM, FeatureVariationRecordM, FeatureVariationsM, GdefModel, GsubModel,
    LangSysM, Lig, Lookup, LookupFlags, ScriptM, SeqLookup, SeqRule, Subtable,
};
use crate::fontgen::var::{fvar_table, AxisModel};
use crate::refmodel::otl_gsub::{self as refgsub, Deviation, Outcome, RGlyph, Request};
use allsorts::binary::read::ReadScope;
use allsorts::font::{Font, MatchingPresentation};
use allsorts::font_data::FontData;
use allsorts::gsub::{self, FeatureInfo, FeatureMask, Features, GlyphOrigin, RawGlyph, RawGlyphFlags};
use allsorts::layout::{new_layout_cache, GDEFTable, LayoutTable, GSUB};
use allsorts::tables::variable_fonts::fvar::FvarTable;
use allsorts::tables::Fixed;
use allsorts::tinyvec::tiny_vec;
use proptest::prelude::*;
use std::collections::{BTreeMap, BTreeSet};

pub struct C04;

/// neutral feature tags (never fina/init/medi/isol/rvrn/vert/vrt2/frac, whose handling is allsorts policy)
const TAGS: [[u8; 4]; 12] = [
    *b"liga", *b"ccmp", *b"calt", *b"ss01", *b"test", *b"clig", *b"locl", *b"rlig", *b"dlig", *b"smcp", *b"ss02", *b"salt",
];
const ABSENT_TAG: [u8; 4] = *b"aalt";
const LANG_TRK: [u8; 4] = *b"TRK ";
const LANG_ENG: [u8; 4] = *b"ENG ";
const PUA: u32 = 0xE000;
const MAX_STRING: usize = 16;

// ------------------------------------------------------------------------------ raw case

#[derive(Clone, Debug)]
pub struct RawCov {
    pub runs: Vec<(u8, u8)>,
    pub f2: bool,
}

#[derive(Clone, Debug)]
pub struct RawClassDef {
    pub runs: Vec<(u8, u8, u8)>,
    pub f2: bool,
}

#[derive(Clone, Debug)]
pub struct RawFlags {
    pub ignore_base: bool,
    pub ignore_lig: bool,
    /// 0 none, 1 ignoreMarks, 2 attachment type, 3 filtering set, 4 ignoreMarks+type, 5 ignoreMarks+set,
    /// 6 attachment type + filtering set (the set supersedes the type)
    pub mark: u8,
    pub attach: u8,
    pub set: u8,
    pub rtl: bool,
}

#[derive(Clone, Debug)]
pub struct RawRule {
    pub set: u8,
    pub back: Vec<u8>,
    pub input: Vec<u8>,
    pub look: Vec<u8>,
    pub records: Vec<(u8, u8)>,
    pub out: u8,
    pub keep_order: bool,
    pub align: bool,
}

#[derive(Clone, Debug)]
pub struct RawSub {
    pub fmt: u8,
    pub cov: RawCov,
    pub outs: Vec<u8>,
    pub seqs: Vec<Vec<u8>>,
    pub rules: Vec<RawRule>,
    pub classdefs: Vec<RawClassDef>,
    pub share: bool,
    pub back: Vec<RawCov>,
    pub inp: Vec<RawCov>,
    pub look: Vec<RawCov>,
    pub records: Vec<(u8, u8)>,
    pub keep_order: bool,
    pub null_empty_sets: bool,
}

#[derive(Clone, Debug)]
pub struct RawLookup {
    pub ty: u8,
    pub flags: RawFlags,
    pub subs: Vec<RawSub>,
    pub ext: Option<u8>,
    pub level: u8,
}

#[derive(Clone, Debug)]
pub struct RawGdef {
    pub present: bool,
    pub has_classes: bool,
    pub classes: Vec<u8>,
    pub cls_f2: bool,
    pub attach: Option<(Vec<u8>, bool)>,
    pub sets: Option<Vec<(u64, bool)>>,
    pub v13: bool,
}

#[derive(Clone, Debug)]
pub struct RawFeature {
    pub tag: u8,
    pub lookups: Vec<u8>,
}

#[derive(Clone, Debug)]
pub struct RawScript {
    pub present: bool,
    pub has_default: bool,
    pub default_mask: u8,
    pub trk: Option<u8>,
    pub reverse: bool,
}

#[derive(Clone, Debug)]
pub struct RawFvRec {
    pub conds: Vec<(u8, i16, i16, bool)>,
    pub null_cs: bool,
    pub subst: Option<Vec<(u8, Vec<u8>)>>,
}

#[derive(Clone, Debug)]
pub struct RawFv {
    pub axes: u8,
    pub records: Vec<RawFvRec>,
}

#[derive(Clone, Debug)]
pub struct RawRequest {
    pub feat_mask: u8,
    pub absent: bool,
    pub alternate: Option<u8>,
    pub lang: u8,
    pub tuple: Option<Vec<(u8, i16)>>,
}

#[derive(Clone, Debug)]
pub enum RawAtom {
    G(u8),
    W { lookup: u8, sub: u8, rule: u8, noise: u32 },
}

#[derive(Clone, Debug)]
pub struct Case {
    pub nglyphs: u8,
    pub gdef: RawGdef,
    pub lookups: Vec<RawLookup>,
    pub features: Vec<RawFeature>,
    pub scripts: Vec<RawScript>,
    pub fv: Option<RawFv>,
    pub force_v11: bool,
    /// bias towards nested contexts: the first three lookups are contextual, the others are not
    pub nest_bias: bool,
    pub requests: Vec<RawRequest>,
    pub strings: Vec<Vec<RawAtom>>,
}

// ------------------------------------------------------------------------------ strategies

fn glyph() -> impl Strategy<Value = u8> {
    prop_oneof![4 => 0u8..8, 1 => any::<u8>()]
}

fn raw_cov() -> impl Strategy<Value = RawCov> {
    (proptest::collection::vec((glyph(), prop_oneof![3 => Just(1u8), 1 => 2u8..5]), 1..5), any::<bool>()).prop_map(|(runs, f2)| RawCov { runs, f2 })
}

fn raw_classdef() -> impl Strategy<Value = RawClassDef> {
    (proptest::collection::vec((glyph(), 1u8..5, 1u8..4), 0..6), any::<bool>()).prop_map(|(runs, f2)| RawClassDef { runs, f2 })
}

fn raw_flags() -> impl Strategy<Value = RawFlags> {
    prop_oneof![
        1 => Just(RawFlags { ignore_base: false, ignore_lig: false, mark: 0, attach: 0, set: 0, rtl: false }),
        3 => (
            proptest::bool::weighted(0.3),
            proptest::bool::weighted(0.3),
            prop_oneof![2 => Just(0u8), 3 => Just(1u8), 3 => Just(2u8), 3 => Just(3u8), 1 => Just(4u8), 1 => Just(5u8), 2 => Just(6u8)],
            1u8..4,
            0u8..3,
            proptest::bool::weighted(0.1),
        )
            .prop_map(|(ignore_base, ignore_lig, mark, attach, set, rtl)| RawFlags { ignore_base, ignore_lig, mark, attach, set, rtl }),
    ]
}

fn raw_records() -> impl Strategy<Value = Vec<(u8, u8)>> {
    prop_oneof![1 => Just(Vec::new()), 5 => proptest::collection::vec((0u8..4, any::<u8>()), 1..4)]
}

fn raw_rule() -> impl Strategy<Value = RawRule> {
    (
        any::<u8>(),
        proptest::collection::vec(glyph(), 0..3),
        proptest::collection::vec(glyph(), 0..4),
        proptest::collection::vec(glyph(), 0..3),
        raw_records(),
        glyph(),
        proptest::bool::weighted(0.15),
        proptest::bool::weighted(0.6),
    )
        .prop_map(|(set, back, input, look, records, out, keep_order, align)| RawRule { set, back, input, look, records, out, keep_order, align })
}

fn raw_sub() -> impl Strategy<Value = RawSub> {
    (
        (any::<u8>(), raw_cov(), proptest::collection::vec(glyph(), 1..5), proptest::collection::vec(proptest::collection::vec(glyph(), 1..4), 1..4)),
        proptest::collection::vec(raw_rule(), 1..5),
        (proptest::collection::vec(raw_classdef(), 3), proptest::bool::weighted(0.4)),
        (proptest::collection::vec(raw_cov(), 0..3), proptest::collection::vec(raw_cov(), 0..3), proptest::collection::vec(raw_cov(), 0..3)),
        (raw_records(), proptest::bool::weighted(0.15), any::<bool>()),
    )
        .prop_map(|((fmt, cov, outs, seqs), rules, (classdefs, share), (back, inp, look), (records, keep_order, null_empty_sets))| RawSub {
            fmt,
            cov,
            outs,
            seqs,
            rules,
            classdefs,
            share,
            back,
            inp,
            look,
            records,
            keep_order,
            null_empty_sets,
        })
}

fn raw_lookup() -> impl Strategy<Value = RawLookup> {
    (
        0u8..14,
        raw_flags(),
        proptest::collection::vec(raw_sub(), 1..4),
        proptest::option::weighted(0.3, prop_oneof![3 => Just(0u8), 1 => 1u8..40]),
        0u8..3,
    )
        .prop_map(|(ty, flags, subs, ext, level)| RawLookup { ty, flags, subs, ext, level })
}

fn raw_gdef() -> impl Strategy<Value = RawGdef> {
    (
        proptest::bool::weighted(0.9),
        proptest::bool::weighted(0.95),
        proptest::collection::vec(prop_oneof![2 => Just(0u8), 3 => Just(1u8), 2 => Just(2u8), 4 => Just(3u8), 1 => Just(4u8)], 64),
        any::<bool>(),
        proptest::option::weighted(0.8, (proptest::collection::vec(0u8..4, 64), any::<bool>())),
        proptest::option::weighted(0.8, proptest::collection::vec((any::<u64>(), any::<bool>()), 1..4)),
        proptest::bool::weighted(0.2),
    )
        .prop_map(|(present, has_classes, classes, cls_f2, attach, sets, v13)| RawGdef { present, has_classes, classes, cls_f2, attach, sets, v13 })
}

fn raw_script(p_present: f64) -> impl Strategy<Value = RawScript> {
    (
        proptest::bool::weighted(p_present),
        proptest::bool::weighted(0.9),
        prop_oneof![3 => Just(0xFFu8), 1 => any::<u8>()],
        proptest::option::weighted(0.4, any::<u8>()),
        any::<bool>(),
    )
        .prop_map(|(present, has_default, default_mask, trk, reverse)| RawScript { present, has_default, default_mask, trk, reverse })
}

fn coord() -> impl Strategy<Value = i16> {
    prop_oneof![
        3 => prop_oneof![Just(-16384i16), Just(-8192), Just(0), Just(8192), Just(16384), Just(1), Just(-1)],
        2 => -16384i16..=16384,
    ]
}

fn raw_fv() -> impl Strategy<Value = RawFv> {
    (
        1u8..3,
        proptest::collection::vec(
            (
                proptest::collection::vec((0u8..2, coord(), coord(), proptest::bool::weighted(0.1)), 0..3),
                any::<bool>(),
                proptest::option::weighted(0.9, proptest::collection::vec((any::<u8>(), proptest::collection::vec(any::<u8>(), 0..3)), 1..3)),
            )
                .prop_map(|(conds, null_cs, subst)| RawFvRec { conds, null_cs, subst }),
            1..4,
        ),
    )
        .prop_map(|(axes, records)| RawFv { axes, records })
}

fn raw_request() -> impl Strategy<Value = RawRequest> {
    (
        prop_oneof![2 => Just(0xFFu8), 1 => any::<u8>()],
        proptest::bool::weighted(0.15),
        proptest::option::weighted(0.3, 0u8..3),
        prop_oneof![3 => Just(0u8), 1 => Just(1u8), 1 => Just(2u8)],
        proptest::option::weighted(0.75, proptest::collection::vec((any::<u8>(), coord()), 2)),
    )
        .prop_map(|(feat_mask, absent, alternate, lang, tuple)| RawRequest { feat_mask, absent, alternate, lang, tuple })
}

fn raw_atom() -> impl Strategy<Value = RawAtom> {
    prop_oneof![
        2 => glyph().prop_map(RawAtom::G),
        3 => (any::<u8>(), any::<u8>(), any::<u8>(), any::<u32>()).prop_map(|(lookup, sub, rule, noise)| RawAtom::W { lookup, sub, rule, noise }),
    ]
}

pub fn case_strategy() -> impl Strategy<Value = Case> {
    (
        (24u8..=63, raw_gdef()),
        proptest::collection::vec(raw_lookup(), 1..7),
        proptest::collection::vec((0u8..12, proptest::collection::vec(any::<u8>(), 1..4)).prop_map(|(tag, lookups)| RawFeature { tag, lookups }), 1..5),
        (raw_script(0.5), raw_script(0.85), raw_script(0.2)).prop_map(|(a, b, c)| vec![a, b, c]),
        (proptest::option::weighted(0.35, raw_fv()), proptest::bool::weighted(0.2), proptest::bool::weighted(0.3)),
        proptest::collection::vec(raw_request(), 1..3),
        proptest::collection::vec(proptest::collection::vec(raw_atom(), 0..6), 4..9),
    )
        .prop_map(|((nglyphs, gdef), lookups, features, scripts, (fv, force_v11, nest_bias), requests, strings)| Case {
            nglyphs,
            gdef,
            lookups,
            features,
            scripts,
            fv,
            force_v11,
            nest_bias,
            requests,
            strings,
        })
}

// ------------------------------------------------------------------------------ libFuzzer decoder
//
// `case_from_bytes` maps fuzz bytes onto the domain of `case_strategy` (same ranges, same
// invariants; `domain_violation` re-states them and is asserted on every decoded case).
// Layout: a fixed-size header (glyph count, flags, GDEF, the three scripts, two request slots),
// then features, feature variations, lookups, strings. Reads past the end of the input yield
// zeros, and collections stop at their minimum length once the input is exhausted, so a short
// input is a small case. The decoder is total: every byte string decodes.
//
// A subtable's fields that `resolve` does not read for the lookup's type (e.g. `seqs` of a
// ligature lookup) are not decoded; they get the smallest value of their strategy.

use arbitrary::Unstructured;

const FZ_GLYPH_CLASS: [u8; 16] = [0, 0, 0, 1, 1, 1, 1, 2, 2, 2, 3, 3, 3, 3, 3, 4];
const FZ_MARK_MODE: [u8; 16] = [0, 0, 1, 1, 1, 2, 2, 2, 3, 3, 3, 4, 5, 6, 6, 3];
const FZ_COORDS: [i16; 7] = [0, 8192, -8192, 16384, -16384, 1, -1];

fn fz_u8(u: &mut Unstructured<'_>) -> arbitrary::Result<u8> {
    u.arbitrary::<u8>()
}

/// `glyph()`: any u8, three quarters of the first bytes give 0..8; the second value is bits 3-5
/// of the first byte (spare bits for the caller)
fn fz_glyph_x(u: &mut Unstructured<'_>) -> arbitrary::Result<(u8, u8)> {
    let b = fz_u8(u)?;
    let x = (b >> 3) & 7;
    if b < 0xC0 {
        Ok((b & 7, x))
    } else {
        Ok((fz_u8(u)?, x))
    }
}

fn fz_glyph(u: &mut Unstructured<'_>) -> arbitrary::Result<u8> {
    Ok(fz_glyph_x(u)?.0)
}

/// `n` glyphs, but no more than `min` once the input is exhausted
fn fz_glyphs(u: &mut Unstructured<'_>, min: usize, n: usize) -> arbitrary::Result<Vec<u8>> {
    let mut v = Vec::new();
    for k in 0..n {
        if k >= min && u.is_empty() {
            break;
        }
        v.push(fz_glyph(u)?);
    }
    Ok(v)
}

fn fz_cov(u: &mut Unstructured<'_>) -> arbitrary::Result<RawCov> {
    let h = fz_u8(u)?;
    let n = 1 + (h & 3) as usize;
    let mut runs = Vec::new();
    for k in 0..n {
        if k >= 1 && u.is_empty() {
            break;
        }
        let (g, x) = fz_glyph_x(u)?;
        runs.push((g, [1u8, 1, 1, 1, 1, 2, 3, 4][x as usize]));
    }
    Ok(RawCov { runs, f2: h & 4 != 0 })
}

fn fz_covs(u: &mut Unstructured<'_>, n: usize) -> arbitrary::Result<Vec<RawCov>> {
    let mut v = Vec::new();
    for _ in 0..n {
        if u.is_empty() {
            break;
        }
        v.push(fz_cov(u)?);
    }
    Ok(v)
}

fn fz_classdef(u: &mut Unstructured<'_>) -> arbitrary::Result<RawClassDef> {
    let h = fz_u8(u)?;
    let n = ((h & 7) % 6) as usize;
    let mut runs = Vec::new();
    for _ in 0..n {
        if u.is_empty() {
            break;
        }
        let g = fz_glyph(u)?;
        let x = fz_u8(u)?;
        runs.push((g, 1 + (x & 3), 1 + ((x >> 2) & 3) % 3));
    }
    Ok(RawClassDef { runs, f2: h & 8 != 0 })
}

fn fz_flags(u: &mut Unstructured<'_>) -> arbitrary::Result<RawFlags> {
    let a = fz_u8(u)?;
    let b = fz_u8(u)?;
    if a & 3 == 0 {
        return Ok(RawFlags { ignore_base: false, ignore_lig: false, mark: 0, attach: 0, set: 0, rtl: false });
    }
    Ok(RawFlags {
        ignore_base: (a >> 2) & 3 == 3,
        ignore_lig: (a >> 4) & 3 == 3,
        rtl: (a >> 6) & 3 == 3,
        mark: FZ_MARK_MODE[(b & 15) as usize],
        attach: 1 + ((b >> 4) & 3) % 3,
        set: ((b >> 6) & 3) % 3,
    })
}

/// `raw_records()` with `n` in 0..=3 records (0: the empty alternative)
fn fz_records(u: &mut Unstructured<'_>, n: usize) -> arbitrary::Result<Vec<(u8, u8)>> {
    let mut v = Vec::new();
    for _ in 0..n {
        if u.is_empty() {
            break;
        }
        let s = fz_u8(u)? & 3;
        v.push((s, fz_u8(u)?));
    }
    Ok(v)
}

#[derive(Clone, Copy, PartialEq)]
enum FzRule {
    /// ligature: set, input (the components), out
    Lig,
    /// context: + records, keep_order, align
    Seq,
    /// chaining context: + back, look
    Chain,
}

fn fz_rule(u: &mut Unstructured<'_>, kind: FzRule) -> arbitrary::Result<RawRule> {
    let set = fz_u8(u)?;
    let h = fz_u8(u)?;
    let mut r = RawRule { set, back: Vec::new(), input: Vec::new(), look: Vec::new(), records: Vec::new(), out: 0, keep_order: false, align: false };
    r.input = fz_glyphs(u, 0, (h & 3) as usize)?;
    if kind == FzRule::Chain {
        r.back = fz_glyphs(u, 0, (((h >> 2) & 3) % 3) as usize)?;
        r.look = fz_glyphs(u, 0, (((h >> 4) & 3) % 3) as usize)?;
    }
    if kind != FzRule::Lig {
        let q = fz_u8(u)?;
        r.records = fz_records(u, (q & 3) as usize)?;
        r.keep_order = (q >> 2) & 7 == 7;
        r.align = (q >> 5) < 5;
    }
    r.out = fz_glyph(u)?;
    Ok(r)
}

fn fz_rules(u: &mut Unstructured<'_>, kind: FzRule) -> arbitrary::Result<Vec<RawRule>> {
    let n = 1 + (fz_u8(u)? & 3) as usize;
    let mut v = Vec::new();
    for k in 0..n {
        if k >= 1 && u.is_empty() {
            break;
        }
        v.push(fz_rule(u, kind)?);
    }
    Ok(v)
}

fn fz_empty_classdef() -> RawClassDef {
    RawClassDef { runs: Vec::new(), f2: false }
}

fn fz_outs(u: &mut Unstructured<'_>) -> arbitrary::Result<Vec<u8>> {
    let n = 1 + (fz_u8(u)? & 3) as usize;
    fz_glyphs(u, 1, n)
}

/// One subtable of a lookup of (resolved) GSUB type `ty`.
fn fz_sub(u: &mut Unstructured<'_>, ty: u16) -> arbitrary::Result<RawSub> {
    let fmt = fz_u8(u)?;
    let cov = fz_cov(u)?;
    let mut s = RawSub {
        fmt,
        cov,
        outs: vec![0],
        seqs: vec![vec![0]],
        rules: Vec::new(),
        classdefs: vec![fz_empty_classdef(), fz_empty_classdef(), fz_empty_classdef()],
        share: false,
        back: Vec::new(),
        inp: Vec::new(),
        look: Vec::new(),
        records: Vec::new(),
        keep_order: false,
        null_empty_sets: false,
    };
    match ty {
        1 => s.outs = fz_outs(u)?,
        2 | 3 => {
            let h = fz_u8(u)?;
            let n = 1 + ((h & 3) % 3) as usize;
            s.seqs.clear();
            for k in 0..n {
                if k >= 1 && u.is_empty() {
                    break;
                }
                let m = 1 + ((h >> (2 + 2 * k)) & 3) % 3;
                s.seqs.push(fz_glyphs(u, 1, m as usize)?);
            }
        }
        4 => s.rules = fz_rules(u, FzRule::Lig)?,
        5 | 6 => {
            let h = fz_u8(u)?;
            match fmt % 3 {
                0 => {
                    s.rules = fz_rules(u, if ty == 5 { FzRule::Seq } else { FzRule::Chain })?;
                    s.null_empty_sets = h & 1 != 0;
                }
                1 => {
                    s.null_empty_sets = h & 1 != 0;
                    if ty == 5 {
                        s.classdefs[0] = fz_classdef(u)?;
                    } else {
                        s.share = (h >> 1) % 5 < 2;
                        s.classdefs[1] = fz_classdef(u)?;
                        if !s.share {
                            s.classdefs[0] = fz_classdef(u)?;
                            s.classdefs[2] = fz_classdef(u)?;
                        }
                    }
                    s.rules = fz_rules(u, if ty == 5 { FzRule::Seq } else { FzRule::Chain })?;
                }
                _ => {
                    s.keep_order = h & 7 == 7;
                    s.inp = fz_covs(u, (((h >> 3) & 3) % 3) as usize)?;
                    if ty == 6 {
                        let g = fz_u8(u)?;
                        s.back = fz_covs(u, ((g & 3) % 3) as usize)?;
                        s.look = fz_covs(u, (((g >> 2) & 3) % 3) as usize)?;
                    }
                    s.records = fz_records(u, ((h >> 5) & 3) as usize)?;
                }
            }
        }
        _ => {
            let g = fz_u8(u)?;
            s.outs = fz_outs(u)?;
            s.back = fz_covs(u, ((g & 3) % 3) as usize)?;
            s.look = fz_covs(u, (((g >> 2) & 3) % 3) as usize)?;
        }
    }
    if s.rules.is_empty() {
        s.rules.push(RawRule { set: 0, back: Vec::new(), input: Vec::new(), look: Vec::new(), records: Vec::new(), out: 0, keep_order: false, align: false });
    }
    Ok(s)
}

fn fz_lookup(u: &mut Unstructured<'_>, i: usize, nlookups: usize, nest_bias: bool) -> arbitrary::Result<RawLookup> {
    let ty = fz_u8(u)? % 14;
    let flags = fz_flags(u)?;
    let h = fz_u8(u)?;
    let nsubs = 1 + ((h & 3) % 3) as usize;
    let level = ((h >> 2) & 3) % 3;
    let e = fz_u8(u)?;
    let ext = match e {
        0..=159 => None,
        160..=216 => Some(0),
        _ => Some(1 + (e - 217)),
    };
    let t = lookup_type(i, ty, nest_bias, nlookups);
    let mut subs = Vec::new();
    for k in 0..nsubs {
        if k >= 1 && u.is_empty() {
            break;
        }
        subs.push(fz_sub(u, t)?);
    }
    Ok(RawLookup { ty, flags, subs, ext, level })
}

/// `coord()`: always three bytes
fn fz_coord(u: &mut Unstructured<'_>) -> arbitrary::Result<i16> {
    let sel = fz_u8(u)?;
    let raw = u16::from_be_bytes([fz_u8(u)?, fz_u8(u)?]);
    Ok(if sel < 154 { FZ_COORDS[(sel % 7) as usize] } else { (raw as i32 % 32769 - 16384) as i16 })
}

fn fz_gdef(u: &mut Unstructured<'_>) -> arbitrary::Result<RawGdef> {
    let a = fz_u8(u)?;
    let b = fz_u8(u)?;
    let mut classes = Vec::with_capacity(64);
    for _ in 0..32 {
        let x = fz_u8(u)?;
        classes.push(FZ_GLYPH_CLASS[(x & 15) as usize]);
        classes.push(FZ_GLYPH_CLASS[(x >> 4) as usize]);
    }
    let mut attach = Vec::with_capacity(64);
    for _ in 0..16 {
        let x = fz_u8(u)?;
        for k in 0..4 {
            attach.push((x >> (2 * k)) & 3);
        }
    }
    let mut sets = Vec::new();
    for _ in 0..3 {
        let mut m = [0u8; 8];
        for x in m.iter_mut() {
            *x = fz_u8(u)?;
        }
        sets.push((u64::from_le_bytes(m), fz_u8(u)? & 1 != 0));
    }
    sets.truncate(1 + (((b >> 6) & 3) % 3) as usize);
    Ok(RawGdef {
        present: a & 7 != 0,
        has_classes: (a >> 3) & 7 != 7,
        classes,
        cls_f2: b & 1 != 0,
        attach: if (b >> 1) & 3 != 0 { Some((attach, b & 8 != 0)) } else { None },
        sets: if (b >> 4) & 3 != 0 { Some(sets) } else { None },
        v13: a >> 6 == 3,
    })
}

fn fz_script(u: &mut Unstructured<'_>) -> arbitrary::Result<RawScript> {
    let f = fz_u8(u)?;
    let mask = fz_u8(u)?;
    let trk = fz_u8(u)?;
    Ok(RawScript {
        present: f & 1 == 0,
        has_default: (f >> 1) & 7 != 7,
        default_mask: if (f >> 4) & 3 != 3 { 0xFF } else { mask },
        trk: if (f >> 6) & 1 != 0 { Some(trk) } else { None },
        reverse: f >> 7 != 0,
    })
}

/// always eleven bytes
fn fz_request(u: &mut Unstructured<'_>) -> arbitrary::Result<RawRequest> {
    let a = fz_u8(u)?;
    let mask = fz_u8(u)?;
    let b = fz_u8(u)?;
    let mut tuple = Vec::new();
    for _ in 0..2 {
        tuple.push((fz_u8(u)?, fz_coord(u)?));
    }
    Ok(RawRequest {
        feat_mask: if a & 3 != 3 { 0xFF } else { mask },
        absent: (a >> 2) & 7 == 7,
        alternate: match a >> 5 {
            0..=4 => None,
            k => Some(k - 5),
        },
        lang: [0u8, 0, 0, 1, 2][(b & 7) as usize % 5],
        tuple: if (b >> 3) & 3 != 3 { Some(tuple) } else { None },
    })
}

fn fz_fv(u: &mut Unstructured<'_>, h: u8) -> arbitrary::Result<RawFv> {
    let axes = 1 + ((h >> 2) & 1);
    let nrec = 1 + (((h >> 3) & 3) % 3) as usize;
    let mut records = Vec::new();
    for k in 0..nrec {
        if k >= 1 && u.is_empty() {
            break;
        }
        let r = fz_u8(u)?;
        let mut conds = Vec::new();
        for _ in 0..(r & 3) % 3 {
            if u.is_empty() {
                break;
            }
            let c = fz_u8(u)?;
            conds.push((c & 1, fz_coord(u)?, fz_coord(u)?, (c >> 1) & 7 == 7));
        }
        let subst = if (r >> 3) & 7 != 7 {
            let mut v = Vec::new();
            for j in 0..1 + ((r >> 6) & 1) {
                if j >= 1 && u.is_empty() {
                    break;
                }
                let fi = fz_u8(u)?;
                let n = (fz_u8(u)? % 3) as usize;
                let mut ls = Vec::new();
                for _ in 0..n {
                    if u.is_empty() {
                        break;
                    }
                    ls.push(fz_u8(u)?);
                }
                v.push((fi, ls));
            }
            Some(v)
        } else {
            None
        };
        records.push(RawFvRec { conds, null_cs: r & 4 != 0, subst });
    }
    Ok(RawFv { axes, records })
}

fn fz_atom(u: &mut Unstructured<'_>) -> arbitrary::Result<RawAtom> {
    let a = fz_u8(u)?;
    if a % 5 < 2 {
        return Ok(RawAtom::G(fz_glyph(u)?));
    }
    let lookup = fz_u8(u)?;
    let sub = fz_u8(u)?;
    let rule = fz_u8(u)?;
    let noise = u32::from_le_bytes([fz_u8(u)?, fz_u8(u)?, fz_u8(u)?, fz_u8(u)?]);
    Ok(RawAtom::W { lookup, sub, rule, noise })
}

/// The ranges and invariants of `case_strategy`, restated as a predicate (None = inside).
pub fn domain_violation(c: &Case) -> Option<&'static str> {
    let cov_ok = |v: &RawCov| (1..=4).contains(&v.runs.len()) && v.runs.iter().all(|(_, l)| (1..=4).contains(l));
    let cd_ok = |v: &RawClassDef| v.runs.len() <= 5 && v.runs.iter().all(|(_, l, k)| (1..=4).contains(l) && (1..=3).contains(k));
    let recs_ok = |v: &Vec<(u8, u8)>| v.len() <= 3 && v.iter().all(|(s, _)| *s < 4);
    if !(24..=63).contains(&c.nglyphs) {
        return Some("nglyphs");
    }
    let g = &c.gdef;
    if g.classes.len() != 64 || g.classes.iter().any(|k| *k > 4) {
        return Some("gdef.classes");
    }
    if let Some((a, _)) = &g.attach {
        if a.len() != 64 || a.iter().any(|k| *k > 3) {
            return Some("gdef.attach");
        }
    }
    if let Some(s) = &g.sets {
        if !(1..=3).contains(&s.len()) {
            return Some("gdef.sets");
        }
    }
    if !(1..=6).contains(&c.lookups.len()) {
        return Some("lookups");
    }
    for l in &c.lookups {
        if l.ty >= 14 || l.level >= 3 || !(1..=3).contains(&l.subs.len()) || l.ext.map_or(false, |e| e >= 40) {
            return Some("lookup");
        }
        let f = &l.flags;
        let plain = !f.ignore_base && !f.ignore_lig && f.mark == 0 && f.attach == 0 && f.set == 0 && !f.rtl;
        if !plain && !(f.mark <= 6 && (1..=3).contains(&f.attach) && f.set <= 2) {
            return Some("flags");
        }
        for s in &l.subs {
            if !cov_ok(&s.cov) || !(1..=4).contains(&s.outs.len()) || !(1..=3).contains(&s.seqs.len()) || s.seqs.iter().any(|q| !(1..=3).contains(&q.len())) {
                return Some("sub.cov/outs/seqs");
            }
            if !(1..=4).contains(&s.rules.len()) || s.classdefs.len() != 3 || !s.classdefs.iter().all(cd_ok) {
                return Some("sub.rules/classdefs");
            }
            if s.back.len() > 2 || s.inp.len() > 2 || s.look.len() > 2 || !s.back.iter().chain(&s.inp).chain(&s.look).all(cov_ok) || !recs_ok(&s.records) {
                return Some("sub.back/inp/look/records");
            }
            for r in &s.rules {
                if r.back.len() > 2 || r.input.len() > 3 || r.look.len() > 2 || !recs_ok(&r.records) {
                    return Some("rule");
                }
            }
        }
    }
    if !(1..=4).contains(&c.features.len()) || c.features.iter().any(|f| f.tag >= 12 || !(1..=3).contains(&f.lookups.len())) {
        return Some("features");
    }
    if c.scripts.len() != 3 {
        return Some("scripts");
    }
    let coord_ok = |v: i16| (-16384..=16384).contains(&v);
    if let Some(fv) = &c.fv {
        if !(1..=2).contains(&fv.axes) || !(1..=3).contains(&fv.records.len()) {
            return Some("fv");
        }
        for r in &fv.records {
            if r.conds.len() > 2 || r.conds.iter().any(|(a, x, y, _)| *a > 1 || !coord_ok(*x) || !coord_ok(*y)) {
                return Some("fv.conds");
            }
            if let Some(s) = &r.subst {
                if !(1..=2).contains(&s.len()) || s.iter().any(|(_, ls)| ls.len() > 2) {
                    return Some("fv.subst");
                }
            }
        }
    }
    if !(1..=2).contains(&c.requests.len()) {
        return Some("requests");
    }
    for q in &c.requests {
        if q.alternate.map_or(false, |a| a > 2) || q.lang > 2 || q.tuple.as_ref().map_or(false, |t| t.len() != 2 || t.iter().any(|(_, v)| !coord_ok(*v))) {
            return Some("request");
        }
    }
    if !(4..=8).contains(&c.strings.len()) || c.strings.iter().any(|s| s.len() > 5) {
        return Some("strings");
    }
    None
}

/// Decode libFuzzer bytes into a case of the `programs` section (structure-aware, total).
pub fn case_from_bytes(data: &[u8]) -> arbitrary::Result<Case> {
    let mut u = Unstructured::new(data);
    let u = &mut u;
    // fixed-size header (110 bytes)
    let nglyphs = 24 + fz_u8(u)? % 40;
    let f = fz_u8(u)?;
    let force_v11 = f & 3 == 3;
    let nest_bias = (f >> 2) & 3 == 3;
    let nreq = 1 + ((f >> 4) & 1) as usize;
    let gdef = fz_gdef(u)?;
    let scripts = vec![fz_script(u)?, fz_script(u)?, fz_script(u)?];
    let mut requests = vec![fz_request(u)?, fz_request(u)?];
    requests.truncate(nreq);
    // features
    let nfeat = 1 + (fz_u8(u)? & 3) as usize;
    let mut features = Vec::new();
    for k in 0..nfeat {
        if k >= 1 && u.is_empty() {
            break;
        }
        let h = fz_u8(u)?;
        let n = 1 + ((h >> 4) % 3) as usize;
        let mut lookups = Vec::new();
        for j in 0..n {
            if j >= 1 && u.is_empty() {
                break;
            }
            lookups.push(fz_u8(u)?);
        }
        features.push(RawFeature { tag: (h & 15) % 12, lookups });
    }
    // feature variations
    let h = fz_u8(u)?;
    let fv = if h & 3 == 3 { Some(fz_fv(u, h)?) } else { None };
    // lookups: the count is fixed before the bodies are decoded (the type of a lookup depends on it)
    let nlookups = (1 + (fz_u8(u)? % 6) as usize).min(1 + u.len() / 8);
    let mut lookups = Vec::new();
    for i in 0..nlookups {
        lookups.push(fz_lookup(u, i, nlookups, nest_bias)?);
    }
    // strings
    let nstrings = 4 + (fz_u8(u)? % 5) as usize;
    let mut strings = Vec::new();
    for k in 0..nstrings {
        if k >= 4 && u.is_empty() {
            break;
        }
        let n = (fz_u8(u)? % 6) as usize;
        let mut atoms = Vec::new();
        for _ in 0..n {
            if u.is_empty() {
                break;
            }
            atoms.push(fz_atom(u)?);
        }
        strings.push(atoms);
    }
    let case = Case { nglyphs, gdef, lookups, features, scripts, fv, force_v11, nest_bias, requests, strings };
    if let Some(what) = domain_violation(&case) {
        panic!("C04 case_from_bytes left the domain of case_strategy: {}", what);
    }
    Ok(case)
}

// ------------------------------------------------------------------------------ resolution

#[derive(Clone, Debug)]
pub struct Req {
    pub features: Vec<[u8; 4]>,
    pub alternate: Option<usize>,
    pub lang: Option<[u8; 4]>,
    pub tuple: Option<Vec<i16>>,
}

#[derive(Clone, Debug)]
pub struct Program {
    /// glyph ids 1..=n are the universe; the font has n+1 glyphs
    pub n: u16,
    pub gdef: Option<GdefModel>,
    pub gsub: GsubModel,
    pub requests: Vec<Req>,
    pub strings: Vec<Vec<u16>>,
    /// rules whose records were left in generated order although a target may change the length
    pub unordered_rules: usize,
    pub nest_bias: bool,
}

fn gl(n: u16, g: u8) -> u16 {
    1 + (g as u16 % n)
}

fn res_cov(n: u16, c: &RawCov) -> Cov {
    let mut v = Vec::new();
    for (s, l) in &c.runs {
        let s = gl(n, *s);
        for k in 0..*l as u16 {
            if s + k <= n {
                v.push(s + k);
            }
        }
    }
    Cov::new(v, if c.f2 { 2 } else { 1 })
}

fn res_classdef(n: u16, c: &RawClassDef) -> ClassDefM {
    let mut m = BTreeMap::new();
    for (s, l, k) in &c.runs {
        let s = gl(n, *s);
        for j in 0..*l as u16 {
            if s + j <= n {
                m.insert(s + j, *k as u16);
            }
        }
    }
    ClassDefM::new(m, if c.f2 { 2 } else { 1 })
}

fn res_gdef(n: u16, g: &RawGdef) -> Option<GdefModel> {
    if !g.present {
        return None;
    }
    let glyph_classes = if g.has_classes {
        let m: BTreeMap<u16, u16> = (1..=n).map(|i| (i, g.classes[(i as usize) % g.classes.len()] as u16)).collect();
        Some(ClassDefM::new(m, if g.cls_f2 { 2 } else { 1 }))
    } else {
        None
    };
    let mark_attach_classes = g.attach.as_ref().map(|(a, f2)| {
        let m: BTreeMap<u16, u16> = (1..=n).map(|i| (i, a[(i as usize) % a.len()] as u16)).collect();
        ClassDefM::new(m, if *f2 { 2 } else { 1 })
    });
    let mark_glyph_sets = g.sets.as_ref().map(|sets| {
        sets.iter()
            .map(|(mask, f2)| Cov::new((1..=n).filter(|i| mask >> (*i as u64 % 64) & 1 == 1).collect(), if *f2 { 2 } else { 1 }))
            .collect::<Vec<Cov>>()
    });
    Some(GdefModel { glyph_classes, mark_attach_classes, mark_glyph_sets, v13: g.v13 })
}

fn res_flags(f: &RawFlags, gdef: Option<&GdefModel>) -> LookupFlags {
    let nsets = gdef.and_then(|g| g.mark_glyph_sets.as_ref()).map(|s| s.len()).unwrap_or(0);
    let set = if nsets > 0 { Some((f.set as usize % nsets) as u16) } else { None };
    let mut out = LookupFlags { right_to_left: f.rtl, ignore_base: f.ignore_base, ignore_ligatures: f.ignore_lig, ..LookupFlags::default() };
    match f.mark {
        1 => out.ignore_marks = true,
        2 => out.mark_attach_type = f.attach,
        3 => out.mark_filtering_set = set,
        4 => {
            out.ignore_marks = true;
            out.mark_attach_type = f.attach;
        }
        5 => {
            out.ignore_marks = true;
            out.mark_filtering_set = set;
        }
        6 => {
            out.mark_attach_type = f.attach;
            out.mark_filtering_set = set;
        }
        _ => {}
    }
    out
}

const TYPE_TABLE: [u16; 14] = [1, 1, 2, 3, 4, 4, 5, 5, 5, 6, 6, 6, 8, 4];

struct Resolver<'a> {
    n: u16,
    types: Vec<u16>,
    levels: Vec<u8>,
    raw: &'a [RawLookup],
    unordered: usize,
}

impl Resolver<'_> {
    /// lookups a contextual lookup `this` may invoke: any non-contextual lookup except type 8,
    /// and contextual lookups of a strictly higher level (bounds the nesting depth at 2)
    fn targets(&self, this: usize) -> Vec<u16> {
        let mut out: Vec<u16> = Vec::new();
        for j in 0..self.types.len() {
            match self.types[j] {
                1 | 3 => out.push(j as u16),
                // length-changing targets get double weight
                2 | 4 => out.extend([j as u16; 2]),
                // contextual targets get triple weight
                5 | 6 if self.levels[j] > self.levels[this] => out.extend([j as u16; 3]),
                _ => {}
            }
        }
        out
    }

    fn records(&mut self, this: usize, raw: &[(u8, u8)], input_len: usize, keep_order: bool) -> Vec<SeqLookup> {
        let targets = self.targets(this);
        if targets.is_empty() {
            return Vec::new();
        }
        let mut recs: Vec<SeqLookup> = raw.iter().map(|(s, l)| ((*s as usize % input_len) as u16, targets[*l as usize % targets.len()])).collect();
        let may_change = recs.iter().any(|(_, l)| matches!(self.types[*l as usize], 2 | 4 | 5 | 6));
        if may_change && recs.len() > 1 {
            if keep_order {
                self.unordered += 1;
            } else {
                recs.sort_by(|a, b| b.0.cmp(&a.0));
            }
        }
        recs
    }

    /// first-subtable coverage of a lookup, used to align rule inputs with nested lookups
    fn first_cov(&self, li: usize) -> Cov {
        res_cov(self.n, &self.raw[li].subs[0].cov)
    }

    /// for a glyph-based rule with a record at sequence index 0: a rule set whose first glyph the
    /// nested lookup covers
    fn aligned_set(&self, cov: &Cov, r: &RawRule, records: &[SeqLookup]) -> Option<usize> {
        if !r.align {
            return None;
        }
        let (_, l) = records.iter().find(|(s, _)| *s == 0)?;
        let c = self.first_cov(*l as usize);
        let both: Vec<usize> = cov.glyphs.iter().enumerate().filter(|(_, g)| c.contains(**g)).map(|(i, _)| i).collect();
        if both.is_empty() {
            None
        } else {
            Some(both[r.set as usize % both.len()])
        }
    }

    fn seq_rule(&mut self, this: usize, r: &RawRule, map: impl Fn(u8) -> u16, glyph_based: bool) -> SeqRule {
        let mut input: Vec<u16> = r.input.iter().map(|g| map(*g)).collect();
        let records = self.records(this, &r.records, input.len() + 1, r.keep_order);
        if glyph_based && r.align {
            for (s, l) in &records {
                if *s > 0 {
                    let c = self.first_cov(*l as usize);
                    if !c.glyphs.is_empty() {
                        input[*s as usize - 1] = c.glyphs[r.out as usize % c.glyphs.len()];
                    }
                }
            }
        }
        SeqRule { input, records }
    }

    fn chain_rule(&mut self, this: usize, r: &RawRule, mb: impl Fn(u8) -> u16, mi: impl Fn(u8) -> u16, ml: impl Fn(u8) -> u16, glyph_based: bool) -> ChainRule {
        let s = self.seq_rule(this, r, mi, glyph_based);
        ChainRule {
            backtrack: r.back.iter().map(|g| mb(*g)).collect(),
            input: s.input,
            lookahead: r.look.iter().map(|g| ml(*g)).collect(),
            records: s.records,
        }
    }

    fn sets<R>(nsets: usize, rules: Vec<(usize, R)>, null_empty: bool) -> Vec<Option<Vec<R>>> {
        let mut out: Vec<Option<Vec<R>>> = (0..nsets).map(|_| None).collect();
        for (k, r) in rules {
            out[k].get_or_insert_with(Vec::new).push(r);
        }
        if !null_empty {
            for o in out.iter_mut() {
                if o.is_none() {
                    *o = Some(Vec::new());
                }
            }
        }
        out
    }

    fn subtable(&mut self, this: usize, ty: u16, s: &RawSub) -> Subtable {
        let n = self.n;
        let cov = res_cov(n, &s.cov);
        let ncov = cov.glyphs.len().max(1);
        match ty {
            1 => {
                if s.fmt % 2 == 0 {
                    let min = *cov.glyphs.first().unwrap_or(&1) as i32;
                    let max = *cov.glyphs.last().unwrap_or(&1) as i32;
                    let target = gl(n, s.outs[0]) as i32;
                    let delta = (target - min).clamp(1 - min, n as i32 - max);
                    Subtable::Single1 { cov, delta: delta as i16 }
                } else {
                    let subst = (0..cov.glyphs.len()).map(|k| gl(n, s.outs[k % s.outs.len()])).collect();
                    Subtable::Single2 { cov, subst }
                }
            }
            2 => {
                let seqs = (0..cov.glyphs.len()).map(|k| s.seqs[k % s.seqs.len()].iter().map(|g| gl(n, *g)).collect()).collect();
                Subtable::Multiple { cov, seqs }
            }
            3 => {
                let sets = (0..cov.glyphs.len()).map(|k| s.seqs[k % s.seqs.len()].iter().map(|g| gl(n, *g)).collect()).collect();
                Subtable::Alternate { cov, sets }
            }
            4 => {
                let mut sets: Vec<Vec<Lig>> = (0..cov.glyphs.len()).map(|_| Vec::new()).collect();
                if !sets.is_empty() {
                    for r in &s.rules {
                        sets[r.set as usize % ncov].push(Lig { components: r.input.iter().map(|g| gl(n, *g)).collect(), glyph: gl(n, r.out) });
                    }
                }
                Subtable::Ligature { cov, sets }
            }
            5 => match s.fmt % 3 {
                0 => {
                    let rules: Vec<(usize, SeqRule)> = s
                        .rules
                        .iter()
                        .map(|r| {
                            let rule = self.seq_rule(this, r, |g| gl(n, g), true);
                            (self.aligned_set(&cov, r, &rule.records).unwrap_or(r.set as usize % ncov), rule)
                        })
                        .collect();
                    let rulesets = if cov.glyphs.is_empty() { Vec::new() } else { Self::sets(cov.glyphs.len(), rules, s.null_empty_sets) };
                    Subtable::Context1 { cov, rulesets }
                }
                1 => {
                    let cd = res_classdef(n, &s.classdefs[0]);
                    let nc = cd.max_class() + 1;
                    let rules: Vec<(usize, SeqRule)> = s.rules.iter().map(|r| ((r.set as u16 % nc) as usize, self.seq_rule(this, r, |g| g as u16 % nc, false))).collect();
                    let rulesets = Self::sets(nc as usize, rules, s.null_empty_sets);
                    Subtable::Context2 { cov, classdef: cd, rulesets }
                }
                _ => {
                    let mut covs = vec![cov];
                    covs.extend(s.inp.iter().map(|c| res_cov(n, c)));
                    let records = self.records(this, &s.records, covs.len(), s.keep_order);
                    Subtable::Context3 { covs, records }
                }
            },
            6 => match s.fmt % 3 {
                0 => {
                    let rules: Vec<(usize, ChainRule)> = s
                        .rules
                        .iter()
                        .map(|r| {
                            let rule = self.chain_rule(this, r, |g| gl(n, g), |g| gl(n, g), |g| gl(n, g), true);
                            (self.aligned_set(&cov, r, &rule.records).unwrap_or(r.set as usize % ncov), rule)
                        })
                        .collect();
                    let rulesets = if cov.glyphs.is_empty() { Vec::new() } else { Self::sets(cov.glyphs.len(), rules, s.null_empty_sets) };
                    Subtable::Chain1 { cov, rulesets }
                }
                1 => {
                    let (b, i, l) = if s.share {
                        let c = res_classdef(n, &s.classdefs[1]);
                        (c.clone(), c.clone(), c)
                    } else {
                        (res_classdef(n, &s.classdefs[0]), res_classdef(n, &s.classdefs[1]), res_classdef(n, &s.classdefs[2]))
                    };
                    let (nb, ni, nl) = (b.max_class() + 1, i.max_class() + 1, l.max_class() + 1);
                    let rules: Vec<(usize, ChainRule)> = s
                        .rules
                        .iter()
                        .map(|r| ((r.set as u16 % ni) as usize, self.chain_rule(this, r, |g| g as u16 % nb, |g| g as u16 % ni, |g| g as u16 % nl, false)))
                        .collect();
                    let rulesets = Self::sets(ni as usize, rules, s.null_empty_sets);
                    Subtable::Chain2 { cov, backtrack_classdef: b, input_classdef: i, lookahead_classdef: l, share_classdefs: s.share, rulesets }
                }
                _ => {
                    let mut input = vec![cov];
                    input.extend(s.inp.iter().map(|c| res_cov(n, c)));
                    let records = self.records(this, &s.records, input.len(), s.keep_order);
                    Subtable::Chain3 {
                        backtrack: s.back.iter().map(|c| res_cov(n, c)).collect(),
                        input,
                        lookahead: s.look.iter().map(|c| res_cov(n, c)).collect(),
                        records,
                    }
                }
            },
            _ => {
                let subst = (0..cov.glyphs.len()).map(|k| gl(n, s.outs[k % s.outs.len()])).collect();
                Subtable::Reverse { cov, backtrack: s.back.iter().map(|c| res_cov(n, c)).collect(), lookahead: s.look.iter().map(|c| res_cov(n, c)).collect(), subst }
            }
        }
    }
}

fn res_langsys(features: &[FeatureM], mask: u8, reverse: bool) -> LangSysM {
    let mut idx: Vec<u16> = Vec::new();
    let mut seen: BTreeSet<[u8; 4]> = BTreeSet::new();
    let order: Vec<usize> = if reverse { (0..features.len()).rev().collect() } else { (0..features.len()).collect() };
    for i in order {
        if mask >> (i % 8) & 1 == 1 && seen.insert(features[i].tag) {
            idx.push(i as u16);
        }
    }
    LangSysM { required_feature: 0xFFFF, feature_indices: idx }
}

/// GSUB lookup type of lookup `i` (raw type selector `ty`) in a case with `nlookups` lookups
/// (shared by `resolve` and the libFuzzer decoder, which decodes only the fields a type reads)
fn lookup_type(i: usize, ty: u8, nest_bias: bool, nlookups: usize) -> u16 {
    let t = TYPE_TABLE[ty as usize % TYPE_TABLE.len()];
    if nest_bias && nlookups >= 3 {
        match (i, t) {
            (0..=2, 5 | 6) => t,
            (0..=2, _) => 5 + (ty as u16 % 2),
            (_, 5 | 6 | 8) => [2u16, 4, 1, 4][ty as usize % 4],
            _ => t,
        }
    } else {
        t
    }
}

pub fn resolve(c: &Case) -> Program {
    let n = c.nglyphs.clamp(8, 63) as u16;
    let gdef = res_gdef(n, &c.gdef);
    let types: Vec<u16> = c.lookups.iter().enumerate().map(|(i, l)| lookup_type(i, l.ty, c.nest_bias, c.lookups.len())).collect();
    // contextual lookups get levels 0,1,2,0,… in list order (rotated by the first one's raw level)
    // so that chains of nested contexts of depth 2 exist whenever there are three of them
    let mut rank = c.lookups.first().map(|l| l.level as usize).unwrap_or(0);
    let levels: Vec<u8> = types
        .iter()
        .map(|t| {
            if matches!(t, 5 | 6) {
                rank += 1;
                ((rank - 1) % 3) as u8
            } else {
                0
            }
        })
        .collect();
    let mut r = Resolver { n, types: types.clone(), levels, raw: &c.lookups, unordered: 0 };
    let mut lookups = Vec::new();
    for (i, l) in c.lookups.iter().enumerate() {
        let subtables = l.subs.iter().map(|s| r.subtable(i, types[i], s)).collect();
        lookups.push(Lookup { lookup_type: types[i], flags: res_flags(&l.flags, gdef.as_ref()), subtables, extension: l.ext.map(|g| g as usize) });
    }
    let nl = lookups.len();
    // features, sorted by tag (stable)
    let mut features: Vec<FeatureM> = c
        .features
        .iter()
        .map(|f| {
            let mut ls: Vec<u16> = Vec::new();
            for l in &f.lookups {
                let v = (*l as usize % nl) as u16;
                if !ls.contains(&v) {
                    ls.push(v);
                }
            }
            FeatureM { tag: TAGS[f.tag as usize % TAGS.len()], lookups: ls }
        })
        .collect();
    if c.nest_bias {
        if let Some(f) = features.first_mut() {
            f.lookups.retain(|l| *l != 0);
            f.lookups.insert(0, 0);
        }
    }
    features.sort_by_key(|f| f.tag);
    let script_tags: [[u8; 4]; 3] = [*b"DFLT", *b"latn", *b"grek"];
    let mut scripts = Vec::new();
    for (k, s) in c.scripts.iter().enumerate().take(3) {
        if !s.present {
            continue;
        }
        scripts.push(ScriptM {
            tag: script_tags[k],
            default_langsys: if s.has_default { Some(res_langsys(&features, s.default_mask, s.reverse)) } else { None },
            langsys: s.trk.map(|m| vec![(LANG_TRK, res_langsys(&features, m, !s.reverse))]).unwrap_or_default(),
        });
    }
    let nf = features.len();
    let feature_variations = c.fv.as_ref().map(|fv| FeatureVariationsM {
        axis_count: fv.axes as u16,
        records: fv
            .records
            .iter()
            .map(|rec| FeatureVariationRecordM {
                conditions: rec
                    .conds
                    .iter()
                    .map(|(a, x, y, raw_order)| {
                        let (min, max) = if *raw_order { (*x, *y) } else { (*x.min(y), *x.max(y)) };
                        ConditionM { axis: (*a % fv.axes) as u16, min, max }
                    })
                    .collect(),
                null_condition_set: rec.null_cs,
                substitutions: rec.subst.as_ref().map(|subs| {
                    let mut m: BTreeMap<u16, Vec<u16>> = BTreeMap::new();
                    for (fi, ls) in subs {
                        let mut v: Vec<u16> = Vec::new();
                        for l in ls {
                            let x = (*l as usize % nl) as u16;
                            if !v.contains(&x) {
                                v.push(x);
                            }
                        }
                        m.entry((*fi as usize % nf) as u16).or_insert(v);
                    }
                    m.into_iter().collect()
                }),
            })
            .collect(),
    });
    let gsub = GsubModel { scripts, features, lookups, feature_variations, force_v11: c.force_v11 };
    // requests
    let tags: Vec<[u8; 4]> = gsub.features.iter().map(|f| f.tag).collect::<BTreeSet<_>>().into_iter().collect();
    let requests: Vec<Req> = c
        .requests
        .iter()
        .map(|q| {
            let mut features: Vec<[u8; 4]> = tags.iter().enumerate().filter(|(i, _)| q.feat_mask >> (i % 8) & 1 == 1).map(|(_, t)| *t).collect();
            if features.is_empty() {
                features = tags.clone();
            }
            if q.absent {
                features.insert(0, ABSENT_TAG);
            }
            let tuple = match (&gsub.feature_variations, &q.tuple) {
                (Some(fv), Some(t)) => Some(
                    (0..fv.axis_count as usize)
                        .map(|a| {
                            let (sel, raw) = t[a % t.len()];
                            let mut cands: Vec<i32> = vec![raw as i32];
                            for r in &fv.records {
                                for cnd in &r.conditions {
                                    if cnd.axis as usize == a {
                                        for d in [-1i32, 0, 1] {
                                            cands.push(cnd.min as i32 + d);
                                            cands.push(cnd.max as i32 + d);
                                        }
                                    }
                                }
                            }
                            cands[sel as usize % cands.len()].clamp(-16384, 16384) as i16
                        })
                        .collect(),
                ),
                _ => None,
            };
            Req {
                features,
                alternate: q.alternate.map(|a| a as usize),
                lang: match q.lang {
                    1 => Some(LANG_TRK),
                    2 => Some(LANG_ENG),
                    _ => None,
                },
                tuple,
            }
        })
        .collect();
    let mut p = Program { n, gdef, gsub, requests, strings: Vec::new(), unordered_rules: r.unordered, nest_bias: c.nest_bias };
    p.strings = c.strings.iter().map(|atoms| build_string(&p, atoms)).collect();
    p
}

// ------------------------------------------------------------------------------ witness strings

enum WTest<'a> {
    G(u16),
    Class(&'a ClassDefM, u16),
    Cov(&'a Cov),
}

impl WTest<'_> {
    fn candidates(&self, n: u16) -> Vec<u16> {
        match self {
            WTest::G(g) => vec![*g],
            WTest::Class(cd, k) => (1..=n).filter(|g| cd.class_of(*g) == *k).collect(),
            WTest::Cov(c) => c.glyphs.clone(),
        }
    }
}

struct Rng(u64);
impl Rng {
    fn next(&mut self) -> u64 {
        self.0 = mix64(self.0);
        self.0
    }
    fn below(&mut self, n: usize) -> usize {
        if n == 0 {
            0
        } else {
            (self.next() % n as u64) as usize
        }
    }
}

fn pick_set<R>(sets: &[Option<Vec<R>>], r: usize) -> Option<(usize, &R)> {
    let n = sets.len();
    for d in 0..n {
        let k = (r + d) % n;
        if let Some(rules) = &sets[k] {
            if !rules.is_empty() {
                return Some((k, &rules[(r / 7) % rules.len()]));
            }
        }
    }
    None
}

struct RuleView<'a> {
    /// font order: [0] is next to the first input glyph
    back: Vec<WTest<'a>>,
    /// including the first glyph
    input: Vec<WTest<'a>>,
    look: Vec<WTest<'a>>,
    records: &'a [SeqLookup],
}

/// The tests of one rule (chosen by `r`) of a subtable.
fn rule_view<'a>(st: &'a Subtable, r: usize, rng: &mut Rng) -> Option<RuleView<'a>> {
    let mut v = RuleView { back: Vec::new(), input: Vec::new(), look: Vec::new(), records: &[] };
    match st {
        Subtable::Single1 { cov, .. } | Subtable::Single2 { cov, .. } | Subtable::Multiple { cov, .. } | Subtable::Alternate { cov, .. } => v.input.push(WTest::Cov(cov)),
        Subtable::Ligature { cov, sets } => {
            if cov.glyphs.is_empty() {
                return None;
            }
            let mut ci = r % cov.glyphs.len();
            for d in 0..sets.len() {
                if !sets[(ci + d) % sets.len()].is_empty() {
                    ci = (ci + d) % sets.len();
                    break;
                }
            }
            v.input.push(WTest::G(cov.glyphs[ci]));
            if !sets[ci].is_empty() {
                let lig = &sets[ci][(r / 7) % sets[ci].len()];
                v.input.extend(lig.components.iter().map(|c| WTest::G(*c)));
            }
        }
        Subtable::Context1 { cov, rulesets } => match pick_set(rulesets, r) {
            Some((k, rl)) => {
                v.input.push(WTest::G(cov.glyphs[k]));
                v.input.extend(rl.input.iter().map(|g| WTest::G(*g)));
                v.records = &rl.records;
            }
            None => v.input.push(WTest::Cov(cov)),
        },
        Subtable::Context2 { cov, classdef, rulesets } => match pick_set(rulesets, r) {
            Some((k, rl)) => {
                let first: Vec<u16> = cov.glyphs.iter().copied().filter(|g| classdef.class_of(*g) as usize == k).collect();
                if first.is_empty() {
                    v.input.push(WTest::Cov(cov));
                } else {
                    v.input.push(WTest::G(first[rng.below(first.len())]));
                }
                v.input.extend(rl.input.iter().map(|c| WTest::Class(classdef, *c)));
                v.records = &rl.records;
            }
            None => v.input.push(WTest::Cov(cov)),
        },
        Subtable::Context3 { covs, records } => {
            v.input.extend(covs.iter().map(WTest::Cov));
            v.records = records;
        }
        Subtable::Chain1 { cov, rulesets } => match pick_set(rulesets, r) {
            Some((k, rl)) => {
                v.input.push(WTest::G(cov.glyphs[k]));
                v.input.extend(rl.input.iter().map(|g| WTest::G(*g)));
                v.back.extend(rl.backtrack.iter().map(|g| WTest::G(*g)));
                v.look.extend(rl.lookahead.iter().map(|g| WTest::G(*g)));
                v.records = &rl.records;
            }
            None => v.input.push(WTest::Cov(cov)),
        },
        Subtable::Chain2 { cov, backtrack_classdef, input_classdef, lookahead_classdef, rulesets, .. } => match pick_set(rulesets, r) {
            Some((k, rl)) => {
                let first: Vec<u16> = cov.glyphs.iter().copied().filter(|g| input_classdef.class_of(*g) as usize == k).collect();
                if first.is_empty() {
                    v.input.push(WTest::Cov(cov));
                } else {
                    v.input.push(WTest::G(first[rng.below(first.len())]));
                }
                v.input.extend(rl.input.iter().map(|c| WTest::Class(input_classdef, *c)));
                v.back.extend(rl.backtrack.iter().map(|c| WTest::Class(backtrack_classdef, *c)));
                v.look.extend(rl.lookahead.iter().map(|c| WTest::Class(lookahead_classdef, *c)));
                v.records = &rl.records;
            }
            None => v.input.push(WTest::Cov(cov)),
        },
        Subtable::Chain3 { backtrack, input, lookahead, records } => {
            v.input.extend(input.iter().map(WTest::Cov));
            v.back.extend(backtrack.iter().map(WTest::Cov));
            v.look.extend(lookahead.iter().map(WTest::Cov));
            v.records = records;
        }
        Subtable::Reverse { cov, backtrack, lookahead, .. } => {
            v.input.push(WTest::Cov(cov));
            v.back.extend(backtrack.iter().map(WTest::Cov));
            v.look.extend(lookahead.iter().map(WTest::Cov));
        }
    }
    Some(v)
}

/// Narrow the candidate slots from `start` on so that lookup `li` (invoked by a sequence lookup
/// record at that slot) can match too; recursive for the nested lookup's own records.
fn constrain(p: &Program, slots: &mut Vec<Vec<u16>>, start: usize, li: usize, rng: &mut Rng, depth: usize) {
    let l = match p.gsub.lookups.get(li) {
        Some(l) => l,
        None => return,
    };
    let universe: Vec<u16> = (1..=p.n).collect();
    for _ in 0..3 {
        let st = &l.subtables[rng.below(l.subtables.len())];
        let r = rng.below(64);
        let v = match rule_view(st, r, rng) {
            Some(v) => v,
            None => continue,
        };
        let mut ns = slots.clone();
        let mut ok = true;
        let fwd: Vec<&WTest<'_>> = v.input.iter().chain(v.look.iter()).collect();
        for (k, t) in fwd.iter().enumerate() {
            let idx = start + k;
            if idx >= MAX_STRING {
                ok = false;
                break;
            }
            if idx >= ns.len() {
                ns.push(universe.clone());
            }
            let c = t.candidates(p.n);
            let mut inter: Vec<u16> = ns[idx].iter().copied().filter(|g| c.contains(g)).collect();
            // prefer glyphs the nested lookup does not skip
            let good: Vec<u16> = inter.iter().copied().filter(|g| refgsub::skip_reason(&l.flags, p.gdef.as_ref(), *g).is_none()).collect();
            if !good.is_empty() {
                inter = good;
            }
            if inter.is_empty() {
                ok = false;
                break;
            }
            ns[idx] = inter;
        }
        if ok {
            for (k, t) in v.back.iter().enumerate() {
                if start < k + 1 {
                    break;
                }
                let idx = start - 1 - k;
                let c = t.candidates(p.n);
                let inter: Vec<u16> = ns[idx].iter().copied().filter(|g| c.contains(g)).collect();
                if inter.is_empty() {
                    ok = false;
                    break;
                }
                ns[idx] = inter;
            }
        }
        if ok {
            *slots = ns;
            if depth < 3 {
                for (seq, t) in v.records {
                    constrain(p, slots, start + *seq as usize, *t as usize, rng, depth + 1);
                }
            }
            return;
        }
    }
}

/// A glyph sequence on which subtable `sub` of lookup `lookup` is likely to fire, including the
/// lookups its sequence lookup records invoke.
fn witness(p: &Program, lookup: u8, sub: u8, rule: u8, noise: u32) -> Vec<u16> {
    let n = p.n;
    let l = &p.gsub.lookups[lookup as usize % p.gsub.lookups.len()];
    let st = &l.subtables[sub as usize % l.subtables.len()];
    let mut rng = Rng(noise as u64 ^ 0xC04);
    let v = match rule_view(st, rule as usize, &mut rng) {
        Some(v) => v,
        None => return Vec::new(),
    };
    let unskipped = |g: &u16| refgsub::skip_reason(&l.flags, p.gdef.as_ref(), *g).is_none();
    let mut slots: Vec<Vec<u16>> = Vec::new();
    for t in v.back.iter().rev().chain(v.input.iter()).chain(v.look.iter()) {
        let mut c = t.candidates(n);
        let good: Vec<u16> = c.iter().copied().filter(unskipped).collect();
        if !good.is_empty() {
            c = good;
        }
        slots.push(c);
    }
    let input_start = v.back.len();
    if rng.below(8) != 0 {
        for (seq, t) in v.records {
            constrain(p, &mut slots, input_start + *seq as usize, *t as usize, &mut rng, 1);
        }
    }
    let skippable: Vec<u16> = (1..=n).filter(|g| !unskipped(g)).collect();
    let mut out: Vec<u16> = Vec::new();
    for (k, c) in slots.iter().enumerate() {
        if k > 0 && !skippable.is_empty() && rng.below(5) < 2 {
            out.push(skippable[rng.below(skippable.len())]);
            if rng.below(4) == 0 {
                out.push(skippable[rng.below(skippable.len())]);
            }
        }
        if c.is_empty() {
            out.push(1 + rng.below(n as usize) as u16);
        } else {
            out.push(c[rng.below(c.len())]);
        }
    }
    out
}

#[allow(dead_code)]
fn first_coverage(st: &Subtable) -> Cov {
    match st {
        Subtable::Single1 { cov, .. }
        | Subtable::Single2 { cov, .. }
        | Subtable::Multiple { cov, .. }
        | Subtable::Alternate { cov, .. }
        | Subtable::Ligature { cov, .. }
        | Subtable::Context1 { cov, .. }
        | Subtable::Context2 { cov, .. }
        | Subtable::Chain1 { cov, .. }
        | Subtable::Chain2 { cov, .. }
        | Subtable::Reverse { cov, .. } => cov.clone(),
        Subtable::Context3 { covs, .. } => covs.first().cloned().unwrap_or_default(),
        Subtable::Chain3 { input, .. } => input.first().cloned().unwrap_or_default(),
    }
}

fn build_string(p: &Program, atoms: &[RawAtom]) -> Vec<u16> {
    let mut s = Vec::new();
    for a in atoms {
        match a {
            RawAtom::G(g) => s.push(gl(p.n, *g)),
            RawAtom::W { lookup, sub, rule, noise } => {
                let lookup = if p.nest_bias && noise % 2 == 0 { 0 } else { *lookup };
                s.extend(witness(p, lookup, *sub, *rule, *noise))
            }
        }
    }
    s.truncate(MAX_STRING);
    s
}


// ------------------------------------------------------------------------------ compact rendering

fn r_cov(c: &Cov) -> String {
    format!("{{{}}}f{}", c.glyphs.iter().map(|g| g.to_string()).collect::<Vec<_>>().join(","), c.format)
}

fn r_cd(c: &ClassDefM) -> String {
    format!("cd{{{}}}f{}", c.map.iter().map(|(g, k)| format!("{}:{}", g, k)).collect::<Vec<_>>().join(","), c.format)
}

fn r_flags(f: &LookupFlags) -> String {
    let mut v: Vec<String> = Vec::new();
    if f.right_to_left {
        v.push("rtl".into());
    }
    if f.ignore_base {
        v.push("ignoreBase".into());
    }
    if f.ignore_ligatures {
        v.push("ignoreLig".into());
    }
    if f.ignore_marks {
        v.push("ignoreMarks".into());
    }
    if f.mark_attach_type != 0 {
        v.push(format!("attachType={}", f.mark_attach_type));
    }
    if let Some(s) = f.mark_filtering_set {
        v.push(format!("filterSet={}", s));
    }
    if v.is_empty() {
        "-".into()
    } else {
        v.join("|")
    }
}

fn r_sub(st: &Subtable) -> String {
    let seqr = |rs: &Vec<Option<Vec<SeqRule>>>| {
        rs.iter()
            .enumerate()
            .map(|(k, o)| match o {
                None => format!("{}:NULL", k),
                Some(v) => format!("{}:[{}]", k, v.iter().map(|r| format!("in{:?}->{:?}", r.input, r.records)).collect::<Vec<_>>().join("; ")),
            })
            .collect::<Vec<_>>()
            .join(" ")
    };
    let chr = |rs: &Vec<Option<Vec<ChainRule>>>| {
        rs.iter()
            .enumerate()
            .map(|(k, o)| match o {
                None => format!("{}:NULL", k),
                Some(v) => format!("{}:[{}]", k, v.iter().map(|r| format!("back{:?} in{:?} look{:?}->{:?}", r.backtrack, r.input, r.lookahead, r.records)).collect::<Vec<_>>().join("; ")),
            })
            .collect::<Vec<_>>()
            .join(" ")
    };
    let covs = |v: &Vec<Cov>| v.iter().map(r_cov).collect::<Vec<_>>().join(" ");
    match st {
        Subtable::Single1 { cov, delta } => format!("1.1 {} delta {}", r_cov(cov), delta),
        Subtable::Single2 { cov, subst } => format!("1.2 {} -> {:?}", r_cov(cov), subst),
        Subtable::Multiple { cov, seqs } => format!("2 {} -> {:?}", r_cov(cov), seqs),
        Subtable::Alternate { cov, sets } => format!("3 {} -> {:?}", r_cov(cov), sets),
        Subtable::Ligature { cov, sets } => format!(
            "4 {} sets {}",
            r_cov(cov),
            sets.iter().map(|s| format!("[{}]", s.iter().map(|l| format!("+{:?}=>{}", l.components, l.glyph)).collect::<Vec<_>>().join("; "))).collect::<Vec<_>>().join(" ")
        ),
        Subtable::Context1 { cov, rulesets } => format!("5.1 {} rulesets {}", r_cov(cov), seqr(rulesets)),
        Subtable::Context2 { cov, classdef, rulesets } => format!("5.2 {} {} rulesets {}", r_cov(cov), r_cd(classdef), seqr(rulesets)),
        Subtable::Context3 { covs: c, records } => format!("5.3 in[{}] -> {:?}", covs(c), records),
        Subtable::Chain1 { cov, rulesets } => format!("6.1 {} rulesets {}", r_cov(cov), chr(rulesets)),
        Subtable::Chain2 { cov, backtrack_classdef, input_classdef, lookahead_classdef, share_classdefs, rulesets } => format!(
            "6.2 {} back {} in {} look {} shared={} rulesets {}",
            r_cov(cov),
            r_cd(backtrack_classdef),
            r_cd(input_classdef),
            r_cd(lookahead_classdef),
            share_classdefs,
            chr(rulesets)
        ),
        Subtable::Chain3 { backtrack, input, lookahead, records } => format!("6.3 back[{}] in[{}] look[{}] -> {:?}", covs(backtrack), covs(input), covs(lookahead), records),
        Subtable::Reverse { cov, backtrack, lookahead, subst } => format!("8 {} back[{}] look[{}] -> {:?}", r_cov(cov), covs(backtrack), covs(lookahead), subst),
    }
}

/// Compact, complete rendering of the resolved program (goes into failure messages).
pub fn describe(p: &Program) -> String {
    let mut o = String::new();
    o.push_str(&format!("glyphs 1..={}\n", p.n));
    match &p.gdef {
        None => o.push_str("GDEF: none\n"),
        Some(g) => {
            o.push_str(&format!(
                "GDEF: classes {} attach {} sets {}\n",
                g.glyph_classes.as_ref().map(r_cd).unwrap_or("none".into()),
                g.mark_attach_classes.as_ref().map(r_cd).unwrap_or("none".into()),
                g.mark_glyph_sets.as_ref().map(|s| s.iter().map(r_cov).collect::<Vec<_>>().join(" ")).unwrap_or("none".into())
            ));
        }
    }
    for (i, l) in p.gsub.lookups.iter().enumerate() {
        o.push_str(&format!("L{} type {} flags {} ext {:?}\n", i, l.lookup_type, r_flags(&l.flags), l.extension));
        for s in &l.subtables {
            o.push_str(&format!("    {}\n", r_sub(s)));
        }
    }
    for (i, f) in p.gsub.features.iter().enumerate() {
        o.push_str(&format!("F{} {} {:?}\n", i, tag_str(&f.tag), f.lookups));
    }
    for s in &p.gsub.scripts {
        o.push_str(&format!(
            "script {} default {:?} langsys {:?}\n",
            tag_str(&s.tag),
            s.default_langsys.as_ref().map(|l| &l.feature_indices),
            s.langsys.iter().map(|(t, l)| (tag_str(t), l.feature_indices.clone())).collect::<Vec<_>>()
        ));
    }
    if let Some(fv) = &p.gsub.feature_variations {
        o.push_str(&format!("FeatureVariations {:?}\n", fv));
    }
    o
}

// ------------------------------------------------------------------------------ the check

fn fail(sig: &str, msg: String) -> Fail {
    Fail::new(format!("C04:{}", sig), msg)
}

fn tag_u32(t: &[u8; 4]) -> u32 {
    u32::from_be_bytes(*t)
}

fn tag_str(t: &[u8; 4]) -> String {
    String::from_utf8_lossy(t).to_string()
}

fn raw_glyph(gid: u16) -> RawGlyph<()> {
    let ch = char::from_u32(PUA + gid as u32).unwrap();
    RawGlyph {
        unicodes: tiny_vec![[char; 1] => ch],
        glyph_index: gid,
        liga_component_pos: 0,
        glyph_origin: GlyphOrigin::Char(ch),
        flags: RawGlyphFlags::empty(),
        extra_data: (),
        variation: None,
    }
}

#[derive(Clone, Debug, PartialEq)]
struct Obs {
    gid: u16,
    chars: Vec<u32>,
    lig: bool,
    dup: bool,
}

fn observe(glyphs: &[RawGlyph<()>]) -> Vec<Obs> {
    glyphs
        .iter()
        .map(|g| Obs { gid: g.glyph_index, chars: g.unicodes.iter().map(|c| *c as u32).collect(), lig: g.ligature(), dup: g.multi_subst_dup() })
        .collect()
}

fn render(v: &[Obs]) -> String {
    v.iter()
        .map(|o| {
            format!(
                "{}[{}]{}{}",
                o.gid,
                o.chars.iter().map(|c| if *c >= PUA { (c - PUA).to_string() } else { format!("{:?}", char::from_u32(*c).unwrap_or('?')) }).collect::<Vec<_>>().join("+"),
                if o.lig { "L" } else { "" },
                if o.dup { "D" } else { "" }
            )
        })
        .collect::<Vec<_>>()
        .join(" ")
}

fn expected_obs(out: &Outcome) -> Vec<Obs> {
    out.glyphs.iter().map(|g| Obs { gid: g.gid, chars: g.chars.clone(), lig: g.lig, dup: g.dup }).collect()
}

struct Ctxt<'a> {
    p: &'a Program,
    req: &'a Req,
    string: &'a [u16],
}

/// Compare one observed run with the reference outcome.
fn compare(entry: &str, c: &Ctxt<'_>, exp: &Outcome, got: &[Obs]) -> CaseResult {
    let want = expected_obs(exp);
    let ids_equal = want.len() == got.len() && want.iter().zip(got).all(|(a, b)| a.gid == b.gid);
    let describe = || {
        format!(
            "entry {}: string {:?} features {:?} alternate {:?} lang {:?} tuple {:?} lookups applied {:?}\n  expected {}\n  observed {}",
            entry,
            c.string,
            c.req.features.iter().map(tag_str).collect::<Vec<_>>(),
            c.req.alternate,
            c.req.lang.as_ref().map(tag_str),
            c.req.tuple,
            exp.lookups,
            render(&want),
            render(got)
        ) + "\nprogram:\n" + &describe(c.p)
    };
    if !ids_equal {
        // attribution by defect model (DESIGN §3.6)
        let r = request(c.req);
        let input: Vec<RGlyph> = c.string.iter().map(|g| RGlyph::new(*g, PUA + *g as u32)).collect();
        let dev = refgsub::apply_deviant(&c.p.gsub, c.p.gdef.as_ref(), &r, input, Deviation::FilteringSetSkipsNonMarks);
        let devobs = expected_obs(&dev);
        if devobs.len() == got.len() && devobs.iter().zip(got).all(|(a, b)| a.gid == b.gid && a.chars == b.chars) {
            return Err(fail(
                "mark-filtering-set-skips-non-marks",
                format!("a lookup with useMarkFilteringSet skipped glyphs that are not marks (observed output equals the defect model)\n{}", describe()),
            ));
        }
        return Err(fail("glyphs", describe()));
    }
    if want.iter().zip(got).any(|(a, b)| a.chars != b.chars) {
        return Err(fail("unicodes", describe()));
    }
    for (a, b) in want.iter().zip(got) {
        if a.dup != b.dup || (!a.dup && a.lig != b.lig) {
            return Err(fail("flags", describe()));
        }
    }
    Ok(())
}

fn request(r: &Req) -> Request<'_> {
    Request { script: *b"latn", lang: r.lang, features: &r.features, alternate: r.alternate, tuple: r.tuple.as_deref() }
}

fn build_font(p: &Program, gsub_bytes: &[u8], gdef_bytes: Option<&[u8]>, fvar_bytes: Option<&[u8]>) -> Vec<u8> {
    let mut f = BasicFont::with_glyphs(p.n + 1);
    for g in 1..=p.n {
        f.cmap.insert(PUA + g as u32, g);
    }
    f.extra.push((*b"GSUB", gsub_bytes.to_vec()));
    if let Some(g) = gdef_bytes {
        f.extra.push((*b"GDEF", g.to_vec()));
    }
    if let Some(v) = fvar_bytes {
        f.extra.push((*b"fvar", v.to_vec()));
    }
    f.build()
}

pub fn check_case(case: &Case, rec: &mut Rec) -> CaseResult {
    let p = resolve(case);
    let gsub_bytes = match gsub_table(&p.gsub) {
        Ok(b) => b,
        Err(_) => {
            rec.class("excl:offset-overflow");
            return Ok(());
        }
    };
    let gdef_bytes = p.gdef.as_ref().map(gdef_table);
    rec.hash_bytes(&gsub_bytes);
    if let Some(g) = &gdef_bytes {
        rec.hash_bytes(g);
    }
    rec.hash_bytes(format!("{:?}{:?}", p.requests, p.strings).as_bytes());
    rec.artefact("GSUB", &gsub_bytes);
    if let Some(g) = &gdef_bytes {
        rec.artefact("GDEF", g);
    }
    let axis_count = p.gsub.feature_variations.as_ref().map(|f| f.axis_count as usize).unwrap_or(0);
    let fvar_bytes = if axis_count > 0 {
        let axes: Vec<AxisModel> = (0..axis_count)
            .map(|i| AxisModel { tag: [b'a', b'x', b'0', b'0' + i as u8], min: -65536, default: 0, max: 65536, flags: 0, name_id: 256 + i as u16 })
            .collect();
        Some(fvar_table(&axes, &[], 0))
    } else {
        None
    };
    let font_bytes = build_font(&p, &gsub_bytes, gdef_bytes.as_deref(), fvar_bytes.as_deref());
    rec.artefact("font", &font_bytes);

    // entry (a): tables parsed directly
    let table = ReadScope::new(&gsub_bytes).read::<LayoutTable<GSUB>>().map_err(|e| fail("gsub-parse", format!("generated GSUB does not parse: {:?}", e)))?;
    let cache = new_layout_cache(table);
    let gdef_parsed = match &gdef_bytes {
        Some(b) => Some(ReadScope::new(b).read::<GDEFTable>().map_err(|e| fail("gdef-parse", format!("generated GDEF does not parse: {:?}", e)))?),
        None => None,
    };
    let fvar = match &fvar_bytes {
        Some(b) => Some(ReadScope::new(b).read::<FvarTable<'_>>().map_err(|e| fail("fvar-parse", format!("{:?}", e)))?),
        None => None,
    };
    // entry (b)/(c): the complete font
    let fd = ReadScope::new(&font_bytes).read::<FontData<'_>>().map_err(|e| fail("font-read", format!("{:?}", e)))?;
    let new_font = || -> Result<Font<_>, Fail> {
        let prov = fd.table_provider(0).map_err(|e| fail("font-provider", format!("{:?}", e)))?;
        Font::new(prov).map_err(|e| fail("font-new", format!("{:?}", e)))
    };
    let mut font = new_font()?;
    // one Font reused for every Mask request: only *observed* (class note:…), the per-font lookup
    // list cache and its key are the subject of C03
    let mut shared_mask_font = new_font()?;
    let num_glyphs = p.n + 1;

    let mut classes: BTreeSet<String> = BTreeSet::new();
    let mut nontrivial = false;
    let mut evals = 0u64;
    let mut known: Option<Fail> = None;
    let mut sample: Option<String> = None;

    for req in &p.requests {
        let mut req = req.clone();
        // the tuple as allsorts sees it: produced by the documented route (fvar normalisation)
        let owned_tuple = match (&fvar, &req.tuple) {
            (Some(fv), Some(t)) => {
                let ot = fv
                    .normalize(t.iter().map(|v| Fixed::from_raw(*v as i32 * 4)), None)
                    .map_err(|e| fail("tuple-normalize", format!("{:?} for {:?}", e, t)))?;
                let actual: Vec<i16> = ot.iter().map(|v| v.raw_value()).collect();
                if &actual != t {
                    classes.insert("note:tuple-normalisation-inexact".into());
                }
                req.tuple = Some(actual);
                Some(ot)
            }
            _ => {
                req.tuple = None;
                None
            }
        };
        let custom = Features::Custom(req.features.iter().map(|t| FeatureInfo { feature_tag: tag_u32(t), alternate: req.alternate }).collect());
        let lang = req.lang.as_ref().map(tag_u32);
        let mut mask = FeatureMask::empty();
        let mut mask_ok = req.alternate.unwrap_or(0) == 0;
        for t in &req.features {
            let m = FeatureMask::from_tag(tag_u32(t));
            if m.is_empty() {
                mask_ok = false;
            }
            mask |= m;
        }
        let mut mask_font = if mask_ok { Some(new_font()?) } else { None };
        for s in &p.strings {
            let cx = Ctxt { p: &p, req: &req, string: s };
            let input: Vec<RGlyph> = s.iter().map(|g| RGlyph::new(*g, PUA + *g as u32)).collect();
            let exp = refgsub::apply(&p.gsub, p.gdef.as_ref(), &request(&req), input.clone());
            // one open point is handled by accepting either reading instead of excluding
            let mut exp2: Option<Outcome> = None;
            let mut exp = exp;
            if exp.ambiguous.len() == 1 && exp.ambiguous.contains("nested-position-skipped-by-nested-flags") {
                let alt = refgsub::apply_reading(&p.gsub, p.gdef.as_ref(), &request(&req), input.clone(), true);
                if alt.ambiguous.len() == 1 {
                    exp.ambiguous.clear();
                    exp2 = Some(alt);
                    classes.insert("two-readings:nested-position-skipped-by-nested-flags".into());
                }
            }
            let compare_ok = exp.ambiguous.is_empty();
            for a in &exp.ambiguous {
                classes.insert(format!("excl:{}", a));
            }
            if !compare_ok {
                // executed for crashes only — unless the program could grow the run explosively
                let mut bound = s.len().max(1);
                for l in &exp.lookups {
                    bound = bound.saturating_mul(1 + refgsub::growth_bound(&p.gsub, *l, 0));
                }
                if exp.ambiguous.contains("run-longer-than-256") || bound > 4096 {
                    classes.insert("excl:not-executed-run-may-explode".into());
                    classes.insert("excl:any".into());
                    continue;
                }
            }
            let text: String = s.iter().map(|g| char::from_u32(PUA + *g as u32).unwrap()).collect();

            // (a) gsub::apply
            let mut glyphs: Vec<RawGlyph<()>> = s.iter().map(|g| raw_glyph(*g)).collect();
            let r = gsub::apply(0, &cache, gdef_parsed.as_ref(), allsorts::tag::LATN, lang, &custom, owned_tuple.as_ref().map(|t| t.as_tuple()), num_glyphs, &mut glyphs);
            let mut results: Vec<(&str, Vec<Obs>)> = Vec::new();
            match r {
                Ok(()) => results.push(("gsub::apply/Custom", observe(&glyphs))),
                Err(e) => {
                    if compare_ok {
                        return Err(fail("apply-error", format!("gsub::apply returned {:?} for string {:?} features {:?}", e, s, req.features.iter().map(tag_str).collect::<Vec<_>>())));
                    }
                }
            }
            // (b) Font::shape, custom features
            let mapped = font.map_glyphs(&text, allsorts::tag::LATN, MatchingPresentation::NotRequired);
            if mapped.iter().map(|g| g.glyph_index).collect::<Vec<u16>>() != *s {
                return Err(fail("map-glyphs", format!("map_glyphs gave {:?} for {:?}", mapped.iter().map(|g| g.glyph_index).collect::<Vec<u16>>(), s)));
            }
            match font.shape(mapped, allsorts::tag::LATN, lang, &custom, owned_tuple.as_ref().map(|t| t.as_tuple()), true) {
                Ok(infos) => {
                    let g: Vec<RawGlyph<()>> = infos.into_iter().map(|i| i.glyph).collect();
                    results.push(("Font::shape/Custom", observe(&g)));
                }
                Err((e, _)) => {
                    if compare_ok {
                        return Err(fail("shape-error", format!("Font::shape returned {:?} for string {:?}", e, s)));
                    }
                }
            }
            // (c) Font::shape, feature mask (fresh font per request: the per-font lookup cache is C03's subject)
            if let Some(mf) = mask_font.as_mut() {
                let mapped = mf.map_glyphs(&text, allsorts::tag::LATN, MatchingPresentation::NotRequired);
                match mf.shape(mapped, allsorts::tag::LATN, lang, &Features::Mask(mask), owned_tuple.as_ref().map(|t| t.as_tuple()), true) {
                    Ok(infos) => {
                        let g: Vec<RawGlyph<()>> = infos.into_iter().map(|i| i.glyph).collect();
                        results.push(("Font::shape/Mask", observe(&g)));
                    }
                    Err((e, _)) => {
                        if compare_ok {
                            return Err(fail("shape-error", format!("Font::shape(Mask) returned {:?} for string {:?}", e, s)));
                        }
                    }
                }
                classes.insert("entry:mask".into());
                if compare_ok {
                    let mapped = shared_mask_font.map_glyphs(&text, allsorts::tag::LATN, MatchingPresentation::NotRequired);
                    let shared = match shared_mask_font.shape(mapped, allsorts::tag::LATN, lang, &Features::Mask(mask), owned_tuple.as_ref().map(|t| t.as_tuple()), true) {
                        Ok(infos) => Some(observe(&infos.into_iter().map(|i| i.glyph).collect::<Vec<_>>())),
                        Err(_) => None,
                    };
                    if let (Some(sh), Some((_, fresh))) = (shared, results.last()) {
                        if &sh != fresh {
                            classes.insert("note:reused-font-mask-result-differs-from-fresh-font(C03)".into());
                        }
                    }
                }
            }
            if !compare_ok {
                classes.insert("excl:any".into());
                continue;
            }
            for (entry, got) in &results {
                evals += 1;
                let verdict = match compare(entry, &cx, &exp, got) {
                    Err(f) => match &exp2 {
                        Some(alt) if compare(entry, &cx, alt, got).is_ok() => Ok(()),
                        _ => Err(f),
                    },
                    ok => ok,
                };
                if let Err(f) = verdict {
                    if f.sig == "C04:mark-filtering-set-skips-non-marks" {
                        // attributed to a modelled deviation: keep checking the rest of the case
                        known.get_or_insert(f);
                    } else {
                        return Err(f);
                    }
                }
            }
            // classification
            let changed = exp.glyphs.len() != input.len() || exp.glyphs.iter().zip(&input).any(|(a, b)| a != b);
            if changed {
                nontrivial = true;
                if sample.is_none() {
                    sample = Some(format!(
                        "features {:?} lookups {:?} (types {:?}) string {:?} -> {}",
                        req.features.iter().map(tag_str).collect::<Vec<_>>(),
                        exp.lookups,
                        exp.lookups.iter().map(|l| p.gsub.lookups[*l].lookup_type).collect::<Vec<_>>(),
                        s,
                        render(&expected_obs(&exp))
                    ));
                }
            }
            for k in &exp.fired {
                classes.insert(format!("fired:{}", k));
            }
            for k in &exp.skipped {
                classes.insert(format!("skip:{}", k));
            }
            let flags: [(bool, &str); 13] = [
                (exp.class0_first, "class0-first-glyph"),
                (exp.extension_fired, "extension-fired"),
                (exp.nested_fired, "nested-fired"),
                (exp.nested_at_index_gt0, "nested-at-index>0"),
                (exp.nested_depth2, "nested-depth2"),
                (exp.second_subtable, "second-subtable"),
                (exp.second_rule, "second-rule"),
                (exp.feature_variation_substituted, "feature-variation-substituted"),
                (exp.fallback_dflt_script, "script-fallback-DFLT"),
                (exp.named_langsys, "named-langsys"),
                (exp.no_langsys, "no-langsys"),
                (exp.length_changed_in_context, "length-change-in-context"),
                (exp.glyphs.iter().any(|g| g.chars.len() >= 3), "ligature-of-3+chars"),
            ];
            for (b, name) in flags {
                if b {
                    classes.insert(name.to_string());
                }
            }
            if exp.lookups.len() >= 3 {
                classes.insert("lookups>=3".into());
            }
            if exp.lookups.iter().any(|l| matches!(p.gsub.lookups[*l].lookup_type, 5 | 6) && refgsub::has_records(&p.gsub, *l)) {
                classes.insert("potential:context-with-records-enabled".into());
            }
            if exp.fired.iter().any(|k| k.starts_with('5') || k.starts_with('6')) {
                classes.insert("context-rule-matched".into());
            }
            if exp.glyphs.iter().any(|g| g.dup) {
                classes.insert("multiple-dup".into());
            }
        }
    }
    if p.unordered_rules > 0 {
        classes.insert("records-in-generated-order".into());
    }
    if p.gdef.is_none() {
        classes.insert("no-gdef".into());
    }
    for c in classes.iter().take(60) {
        rec.class(c);
    }
    rec.evaluations(evals.saturating_sub(1));
    rec.set_nontrivial(nontrivial);
    if let Some(s) = sample {
        rec.sample(|| s);
    }
    match known {
        Some(f) => Err(f),
        None => Ok(()),
    }
}

// ------------------------------------------------------------------------------ FRAC slices
//
// `Features::Mask` with `FeatureMask::FRAC` is the one place where allsorts itself decides *where*
// a feature applies: each `digits / digits` sequence of the run is shaped with every requested
// feature including `frac`, the text between the fractions with the requested features minus
// `frac` (gsub_apply_lookups_frac). With lookups of types 1-3 only (one input glyph, no context)
// the outcome of a slice does not depend on its neighbours, so the expected run is the
// concatenation of the reference interpreter's outcomes per slice. Texts are built so that the
// slicing is not in question: every '/' has digits on both sides and two fractions never touch.

const FRAC_TAGS: [[u8; 4]; 8] = [*b"liga", *b"ccmp", *b"calt", *b"clig", *b"locl", *b"rlig", *b"dlig", *b"smcp"];

fn check_frac_case(case: &Case, rec: &mut Rec) -> CaseResult {
    let mut p = resolve(case);
    if p.gsub.features.is_empty() || p.gsub.features.len() > FRAC_TAGS.len() {
        rec.class("frac:excl:no-features");
        return Ok(());
    }
    // context-free lookups only; no feature variations; tags expressible as a mask
    let context_free: Vec<bool> = p.gsub.lookups.iter().map(|l| matches!(l.lookup_type, 1 | 2 | 3)).collect();
    for f in p.gsub.features.iter_mut() {
        f.lookups.retain(|l| context_free.get(*l as usize).copied().unwrap_or(false));
    }
    p.gsub.feature_variations = None;
    let mut rng = Rng(mix64(case.requests.len() as u64 ^ 0xf4ac ^ p.strings.iter().flatten().fold(7u64, |a, g| mix64(a ^ *g as u64))));
    let frac_feature = rng.below(p.gsub.features.len());
    for (i, f) in p.gsub.features.iter_mut().enumerate() {
        f.tag = if i == frac_feature { *b"frac" } else { FRAC_TAGS[i] };
    }
    let gsub_bytes = match gsub_table(&p.gsub) {
        Ok(b) => b,
        Err(_) => {
            rec.class("excl:offset-overflow");
            return Ok(());
        }
    };
    let gdef_bytes = p.gdef.as_ref().map(gdef_table);
    rec.hash_bytes(&gsub_bytes);
    rec.hash_bytes(format!("{:?}", p.strings).as_bytes());
    rec.artefact("GSUB", &gsub_bytes);
    // the font: PUA letters as in `build_font`, plus the ASCII digits and the slash
    let n = p.n;
    let digit_gid = |d: u32| 1 + ((d as u16 * 7 + 3) % n);
    let slash_gid = 1 + (5 % n);
    let mut f = BasicFont::with_glyphs(n + 1);
    for g in 1..=n {
        f.cmap.insert(PUA + g as u32, g);
    }
    for d in 0..10u32 {
        f.cmap.insert('0' as u32 + d, digit_gid(d));
    }
    f.cmap.insert('/' as u32, slash_gid);
    f.extra.push((*b"GSUB", gsub_bytes.clone()));
    if let Some(g) = &gdef_bytes {
        f.extra.push((*b"GDEF", g.clone()));
    }
    let font_bytes = f.build();
    rec.artefact("font", &font_bytes);
    let fd = ReadScope::new(&font_bytes).read::<FontData<'_>>().map_err(|e| fail("font-read", format!("{:?}", e)))?;

    let mut nontrivial = false;
    let mut evals = 0u64;
    for (si, s) in p.strings.iter().enumerate() {
        // tokens: letters* fraction letters+ fraction? letters*
        let mut toks: Vec<(bool, Vec<(u16, u32)>)> = Vec::new();
        let fraction = |rng: &mut Rng| -> Vec<(u16, u32)> {
            let mut v = Vec::new();
            for part in 0..2 {
                for _ in 0..1 + rng.below(3) {
                    let d = rng.below(10) as u32;
                    v.push((digit_gid(d), '0' as u32 + d));
                }
                if part == 0 {
                    v.push((slash_gid, '/' as u32));
                }
            }
            v
        };
        let letters = |gs: &[u16]| -> Vec<(u16, u32)> { gs.iter().map(|g| (*g, PUA + *g as u32)).collect() };
        let a = rng.below(s.len() + 1);
        if a > 0 {
            toks.push((false, letters(&s[..a])));
        }
        toks.push((true, fraction(&mut rng)));
        let rest = &s[a..];
        if rest.len() >= 2 && rng.below(2) == 0 {
            let b = 1 + rng.below(rest.len() - 1);
            toks.push((false, letters(&rest[..b])));
            toks.push((true, fraction(&mut rng)));
            if b < rest.len() {
                toks.push((false, letters(&rest[b..])));
            }
        } else if !rest.is_empty() {
            toks.push((false, letters(rest)));
        }
        let text: String = toks.iter().flat_map(|t| t.1.iter()).map(|g| char::from_u32(g.1).unwrap()).collect();
        for req in p.requests.iter().take(2) {
            // the request: its features that exist under the new tags, plus frac
            let mut with: Vec<[u8; 4]> = Vec::new();
            for (i, ft) in p.gsub.features.iter().enumerate() {
                let wanted = i == frac_feature || req.features.iter().any(|t| TAGS.iter().position(|x| x == t).map_or(false, |k| k % p.gsub.features.len() == i));
                if wanted && !with.contains(&ft.tag) {
                    with.push(ft.tag);
                }
            }
            let without: Vec<[u8; 4]> = with.iter().copied().filter(|t| t != b"frac").collect();
            let mut mask = FeatureMask::empty();
            for t in &with {
                mask |= FeatureMask::from_tag(tag_u32(t));
            }
            let lang = req.lang.as_ref().map(tag_u32);
            // expected: per slice
            let mut expected: Vec<RGlyph> = Vec::new();
            let mut open = false;
            let mut prefix_changed = false;
            let mut frac_fired = false;
            let mut seen_fraction_after_changed_prefix = false;
            for (is_frac, glyphs) in &toks {
                let input: Vec<RGlyph> = glyphs.iter().map(|g| RGlyph::new(g.0, g.1)).collect();
                let feats = if *is_frac { &with } else { &without };
                let r = Request { script: *b"latn", lang: req.lang, features: feats, alternate: None, tuple: None };
                let out = refgsub::apply(&p.gsub, p.gdef.as_ref(), &r, input.clone());
                if !out.ambiguous.is_empty() {
                    open = true;
                    break;
                }
                if *is_frac {
                    let r2 = Request { script: *b"latn", lang: req.lang, features: &without, alternate: None, tuple: None };
                    let plain = refgsub::apply(&p.gsub, p.gdef.as_ref(), &r2, input.clone());
                    if plain.glyphs != out.glyphs {
                        frac_fired = true;
                        seen_fraction_after_changed_prefix |= prefix_changed;
                    }
                } else if out.glyphs.len() != input.len() {
                    prefix_changed = true;
                }
                expected.extend(out.glyphs);
            }
            if open || expected.len() > 256 {
                rec.class("frac:excl:open-point-or-long-run");
                continue;
            }
            let prov = fd.table_provider(0).map_err(|e| fail("font-provider", format!("{:?}", e)))?;
            let mut font = Font::new(prov).map_err(|e| fail("font-new", format!("{:?}", e)))?;
            let mapped = font.map_glyphs(&text, allsorts::tag::LATN, MatchingPresentation::NotRequired);
            let want_ids: Vec<u16> = toks.iter().flat_map(|t| t.1.iter()).map(|g| g.0).collect();
            if mapped.iter().map(|g| g.glyph_index).collect::<Vec<u16>>() != want_ids {
                return Err(fail("map-glyphs", format!("map_glyphs gave {:?} for {:?}", mapped.iter().map(|g| g.glyph_index).collect::<Vec<u16>>(), text)));
            }
            let got = match font.shape(mapped, allsorts::tag::LATN, lang, &Features::Mask(mask), None, true) {
                Ok(infos) => observe(&infos.into_iter().map(|i| i.glyph).collect::<Vec<_>>()),
                Err((e, _)) => return Err(fail("frac-shape-error", format!("Font::shape(Mask with FRAC) returned {:?} for text {:?}", e, text))),
            };
            evals += 1;
            let exp = Outcome { glyphs: expected, ..Default::default() };
            let want = expected_obs(&exp);
            let same = want.len() == got.len() && want.iter().zip(&got).all(|(a, b)| a.gid == b.gid && a.chars == b.chars && a.dup == b.dup);
            if !same {
                return Err(fail(
                    "frac-slices",
                    format!(
                        "Font::shape with Features::Mask({:?}) on text {:?} (string {} of the case; slices {:?}): fractions are shaped with {:?}, the text between them with {:?}\n  expected {}\n  observed {}\nprogram:\n{}",
                        mask,
                        text,
                        si,
                        toks.iter().map(|t| (if t.0 { "fraction" } else { "text" }, t.1.len())).collect::<Vec<_>>(),
                        with.iter().map(tag_str).collect::<Vec<_>>(),
                        without.iter().map(tag_str).collect::<Vec<_>>(),
                        render(&want),
                        render(&got),
                        describe(&p)
                    ),
                ));
            }
            if frac_fired {
                nontrivial = true;
                rec.class("frac:fired-in-a-fraction");
            }
            rec.class_if(prefix_changed, "frac:text-slice-changed-length");
            rec.class_if(seen_fraction_after_changed_prefix, "frac:fraction-after-a-slice-that-changed-length");
            rec.class_if(toks.iter().filter(|t| t.0).count() >= 2, "frac:two-fractions");
        }
    }
    rec.evaluations(evals.saturating_sub(1));
    rec.set_nontrivial(nontrivial);
    Ok(())
}

impl Property for C04 {
    fn id(&self) -> &'static str {
        "C04"
    }
    fn rule(&self) -> String {
        "proptest generates a raw GSUB program (24-63 glyphs with GDEF glyph classes / mark attachment classes / mark glyph sets; 1-6 lookups of types 1.1 1.2 2 3 4 5.1-5.3 6.1-6.3 8 with 1-3 subtables, \
         lookup flags incl. mark attachment type and mark filtering set, optional Extension wrapping, coverage and classdef formats 1/2 chosen per table, nested sequence-lookup records up to depth 2; \
         1-4 features with neutral tags; DFLT/latn/grek scripts with default and TRK LangSys; optional FeatureVariations) which is normalised into a valid model and encoded by my own GSUB/GDEF/fvar encoders; \
         4-8 glyph strings (0-16 glyphs, witnesses of the program's rules with skippable glyphs interleaved, plus random glyphs) are shaped for 1-2 requests (feature subset, alternate index, language, tuple) through \
         gsub::apply(Custom) on the parsed tables, Font::shape(Custom) and, when every tag is mask-expressible, Font::shape(Mask) on a complete font; glyph ids, per-glyph unicodes and LIGATURE/MULTI_SUBST_DUP flags \
         are compared with an independent interpreter of the OpenType GSUB semantics run on the model. Evaluations whose outcome the specification leaves open (classes excl:*) are executed but not compared. \
         Non-trivial = the reference output differs from the input for at least one compared (request, string); distinct by hash of GSUB+GDEF bytes, requests and strings. \
         Section `frac-slices`: the same programs reduced to their type 1-3 lookups, one feature tagged `frac`, the others with mask-expressible tags; texts of PUA letters with one or two `digits/digits` fractions; \
         Font::shape(Features::Mask(.. | FRAC)) must equal the concatenation of the reference outcomes per slice (fractions: all requested features, text between: the features minus frac); non-trivial = frac changed a fraction."
            .to_string()
    }
    fn assumptions(&self) -> Vec<String> {
        vec![
            "the reference interpreter (refmodel::otl_gsub) is a correct reading of the OpenType specification; it was written from the specification text and shares no code with allsorts".into(),
            "requiredFeatureIndex is 0xFFFF, a feature tag occurs at most once per LangSys, one alternate index per request (soundness exclusions, DESIGN C04 X)".into(),
            "not compared (counted as excl:*): sequence index after a length change when re-counting disagrees, nested lookup whose own flags skip the glyph at its position, nested lookup consuming glyphs beyond the matched input, nested type 3 with an explicit alternate index, alternate index out of range".into(),
            "reverse chaining lookups are never invoked from sequence lookup records".into(),
            "Features::Mask is exercised on a fresh Font per request because the per-font lookup list cache is the subject of C03".into(),
            "frac-slices: where FeatureMask::FRAC applies is allsorts policy (gsub_apply_lookups_frac: each digits/digits sequence gets all features, the rest the features minus frac); the check only uses texts whose slicing is unambiguous (every slash between digits, fractions never adjacent) and context-free lookups, for which the per-slice outcome is prescribed by the specification".into(),
        ]
    }
    fn run(&self, ctx: &mut Ctx) {
        let n = ctx.cases(150_000, 3_000_000);
        ctx.section("programs", n, case_strategy(), |c, rec| check_case(c, rec));
        let n = ctx.cases(20_000, 400_000);
        ctx.section("frac-slices", n, case_strategy(), |c, rec| check_frac_case(c, rec));
    }
}
