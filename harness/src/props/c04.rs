//! C04 — not built yet.
use crate::engine::{Ctx, Property};

pub struct C04;

impl Property for C04 {
    fn id(&self) -> &'static str {
        "C04"
    }
    fn rule(&self) -> String {
        "not implemented".to_string()
    }
    fn run(&self, _ctx: &mut Ctx) {}
}
