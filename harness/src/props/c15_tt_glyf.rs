// (included into c15_tt.rs) glyphs and glyf+loca

#[derive(Clone, Debug, PartialEq)]
pub struct SimpleM {
    bbox: [i16; 4],
    /// contour sizes (each ≥ 1)
    contours: Vec<u16>,
    instr: Vec<u8>,
    pts: Vec<(i16, i16, bool)>,
    /// seed of the byte encoder's choices: per point one of the equivalent encodings of its delta
    /// (same-flag / short vector, also for 0 / int16), bit 31 repeat flags (runs split at
    /// pseudo-random places, single flags with repeat count 0), bit 30 OVERLAP_SIMPLE on the first
    /// flag, bit 29 the reserved flag bit 0x80 on some points
    enc: u32,
}

#[derive(Clone, Debug, PartialEq)]
pub enum ArgM {
    U8(u8, u8),
    I8(i8, i8),
    U16(u16, u16),
    I16(i16, i16),
}

#[derive(Clone, Debug, PartialEq)]
pub enum ScaleM {
    None,
    One(i16),
    XY(i16, i16),
    Matrix([i16; 4]),
}

#[derive(Clone, Debug, PartialEq)]
pub struct CompPartM {
    gid: u16,
    args: ArgM,
    scale: ScaleM,
    /// ROUND_XY_TO_GRID, USE_MY_METRICS, OVERLAP_COMPOUND, SCALED/UNSCALED_COMPONENT_OFFSET
    extra: u16,
    /// WE_HAVE_INSTRUCTIONS on this component (the reader takes the flag from *any* component)
    instr: bool,
    /// reserved flag bits (0xE010) my byte encoder puts on this component; readers ignore them
    reserved: u16,
}

#[derive(Clone, Debug, PartialEq)]
pub struct CompM {
    bbox: [i16; 4],
    parts: Vec<CompPartM>,
    /// instruction bytes; present in the encoding iff some component carries WE_HAVE_INSTRUCTIONS
    /// (a model without any flag has no instructions)
    instr: Vec<u8>,
}

#[derive(Clone, Debug, PartialEq)]
pub enum GlyphM {
    Empty,
    Simple(SimpleM),
    Composite(CompM),
}

const EXTRA_MASK: u16 = 0x0004 | 0x0200 | 0x0400 | 0x0800 | 0x1000;

fn ends_of(contours: &[u16]) -> Vec<u16> {
    let mut e = Vec::new();
    let mut n = 0u32;
    for c in contours {
        n += *c as u32;
        e.push((n - 1) as u16);
    }
    e
}

/// plain long form: flags carry ON_CURVE only, every delta is an int16
fn enc_simple_long(m: &SimpleM) -> Vec<u8> {
    let mut b = Buf::new();
    b.i16(m.contours.len() as i16).i16(m.bbox[0]).i16(m.bbox[1]).i16(m.bbox[2]).i16(m.bbox[3]);
    for e in ends_of(&m.contours) {
        b.u16(e);
    }
    b.u16(m.instr.len() as u16).bytes(&m.instr);
    for p in &m.pts {
        b.u8(p.2 as u8);
    }
    let mut prev = 0i32;
    for p in &m.pts {
        b.i16((p.0 as i32 - prev) as i16);
        prev = p.0 as i32;
    }
    prev = 0;
    for p in &m.pts {
        b.i16((p.1 as i32 - prev) as i16);
        prev = p.1 as i32;
    }
    b.into_vec()
}

/// compact form: short vectors, "same" flags and repeat counts wherever `enc` allows
fn enc_simple_compact(m: &SimpleM) -> Vec<u8> {
    let mut b = Buf::new();
    b.i16(m.contours.len() as i16).i16(m.bbox[0]).i16(m.bbox[1]).i16(m.bbox[2]).i16(m.bbox[3]);
    for e in ends_of(&m.contours) {
        b.u16(e);
    }
    b.u16(m.instr.len() as u16).bytes(&m.instr);
    let mut flags = Vec::new();
    let mut xs = Buf::new();
    let mut ys = Buf::new();
    let (mut px, mut py) = (0i32, 0i32);
    let pick = |k: usize, salt: u64| crate::engine::util::mix64((m.enc as u64) << 20 ^ (k as u64) << 2 ^ salt);
    for (k, p) in m.pts.iter().enumerate() {
        let mut f = p.2 as u8;
        if k == 0 && (m.enc >> 30) & 1 == 1 {
            f |= 0x40; // OVERLAP_SIMPLE
        }
        if (m.enc >> 29) & 1 == 1 && pick(k, 3) % 5 == 0 {
            f |= 0x80; // reserved
        }
        let dx = p.0 as i32 - px;
        let dy = p.1 as i32 - py;
        px = p.0 as i32;
        py = p.1 as i32;
        // every delta has up to three equivalent encodings: "same" flag (0 only), short vector
        // (|d| ≤ 255, 0 with either sign), int16
        let cx = pick(k, 1) % 4;
        if dx == 0 && cx < 2 {
            f |= 0x10;
        } else if dx.abs() <= 255 && cx < 3 {
            f |= 0x02 | if dx > 0 || (dx == 0 && pick(k, 5) % 2 == 0) { 0x10 } else { 0 };
            xs.u8(dx.unsigned_abs() as u8);
        } else {
            xs.i16(dx as i16);
        }
        let cy = pick(k, 2) % 4;
        if dy == 0 && cy < 2 {
            f |= 0x20;
        } else if dy.abs() <= 255 && cy < 3 {
            f |= 0x04 | if dy > 0 || (dy == 0 && pick(k, 6) % 2 == 0) { 0x20 } else { 0 };
            ys.u8(dy.unsigned_abs() as u8);
        } else {
            ys.i16(dy as i16);
        }
        flags.push(f);
    }
    if (m.enc >> 31) & 1 == 1 {
        let mut i = 0;
        while i < flags.len() {
            // runs need not be maximal, and a single flag may carry a repeat count of 0
            let limit = 1 + (pick(i, 7) % 6) as usize * (1 + (pick(i, 8) % 60) as usize);
            let mut run = 1;
            while i + run < flags.len() && flags[i + run] == flags[i] && run < 256 && run < limit {
                run += 1;
            }
            if run > 1 || pick(i, 9) % 4 == 0 {
                b.u8(flags[i] | 0x08).u8((run - 1) as u8);
            } else {
                b.u8(flags[i]);
            }
            i += run;
        }
    } else {
        b.bytes(&flags);
    }
    b.bytes(&xs.0).bytes(&ys.0);
    b.into_vec()
}

fn enc_composite(m: &CompM, with_reserved: bool) -> Vec<u8> {
    let mut b = Buf::new();
    b.i16(-1).i16(m.bbox[0]).i16(m.bbox[1]).i16(m.bbox[2]).i16(m.bbox[3]);
    for (i, p) in m.parts.iter().enumerate() {
        b.u16(part_flags(m, i) | if with_reserved { p.reserved & 0xE010 } else { 0 }).u16(p.gid);
        match p.args {
            ArgM::U8(a, c) => b.u8(a).u8(c),
            ArgM::I8(a, c) => b.i8(a).i8(c),
            ArgM::U16(a, c) => b.u16(a).u16(c),
            ArgM::I16(a, c) => b.i16(a).i16(c),
        };
        match p.scale {
            ScaleM::None => {}
            ScaleM::One(s) => {
                b.i16(s);
            }
            ScaleM::XY(x, y) => {
                b.i16(x).i16(y);
            }
            ScaleM::Matrix(q) => {
                b.i16(q[0]).i16(q[1]).i16(q[2]).i16(q[3]);
            }
        }
    }
    if m.parts.iter().any(|p| p.instr) {
        b.u16(m.instr.len() as u16).bytes(&m.instr);
    }
    b.into_vec()
}

fn part_flags(m: &CompM, i: usize) -> u16 {
    let p = &m.parts[i];
    let mut f = p.extra & EXTRA_MASK;
    f |= match p.args {
        ArgM::U8(..) => 0,
        ArgM::I8(..) => 0x0002,
        ArgM::U16(..) => 0x0001,
        ArgM::I16(..) => 0x0003,
    };
    f |= match p.scale {
        ScaleM::None => 0,
        ScaleM::One(_) => 0x0008,
        ScaleM::XY(..) => 0x0040,
        ScaleM::Matrix(_) => 0x0080,
    };
    if i + 1 < m.parts.len() {
        f |= 0x0020;
    }
    if p.instr {
        f |= 0x0100;
    }
    f
}

fn enc_glyph(m: &GlyphM) -> Vec<u8> {
    match m {
        GlyphM::Empty => Vec::new(),
        GlyphM::Simple(s) => enc_simple_compact(s),
        GlyphM::Composite(c) => enc_composite(c, true),
    }
}

/// my glyph reader (OpenType glyf spec); coordinates accumulate in i32. The result is a model
/// with `enc`/`reserved` zeroed so that it can be compared with `normal(model)`.
pub(crate) fn dec_glyph(d: &[u8]) -> Result<GlyphM, String> {
    if d.is_empty() {
        return Ok(GlyphM::Empty);
    }
    let mut p = 0usize;
    let mut take = |n: usize| -> Result<&[u8], String> {
        let s = d.get(p..p + n).ok_or_else(|| format!("glyph data ends at {} (wanted {} bytes at {})", d.len(), n, p))?;
        p += n;
        Ok(s)
    };
    let r16 = |s: &[u8]| i16::from_be_bytes([s[0], s[1]]);
    let nc = r16(take(2)?);
    let bbox = [r16(take(2)?), r16(take(2)?), r16(take(2)?), r16(take(2)?)];
    if nc >= 0 {
        let mut ends = Vec::new();
        for _ in 0..nc {
            ends.push(r16(take(2)?) as u16);
        }
        let il = r16(take(2)?) as u16 as usize;
        let instr = take(il)?.to_vec();
        let npts = ends.last().map_or(0, |e| *e as usize + 1);
        let mut flags = Vec::with_capacity(npts);
        while flags.len() < npts {
            let f = take(1)?[0];
            flags.push(f);
            if f & 0x08 != 0 {
                let r = take(1)?[0];
                for _ in 0..r {
                    flags.push(f);
                }
            }
        }
        if flags.len() != npts {
            return Err(format!("repeat count overruns the point count ({} flags for {} points)", flags.len(), npts));
        }
        let mut xs = Vec::with_capacity(npts);
        let mut x = 0i32;
        for f in &flags {
            if f & 0x02 != 0 {
                let v = take(1)?[0] as i32;
                x += if f & 0x10 != 0 { v } else { -v };
            } else if f & 0x10 == 0 {
                x += r16(take(2)?) as i32;
            }
            xs.push(x);
        }
        let mut y = 0i32;
        let mut pts = Vec::with_capacity(npts);
        for (k, f) in flags.iter().enumerate() {
            if f & 0x04 != 0 {
                let v = take(1)?[0] as i32;
                y += if f & 0x20 != 0 { v } else { -v };
            } else if f & 0x20 == 0 {
                y += r16(take(2)?) as i32;
            }
            let (xi, yi) = (i16::try_from(xs[k]).map_err(|_| format!("point {} x = {} leaves int16", k, xs[k]))?, i16::try_from(y).map_err(|_| format!("point {} y = {} leaves int16", k, y))?);
            pts.push((xi, yi, f & 1 != 0));
        }
        let mut contours = Vec::new();
        let mut prev: i64 = -1;
        for e in &ends {
            if (*e as i64) <= prev {
                return Err(format!("endPtsOfContours not increasing: {:?}", ends));
            }
            contours.push((*e as i64 - prev) as u16);
            prev = *e as i64;
        }
        Ok(GlyphM::Simple(SimpleM { bbox, contours, instr, pts, enc: 0 }))
    } else {
        let mut parts = Vec::new();
        // allsorts' reader takes WE_HAVE_INSTRUCTIONS from any component (the OpenType text only
        // says the instructions follow the last component); my reader does the same
        let mut instr_flag = false;
        loop {
            let f = r16(take(2)?) as u16;
            let gid = r16(take(2)?) as u16;
            let args = match f & 3 {
                0 => {
                    let s = take(2)?;
                    ArgM::U8(s[0], s[1])
                }
                2 => {
                    let s = take(2)?;
                    ArgM::I8(s[0] as i8, s[1] as i8)
                }
                1 => ArgM::U16(r16(take(2)?) as u16, r16(take(2)?) as u16),
                _ => ArgM::I16(r16(take(2)?), r16(take(2)?)),
            };
            let scale = if f & 0x08 != 0 {
                ScaleM::One(r16(take(2)?))
            } else if f & 0x40 != 0 {
                ScaleM::XY(r16(take(2)?), r16(take(2)?))
            } else if f & 0x80 != 0 {
                ScaleM::Matrix([r16(take(2)?), r16(take(2)?), r16(take(2)?), r16(take(2)?)])
            } else {
                ScaleM::None
            };
            parts.push(CompPartM { gid, args, scale, extra: f & EXTRA_MASK, instr: f & 0x0100 != 0, reserved: 0 });
            instr_flag |= f & 0x0100 != 0;
            if f & 0x20 == 0 {
                break;
            }
        }
        let instr = if instr_flag {
            let il = r16(take(2)?) as u16 as usize;
            take(il)?.to_vec()
        } else {
            Vec::new()
        };
        Ok(GlyphM::Composite(CompM { bbox, parts, instr }))
    }
}

fn normal(m: &GlyphM) -> GlyphM {
    match m {
        GlyphM::Empty => GlyphM::Empty,
        GlyphM::Simple(s) => GlyphM::Simple(SimpleM { enc: 0, ..s.clone() }),
        GlyphM::Composite(c) => GlyphM::Composite(CompM { parts: c.parts.iter().map(|p| CompPartM { reserved: 0, ..p.clone() }).collect(), ..c.clone() }),
    }
}

fn bbox_of(b: [i16; 4]) -> BoundingBox {
    BoundingBox { x_min: b[0], y_min: b[1], x_max: b[2], y_max: b[3] }
}

/// the allsorts value of a model glyph (flags: ON_CURVE only; composite flags per the fields)
fn glyph_value<'a>(m: &'a GlyphM) -> Glyph<'a> {
    match m {
        GlyphM::Empty => Glyph::Empty(allsorts::tables::glyf::EmptyGlyph::new()),
        GlyphM::Simple(s) => Glyph::Simple(SimpleGlyph {
            bounding_box: bbox_of(s.bbox),
            end_pts_of_contours: ends_of(&s.contours),
            instructions: &s.instr,
            coordinates: s.pts.iter().map(|p| (if p.2 { SimpleGlyphFlag::ON_CURVE_POINT } else { SimpleGlyphFlag::empty() }, Point(p.0, p.1))).collect(),
            phantom_points: None,
        }),
        GlyphM::Composite(c) => Glyph::Composite(CompositeGlyph {
            bounding_box: bbox_of(c.bbox),
            glyphs: c
                .parts
                .iter()
                .enumerate()
                .map(|(i, p)| {
                    let (a1, a2) = match p.args {
                        ArgM::U8(a, b) => (CompositeGlyphArgument::U8(a), CompositeGlyphArgument::U8(b)),
                        ArgM::I8(a, b) => (CompositeGlyphArgument::I8(a), CompositeGlyphArgument::I8(b)),
                        ArgM::U16(a, b) => (CompositeGlyphArgument::U16(a), CompositeGlyphArgument::U16(b)),
                        ArgM::I16(a, b) => (CompositeGlyphArgument::I16(a), CompositeGlyphArgument::I16(b)),
                    };
                    let f = F2Dot14::from_raw;
                    CompositeGlyphComponent {
                        flags: CompositeGlyphFlag::from_bits_truncate(part_flags(c, i)),
                        glyph_index: p.gid,
                        argument1: a1,
                        argument2: a2,
                        scale: match p.scale {
                            ScaleM::None => None,
                            ScaleM::One(s) => Some(CompositeGlyphScale::Scale(f(s))),
                            ScaleM::XY(x, y) => Some(CompositeGlyphScale::XY { x_scale: f(x), y_scale: f(y) }),
                            ScaleM::Matrix(q) => Some(CompositeGlyphScale::Matrix([[f(q[0]), f(q[1])], [f(q[2]), f(q[3])]])),
                        },
                    }
                })
                .collect(),
            instructions: &c.instr,
            phantom_points: None,
        }),
    }
}

/// model of an allsorts glyph, seen through its public fields (flags reduced to ON_CURVE)
fn model_of(g: &Glyph<'_>) -> Result<GlyphM, String> {
    Ok(match g {
        Glyph::Empty(_) => GlyphM::Empty,
        Glyph::Simple(s) => {
            let b = s.bounding_box;
            let mut contours = Vec::new();
            let mut prev: i64 = -1;
            for e in &s.end_pts_of_contours {
                if (*e as i64) <= prev {
                    return Err(format!("end points not increasing {:?}", s.end_pts_of_contours));
                }
                contours.push((*e as i64 - prev) as u16);
                prev = *e as i64;
            }
            GlyphM::Simple(SimpleM {
                bbox: [b.x_min, b.y_min, b.x_max, b.y_max],
                contours,
                instr: s.instructions.to_vec(),
                pts: s.coordinates.iter().map(|(f, p)| (p.0, p.1, f.is_on_curve())).collect(),
                enc: 0,
            })
        }
        Glyph::Composite(c) => {
            let b = c.bounding_box;
            let mut parts = Vec::new();
            let mut has_instr = false;
            for p in &c.glyphs {
                let args = match (p.argument1, p.argument2) {
                    (CompositeGlyphArgument::U8(a), CompositeGlyphArgument::U8(b)) => ArgM::U8(a, b),
                    (CompositeGlyphArgument::I8(a), CompositeGlyphArgument::I8(b)) => ArgM::I8(a, b),
                    (CompositeGlyphArgument::U16(a), CompositeGlyphArgument::U16(b)) => ArgM::U16(a, b),
                    (CompositeGlyphArgument::I16(a), CompositeGlyphArgument::I16(b)) => ArgM::I16(a, b),
                    other => return Err(format!("mixed argument kinds {:?}", other)),
                };
                let scale = match p.scale {
                    None => ScaleM::None,
                    Some(CompositeGlyphScale::Scale(s)) => ScaleM::One(s.raw_value()),
                    Some(CompositeGlyphScale::XY { x_scale, y_scale }) => ScaleM::XY(x_scale.raw_value(), y_scale.raw_value()),
                    Some(CompositeGlyphScale::Matrix(q)) => ScaleM::Matrix([q[0][0].raw_value(), q[0][1].raw_value(), q[1][0].raw_value(), q[1][1].raw_value()]),
                };
                has_instr |= p.flags.bits() & 0x0100 != 0;
                parts.push(CompPartM { gid: p.glyph_index, args, scale, extra: p.flags.bits() & EXTRA_MASK, instr: p.flags.bits() & 0x0100 != 0, reserved: 0 });
            }
            if !has_instr && !c.instructions.is_empty() {
                return Err(format!("{} instruction bytes without WE_HAVE_INSTRUCTIONS on any component", c.instructions.len()));
            }
            GlyphM::Composite(CompM { bbox: [b.x_min, b.y_min, b.x_max, b.y_max], parts, instr: c.instructions.to_vec() })
        }
    })
}

fn glyph_same(a: &Glyph<'_>, b: &Glyph<'_>) -> Result<(), String> {
    let (ma, mb) = (model_of(a)?, model_of(b)?);
    if ma == mb {
        Ok(())
    } else {
        Err(format!("{:?} vs {:?}", ma, mb))
    }
}

fn check_glyph(m: &GlyphM, rec: &mut Rec) -> CaseResult {
    let want = normal(m);
    // (a) value → writer → my decoder, and → reader
    let v = glyph_value(m);
    let written = wb::<Glyph<'_>, _>(v.clone()).map_err(|e| fail("glyph:write", format!("{:?} for {:?}", e, m)))?;
    let dec = dec_glyph(&written).map_err(|e| fail("glyph:written-undecodable", format!("{} — model {:?}; written {}", e, m, hexs(&written))))?;
    if dec != want {
        return Err(fail("glyph:written-differs", format!("decoded {:?}, model {:?}", dec, want)));
    }
    match m {
        GlyphM::Composite(c) => {
            let e = enc_composite(c, false);
            if written != e {
                return Err(fail("glyph:composite-bytes", diff(&written, &e)));
            }
        }
        GlyphM::Simple(s) => {
            // documented: no compaction is attempted; if this ever changes the decoder check above still holds
            rec.class_if(written == enc_simple_long(s), "glyph:written-in-long-form");
        }
        GlyphM::Empty => {}
    }
    if !written.is_empty() {
        let back = ReadScope::new(&written).read::<Glyph<'_>>().map_err(|e| fail("glyph:read-back", format!("{:?}; written {}", e, hexs(&written))))?;
        if back != v {
            return Err(fail("glyph:value", format!("wrote {:?} read {:?}", v, back)));
        }
    }
    // (b) my compact encoding → reader → model; → writer → reader → writer
    let raw = enc_glyph(m);
    if !raw.is_empty() {
        let g2 = stable!(
            "glyph",
            &raw,
            |d| ReadScope::new(d).read::<Glyph<'_>>(),
            |g| wb::<Glyph<'_>, _>(g.clone()),
            |a, b| model_of(a).and_then(|ma| if ma == want { Ok(()) } else { Err(format!("read {:?}, model {:?}", ma, want)) }).and_then(|_| glyph_same(a, b))
        );
        let dec = dec_glyph(&g2).map_err(|e| fail("glyph:gen2-undecodable", e))?;
        if dec != want {
            return Err(fail("glyph:gen2-differs", format!("decoded {:?}, model {:?}", dec, want)));
        }
    }
    match m {
        GlyphM::Empty => rec.class("glyph:empty"),
        GlyphM::Simple(s) => {
            rec.class("glyph:simple");
            rec.class_if(s.contours.is_empty(), "glyph:simple-0-contours");
            rec.class_if(s.enc >> 31 == 1, "glyph:repeat-flags");
            rec.class_if(!s.instr.is_empty(), "glyph:instructions");
            rec.set_nontrivial(s.pts.len() >= 2);
        }
        GlyphM::Composite(c) => {
            rec.class("glyph:composite");
            let flagged: Vec<usize> = c.parts.iter().enumerate().filter(|(_, p)| p.instr).map(|(i, _)| i).collect();
            let n = c.parts.len();
            rec.class(match flagged.as_slice() {
                [] => "glyph:composite-instr-flag:none",
                [i] if *i + 1 == n && n > 1 => "glyph:composite-instr-flag:last-only",
                [0] if n > 1 => "glyph:composite-instr-flag:first-only",
                [_] if n > 1 => "glyph:composite-instr-flag:middle-only",
                [_] => "glyph:composite-instr-flag:single-component",
                f if f.len() == n => "glyph:composite-instr-flag:all",
                f if f.last() == Some(&(n - 1)) => "glyph:composite-instr-flag:several-incl-last",
                _ => "glyph:composite-instr-flag:several-not-last",
            });
            rec.class_if(!flagged.is_empty() && c.instr.is_empty(), "glyph:composite-flag-with-0-instructions");
            rec.class_if(c.parts.iter().any(|p| matches!(p.scale, ScaleM::Matrix(_))), "glyph:2x2");
            rec.class_if(c.parts.iter().any(|p| p.reserved & 0xE010 != 0), "glyph:reserved-flag-bits");
            rec.set_nontrivial(c.parts.len() >= 2);
        }
    }
    rec.hash_bytes(&raw);
    Ok(())
}

/// extreme coordinates: a delta between consecutive points may not fit int16. The writer must
/// refuse or write something my decoder reads back as the model.
fn check_glyph_extreme(s: &SimpleM, rec: &mut Rec) -> CaseResult {
    let m = GlyphM::Simple(s.clone());
    let fits = {
        let (mut px, mut py) = (0i32, 0i32);
        s.pts.iter().all(|p| {
            let ok = (p.0 as i32 - px).abs() <= 32767 + (p.0 as i32 - px < 0) as i32 && (p.1 as i32 - py).abs() <= 32767 + (p.1 as i32 - py < 0) as i32;
            px = p.0 as i32;
            py = p.1 as i32;
            ok
        })
    };
    match wb::<Glyph<'_>, _>(glyph_value(&m)) {
        Ok(written) => {
            let dec = dec_glyph(&written).map_err(|e| fail("glyph:delta-overflow-written", format!("{} — points {:?}", e, s.pts)))?;
            if dec != normal(&m) {
                return Err(fail("glyph:delta-overflow-written", format!("decoded {:?}, model {:?}", dec, s)));
            }
            rec.class("glyph-extreme:written-faithfully");
        }
        Err(_) if !fits => rec.class("glyph-extreme:refused"),
        Err(e) => return Err(fail("glyph:refused-representable", format!("{:?} for {:?}", e, s))),
    }
    rec.class_if(!fits, "glyph-extreme:delta-exceeds-int16");
    rec.set_nontrivial(!fits);
    Ok(())
}

fn simple_strategy(max_pts: usize) -> impl Strategy<Value = SimpleM> {
    let coord = prop_oneof![4 => -300i16..300, 2 => -16000i16..16000, 1 => proptest::sample::select(vec![0i16, 255, 256, -255, -256, 1, -1])];
    (
        proptest::collection::vec((coord.clone(), coord, any::<bool>()), 0..max_pts),
        proptest::collection::vec(1u16..6, 0..6),
        proptest::collection::vec(any::<u8>(), 0..5),
        [bi16(), bi16(), bi16(), bi16()],
        any::<u32>(),
    )
        .prop_map(|(raw, sizes, instr, bbox, enc)| {
            // cumulative small steps keep every delta inside int16
            let mut pts = Vec::new();
            let (mut x, mut y) = (0i32, 0i32);
            for (dx, dy, on) in raw {
                x = (x + dx as i32).clamp(-16000, 16000);
                y = (y + dy as i32).clamp(-16000, 16000);
                pts.push((x as i16, y as i16, on));
            }
            // contours partition the points
            let mut contours = Vec::new();
            let mut left = pts.len();
            for s in sizes {
                if left == 0 {
                    break;
                }
                let c = (s as usize).min(left);
                contours.push(c as u16);
                left -= c;
            }
            if left > 0 {
                contours.push(left as u16);
            }
            SimpleM { bbox, contours, instr, pts, enc }
        })
}

fn composite_strategy() -> impl Strategy<Value = CompM> {
    let args = prop_oneof![
        (any::<u8>(), any::<u8>()).prop_map(|(a, b)| ArgM::U8(a, b)),
        (any::<i8>(), any::<i8>()).prop_map(|(a, b)| ArgM::I8(a, b)),
        (bu16(), bu16()).prop_map(|(a, b)| ArgM::U16(a, b)),
        (bi16(), bi16()).prop_map(|(a, b)| ArgM::I16(a, b)),
    ];
    let scale = prop_oneof![
        2 => Just(ScaleM::None),
        1 => bi16().prop_map(ScaleM::One),
        1 => (bi16(), bi16()).prop_map(|(a, b)| ScaleM::XY(a, b)),
        1 => [bi16(), bi16(), bi16(), bi16()].prop_map(ScaleM::Matrix),
    ];
    let part = (bu16(), args, scale, any::<u16>(), any::<bool>(), prop_oneof![3 => Just(0u16), 1 => any::<u16>().prop_map(|r| r & 0xE010)])
        .prop_map(|(gid, args, scale, e, instr, reserved)| CompPartM { gid, args, scale, extra: e & EXTRA_MASK, instr, reserved });
    (
        [bi16(), bi16(), bi16(), bi16()],
        proptest::collection::vec(part, 1..5),
        // which components carry WE_HAVE_INSTRUCTIONS: none / first only / middle only / last only / all / independent
        0u8..8,
        prop_oneof![5 => proptest::collection::vec(any::<u8>(), 1..6), 1 => Just(Vec::new())],
    )
        .prop_map(|(bbox, mut parts, pattern, instr)| {
            let n = parts.len();
            for (i, p) in parts.iter_mut().enumerate() {
                p.instr = match pattern {
                    0 | 1 => false,
                    2 => i == 0,
                    3 => i == n / 2 && n > 2 || (n <= 2 && i == 0),
                    4 => i + 1 == n,
                    5 => true,
                    _ => p.instr,
                };
            }
            let any = parts.iter().any(|p| p.instr);
            CompM { bbox, parts, instr: if any { instr } else { Vec::new() } }
        })
}

fn glyph_strategy() -> impl Strategy<Value = GlyphM> {
    prop_oneof![
        5 => simple_strategy(24).prop_map(GlyphM::Simple),
        3 => composite_strategy().prop_map(GlyphM::Composite),
    ]
}

fn extreme_strategy() -> impl Strategy<Value = SimpleM> {
    let c = prop_oneof![2 => proptest::sample::select(vec![i16::MIN, i16::MIN + 1, -1, 0, 1, i16::MAX - 1, i16::MAX]), 1 => any::<i16>()];
    (proptest::collection::vec((c.clone(), c, any::<bool>()), 1..5)).prop_map(|pts| SimpleM { bbox: [0; 4], contours: vec![pts.len() as u16], instr: vec![], pts, enc: 0 })
}

// ------------------------------------------------------------------ glyf + loca

#[derive(Clone, Debug)]
pub struct GlyfM {
    glyphs: Vec<GlyphM>,
    short: bool,
    /// long format only: extra zero padding after each glyph (0..3)
    pad: u8,
    /// which glyphs to parse before writing (bit k ↔ glyph k)
    parse_mask: u32,
    /// drop up to this many of the padding bytes that end the table: the last loca offset then
    /// lies beyond the end of glyf, which the reader tolerates when the glyph itself is complete
    cut_tail: u8,
}

fn enc_glyf_loca(m: &GlyfM) -> (Vec<u8>, Vec<u8>, Vec<u32>) {
    let mut glyf = Buf::new();
    let mut offs = Vec::new();
    for g in &m.glyphs {
        offs.push(glyf.len() as u32);
        let e = enc_glyph(g);
        if !e.is_empty() {
            glyf.bytes(&e);
            if m.short {
                glyf.pad_to(2);
            } else {
                glyf.zeros(m.pad as usize);
            }
        }
    }
    offs.push(glyf.len() as u32);
    if m.cut_tail > 0 && m.glyphs.last().map_or(false, |g| *g != GlyphM::Empty) {
        let used = offs[offs.len() - 2] as usize + enc_glyph(m.glyphs.last().unwrap()).len();
        let cut = (glyf.len() - used).min(m.cut_tail as usize);
        glyf.0.truncate(glyf.len() - cut);
    }
    let mut loca = Buf::new();
    for o in &offs {
        if m.short {
            loca.u16((*o / 2) as u16);
        } else {
            loca.u32(*o);
        }
    }
    (glyf.into_vec(), loca.into_vec(), offs)
}

/// slice glyf by a loca given as bytes (my own reader)
fn slices<'a>(glyf: &'a [u8], loca: &[u8], short: bool) -> Result<Vec<&'a [u8]>, String> {
    let offs: Vec<usize> = if short {
        loca.chunks_exact(2).map(|c| u16::from_be_bytes([c[0], c[1]]) as usize * 2).collect()
    } else {
        loca.chunks_exact(4).map(|c| u32::from_be_bytes([c[0], c[1], c[2], c[3]]) as usize).collect()
    };
    let mut out = Vec::new();
    for w in offs.windows(2) {
        out.push(glyf.get(w[0]..w[1]).ok_or_else(|| format!("loca range {}..{} outside glyf ({} bytes)", w[0], w[1], glyf.len()))?);
    }
    if offs.last().copied().unwrap_or(0) != glyf.len() {
        return Err(format!("last loca offset {:?} != glyf length {}", offs.last(), glyf.len()));
    }
    Ok(out)
}

fn write_glyf(glyf: &[u8], loca: &[u8], n: usize, fmt: IndexToLocFormat, parse_mask: u32) -> Result<Result<(Vec<u8>, Vec<u8>), WriteError>, ParseError> {
    let l = ReadScope::new(loca).read_dep::<LocaTable<'_>>((n, fmt))?;
    let mut t = ReadScope::new(glyf).read_dep::<GlyfTable<'_>>(&l)?;
    for k in 0..n.min(32) {
        if (parse_mask >> k) & 1 == 1 {
            t.get_parsed_glyph(k as u16)?;
        }
    }
    Ok((|| {
        let (ol, g) = wbd::<GlyfTable<'_>, _>(t, fmt)?;
        let (_, lb) = wbd::<OwnedLoca, _>(ol, fmt)?;
        Ok((g, lb))
    })())
}

fn check_glyf(m: &GlyfM, rec: &mut Rec) -> CaseResult {
    let (glyf, loca, offs) = enc_glyf_loca(m);
    let n = m.glyphs.len();
    let fmt = if m.short { IndexToLocFormat::Short } else { IndexToLocFormat::Long };
    // reader vs model
    {
        let l = ReadScope::new(&loca).read_dep::<LocaTable<'_>>((n, fmt)).map_err(|e| fail("glyf:loca-parse", format!("{:?}", e)))?;
        let mut t = ReadScope::new(&glyf).read_dep::<GlyfTable<'_>>(&l).map_err(|e| fail("glyf:parse", format!("{:?}; glyf {} loca {}", e, hexs(&glyf), hexs(&loca))))?;
        if t.records().len() != n {
            return Err(fail("glyf:record-count", format!("{} records for {} glyphs", t.records().len(), n)));
        }
        for k in 0..n {
            let beyond = offs[k + 1] as usize > glyf.len();
            let exp = &glyf[offs[k] as usize..(offs[k + 1] as usize).min(glyf.len())];
            match &t.records()[k] {
                GlyfRecord::Present { scope, .. } if scope.data() == exp && !exp.is_empty() && !beyond => {}
                GlyfRecord::Parsed(Glyph::Empty(_)) if exp.is_empty() => {}
                // the documented workaround: a range that runs past the table is parsed without a length limit
                GlyfRecord::Parsed(_) if beyond => {}
                other => return Err(fail("glyf:record", format!("glyph {}: {:?}, expected bytes {}", k, other, hexs(exp)))),
            }
            let g = t.get_parsed_glyph(k as u16).map_err(|e| fail("glyf:glyph-parse", format!("glyph {}: {:?}", k, e)))?;
            let got = model_of(g).map_err(|e| fail("glyf:glyph-model", e))?;
            if got != normal(&m.glyphs[k]) {
                return Err(fail("glyf:glyph-differs", format!("glyph {}: read {:?}, model {:?}", k, got, m.glyphs[k])));
            }
        }
    }
    // writer
    let total_fits = !m.short || (glyf.len() + n) <= 0x1FFFE;
    let (g2, l2) = match write_glyf(&glyf, &loca, n, fmt, m.parse_mask).map_err(|e| fail("glyf:parse", format!("{:?}", e)))? {
        Ok(x) => x,
        Err(e) if !total_fits => {
            let _ = e;
            rec.class("glyf:short-loca-overflow-refused");
            return Ok(());
        }
        Err(e) => return Err(fail("glyf:write-of-parsed-refused", format!("{:?}", e))),
    };
    let sl = slices(&g2, &l2, m.short).map_err(|e| fail("glyf:written-loca-inconsistent", format!("{}; loca {}", e, hexs(&l2))))?;
    if sl.len() != n {
        return Err(fail("glyf:written-glyph-count", format!("{} glyphs written for {}", sl.len(), n)));
    }
    for k in 0..n {
        let dec = dec_glyph(sl[k]).map_err(|e| fail("glyf:written-undecodable", format!("glyph {}: {}", k, e)))?;
        if dec != normal(&m.glyphs[k]) {
            return Err(fail("glyf:written-differs", format!("glyph {}: decoded {:?}, model {:?}", k, dec, m.glyphs[k])));
        }
        if m.short && sl[k].len() % 2 != 0 {
            return Err(fail("glyf:short-unaligned", format!("glyph {} has odd length {}", k, sl[k].len())));
        }
    }
    // generation 3 (everything parsed this time)
    let (g3, l3) = write_glyf(&g2, &l2, n, fmt, u32::MAX)
        .map_err(|e| fail("glyf:reparse", format!("{:?}", e)))?
        .map_err(|e| fail("glyf:rewrite-refused", format!("{:?}", e)))?;
    let (g4, l4) = write_glyf(&g3, &l3, n, fmt, 0)
        .map_err(|e| fail("glyf:reparse", format!("{:?}", e)))?
        .map_err(|e| fail("glyf:rewrite-refused", format!("{:?}", e)))?;
    if g4 != g3 || l4 != l3 {
        return Err(fail("glyf:unstable", format!("glyf {}; loca {}", diff(&g3, &g4), diff(&l3, &l4))));
    }
    rec.set_nontrivial(n >= 2);
    rec.class(if m.short { "glyf:short-loca" } else { "glyf:long-loca" });
    rec.class_if(m.glyphs.iter().any(|g| *g == GlyphM::Empty), "glyf:has-empty-glyph");
    rec.class_if(m.parse_mask != 0 && m.parse_mask != u32::MAX, "glyf:mixed-parsed-present");
    rec.class_if(offs[n] as usize > glyf.len(), "glyf:last-loca-offset-beyond-table");
    rec.hash_bytes(&glyf);
    rec.hash_bytes(&loca);
    Ok(())
}

fn glyf_strategy() -> impl Strategy<Value = GlyfM> {
    let g = prop_oneof![2 => Just(GlyphM::Empty), 4 => simple_strategy(10).prop_map(GlyphM::Simple), 2 => composite_strategy().prop_map(GlyphM::Composite)];
    (proptest::collection::vec(g, 1..8), any::<bool>(), 0u8..4, prop_oneof![Just(0u32), Just(u32::MAX), any::<u32>()], prop_oneof![3 => Just(0u8), 1 => 1u8..4]).prop_map(|(mut glyphs, short, pad, parse_mask, cut_tail)| {
        // a simple glyph with zero contours and no points is 12 bytes of header: keep; but a
        // model glyph that encodes to nothing must be Empty
        for g in glyphs.iter_mut() {
            if enc_glyph(g).is_empty() {
                *g = GlyphM::Empty;
            }
        }
        GlyfM { glyphs, short, pad, parse_mask, cut_tail }
    })
}
