//! C01 driver: every public operation that consumes font bytes, run stage by stage.
//!
//! Each stage runs under its own `catch_unwind`, so that a (known) panic in one stage does not
//! hide what later stages do with the same bytes. All failures of a case are collected; the
//! one reported is the first whose signature is *not* a known finding (else the first one, which
//! the engine then tolerates/counts). In strict mode (replay) the engine has no known findings,
//! so whatever is reported here is a violation there.
//!
//! Harness-side rules: never `unwrap` an allsorts value; every allsorts `Result` is matched.

use crate::engine::panics::{self, Origin};
use crate::engine::{CaseResult, Fail, Rec};
use allsorts::binary::read::ReadScope;
use allsorts::bitmap::cbdt::{CBDTTable, CBLCTable};
use allsorts::bitmap::sbix::Sbix;
use allsorts::bitmap::BitDepth;
use allsorts::cff::cff2::CFF2;
use allsorts::cff::outline::CFF2Outlines;
use allsorts::cff::CFF;
use allsorts::font::{Font, MatchingPresentation};
use allsorts::font_data::FontData;
use allsorts::gsub::{FeatureMask, Features};
use allsorts::layout::{GDEFTable, LayoutTable, GPOS, GSUB};
use allsorts::outline::{OutlineBuilder, OutlineSink};
use allsorts::pathfinder_geometry::line_segment::LineSegment2F;
use allsorts::pathfinder_geometry::vector::Vector2F;
use allsorts::post::PostTable;
use allsorts::subset::prince::PrinceCmapTarget;
use allsorts::tables::cmap::{Cmap, CmapSubtable};
use allsorts::tables::glyf::GlyfTable;
use allsorts::tables::kern::KernTable;
use allsorts::tables::loca::LocaTable;
use allsorts::tables::morx::MorxTable;
use allsorts::tables::os2::Os2;
use allsorts::tables::svg::SvgTable;
use allsorts::tables::variable_fonts::avar::AvarTable;
use allsorts::tables::variable_fonts::cvar::CvarTable;
use allsorts::tables::variable_fonts::fvar::FvarTable;
use allsorts::tables::variable_fonts::gvar::{GvarTable, NumPoints};
use allsorts::tables::variable_fonts::hvar::HvarTable;
use allsorts::tables::variable_fonts::mvar::MvarTable;
use allsorts::tables::variable_fonts::stat::{ElidableName, StatTable};
use allsorts::tables::variable_fonts::OwnedTuple;
use allsorts::tables::{
    CvtTable, Fixed, FontTableProvider, HeadTable, HheaTable, HmtxTable, MaxpTable, NameTable, SfntVersion,
};
use allsorts::tag;
use allsorts::unicode::VariationSelector;
use std::borrow::Cow;
use std::collections::HashSet;
use std::panic::{catch_unwind, AssertUnwindSafe};
use std::sync::OnceLock;

/// Arguments of the driver that do not come from the font bytes.
#[derive(Clone, Debug)]
pub struct Args {
    /// collection index tried in addition to 0 and 1
    pub index: usize,
    pub chars: Vec<char>,
    pub text: String,
    pub script: u32,
    pub gids: Vec<u16>,
    /// extra glyph lists for subsetting (valid or not)
    pub glyph_lists: Vec<Vec<u16>>,
    pub ppem: u16,
    /// raw 16.16 user coordinates, cycled over the axes
    pub coords: Vec<i32>,
    pub name_ids: Vec<u16>,
    /// further user-space tuples (raw 16.16) to normalise / instance at (region peaks and edges
    /// of the model a generated seed was built from)
    pub extra_tuples: Vec<Vec<i32>>,
    /// include a light `Font::shape` call (shaping proper is C02)
    pub shape: bool,
    /// run the expensive stages (subset variants, instancing at several coordinates)
    pub heavy: bool,
}

impl Args {
    pub fn fixed() -> Args {
        Args {
            index: 3,
            chars: vec!['\0', '\t', 'A', 'a', 'b', ' ', '\u{25CC}', '\u{E9}', '\u{F041}', '\u{4E00}', '\u{1F600}', '\u{10FFFF}'],
            text: "ab c\u{301}\u{FE0F}A".to_string(),
            script: tag::LATN,
            gids: vec![2, 3, 7, 255, 256, 0x7FFF],
            glyph_lists: vec![vec![0, 2, 1], vec![1, 2], vec![0, 1, 1], vec![0, 0xFFFE]],
            ppem: 32,
            coords: vec![400 << 16, -(1 << 16), 0x7FFF_FFFF],
            name_ids: vec![0, 1, 2, 4, 6, 256, 0xFFFF],
            extra_tuples: Vec::new(),
            shape: false,
            heavy: true,
        }
    }
    pub fn hash(&self) -> u64 {
        crate::engine::util::fnv1a(format!("{:?}", self).as_bytes())
    }
}

/// What the driver got done on one input (for classification and the non-triviality rule).
#[derive(Clone, Debug, Default)]
pub struct Stats {
    pub read_ok: bool,
    pub kind: &'static str,
    pub provider_ok: u32,
    pub tables_ok: u32,
    pub parsers_ok: u32,
    pub parsers_err: u32,
    pub font_ok: bool,
    pub cmap_subtables_ok: u32,
    pub outlines_ok: u32,
    pub outlines_err: u32,
    pub images_ok: u32,
    pub subset_ok: u32,
    pub subset_err: u32,
    pub whole_ok: bool,
    pub instance_ok: u32,
    pub instance_err: u32,
    pub shaped: bool,
    pub stages_panicked: u32,
}

struct NullSink {
    ops: u64,
}
impl OutlineSink for NullSink {
    fn move_to(&mut self, to: Vector2F) {
        self.ops += 1;
        std::hint::black_box(to);
    }
    fn line_to(&mut self, to: Vector2F) {
        self.ops += 1;
        std::hint::black_box(to);
    }
    fn quadratic_curve_to(&mut self, ctrl: Vector2F, to: Vector2F) {
        self.ops += 1;
        std::hint::black_box((ctrl, to));
    }
    fn cubic_curve_to(&mut self, ctrl: LineSegment2F, to: Vector2F) {
        self.ops += 1;
        std::hint::black_box((ctrl, to));
    }
    fn close(&mut self) {
        self.ops += 1;
    }
}

/// A provider that borrows another one (so that several `Font`s can be built over one decoded
/// container without decoding it again).
struct RefProvider<'p, P: FontTableProvider + SfntVersion>(&'p P);
impl<'p, P: FontTableProvider + SfntVersion> FontTableProvider for RefProvider<'p, P> {
    fn table_data(&self, tag: u32) -> Result<Option<Cow<'_, [u8]>>, allsorts::error::ParseError> {
        self.0.table_data(tag)
    }
    fn has_table(&self, tag: u32) -> bool {
        self.0.has_table(tag)
    }
    fn table_tags(&self) -> Option<Vec<u32>> {
        self.0.table_tags()
    }
}
impl<'p, P: FontTableProvider + SfntVersion> SfntVersion for RefProvider<'p, P> {
    fn sfnt_version(&self) -> u32 {
        self.0.sfnt_version()
    }
}

static KNOWN: OnceLock<HashSet<String>> = OnceLock::new();

fn known() -> &'static HashSet<String> {
    KNOWN.get_or_init(|| crate::engine::known::known_for("C01").into_keys().collect())
}

struct Run {
    fails: Vec<Fail>,
    stats: Stats,
}

impl Run {
    /// Run one stage; a panic of the library inside it is recorded, not propagated.
    fn stage<R>(&mut self, name: &str, f: impl FnOnce(&mut Stats) -> R) -> Option<R> {
        let stats = &mut self.stats;
        if std::env::var_os("C01_BACKTRACE").is_some() {
            // debugging aid: let the default hook print the panic (use with RUST_BACKTRACE=1)
            panics::set_quiet(false);
            eprintln!("[stage {}]", name);
        }
        match catch_unwind(AssertUnwindSafe(|| f(stats))) {
            Ok(r) => Some(r),
            Err(_) => {
                let p = panics::take_last().unwrap_or(panics::PanicInfo {
                    file: "<unknown>".into(),
                    line: 0,
                    msg: "<no panic info>".into(),
                });
                let (origin, sig) = panics::signature(&p);
                if matches!(origin, Origin::Harness) {
                    // a bug of this harness: let the engine report it as HARNESS-ERROR
                    panic!("harness-side panic in stage {}: {} — {}", name, sig, p.msg);
                }
                self.stats.stages_panicked += 1;
                self.fails.push(Fail::new(
                    sig,
                    format!(
                        "stage {}: panic at {}:{}: {}",
                        name,
                        p.file,
                        p.line,
                        crate::engine::util::truncate(&p.msg, 300)
                    ),
                ));
                None
            }
        }
    }
}

const STD_TAGS: &[u32] = &[
    tag::CMAP, tag::HEAD, tag::HHEA, tag::HMTX, tag::MAXP, tag::NAME, tag::OS_2, tag::POST, tag::GLYF, tag::LOCA,
    tag::CFF, tag::CFF2, tag::FVAR, tag::GVAR, tag::SVG, tag::SBIX, tag::CBLC, tag::CBDT,
];

/// glyph ids probed: 0, 1, n-1, n, 0xFFFF, the caller's, and the first `first` ids
fn probe_gids(n: u16, extra: &[u16], first: u16) -> Vec<u16> {
    let mut v: Vec<u16> = vec![0, 1, n.wrapping_sub(1), n, 0xFFFF];
    v.extend_from_slice(extra);
    for g in 2..first.min(n) {
        v.push(g);
    }
    let mut seen = HashSet::new();
    v.retain(|g| seen.insert(*g));
    v
}

fn user_tuple(coords: &[i32], n: usize, mode: u8, axes: &[(i32, i32, i32)]) -> Vec<Fixed> {
    (0..n)
        .map(|i| {
            let raw = match (mode, axes.get(i)) {
                (0, Some(a)) => a.1,
                (1, Some(a)) => a.0,
                (2, Some(a)) => a.2,
                // half way to the minimum / maximum: +-0.5 normalised, where regions commonly
                // start, peak or end
                (4, Some(a)) => ((a.0 as i64 + a.1 as i64) / 2) as i32,
                (5, Some(a)) => ((a.1 as i64 + a.2 as i64) / 2) as i32,
                _ => {
                    if coords.is_empty() {
                        0
                    } else {
                        coords[i % coords.len()]
                    }
                }
            };
            Fixed::from_raw(raw)
        })
        .collect()
}

/// The whole driver. Returns Err for the failure to report (see module doc).
pub fn exercise(bytes: &[u8], args: &Args, rec: &mut Rec) -> (Stats, CaseResult) {
    rec.guard_alloc(bytes.len());
    let mut run = Run {
        fails: Vec::new(),
        stats: Stats::default(),
    };
    drive(bytes, args, &mut run);
    crate::engine::alloc::disarm();
    let Run { fails, stats } = run;
    let res = if fails.is_empty() {
        Ok(())
    } else {
        let k = known();
        let pick = fails.iter().find(|f| !k.contains(&f.sig)).unwrap_or(&fails[0]);
        Err(pick.clone())
    };
    (stats, res)
}

fn drive(bytes: &[u8], args: &Args, run: &mut Run) {
    // ---- stage: load
    let fd = match run.stage("read", |_| ReadScope::new(bytes).read::<FontData<'_>>()) {
        Some(Ok(fd)) => fd,
        _ => return,
    };
    run.stats.read_ok = true;
    run.stats.kind = match &fd {
        FontData::OpenType(_) => "opentype",
        FontData::Woff(_) => "woff",
        FontData::Woff2(_) => "woff2",
    };

    // ---- stage: container level accessors
    run.stage("container", |_| match &fd {
        FontData::OpenType(_) => {}
        FontData::Woff(w) => {
            std::hint::black_box(w.flavor());
            let _ = std::hint::black_box(w.extended_metadata());
            for t in STD_TAGS {
                if let Some(e) = w.find_table_directory_entry(*t) {
                    let _ = std::hint::black_box(e.read_table(&w.scope).map(|b| b.scope().data().len()));
                }
            }
        }
        FontData::Woff2(w) => {
            std::hint::black_box(w.flavor());
            let _ = std::hint::black_box(w.extended_metadata());
            for i in [0usize, 1, args.index] {
                for t in [tag::HEAD, tag::GLYF, tag::HMTX] {
                    let _ = std::hint::black_box(w.read_table(t, i).map(|b| b.map(|b| b.scope().data().len())));
                }
            }
        }
    });

    // ---- stage: providers and raw table access
    let mut indices = vec![0usize, 1, args.index];
    indices.dedup();
    let mut first_provider = None;
    for i in indices {
        let prov = run.stage("table_provider", |_| fd.table_provider(i));
        let prov = match prov {
            Some(Ok(p)) => p,
            _ => continue,
        };
        run.stats.provider_ok += 1;
        run.stage("table_access", |st| {
            std::hint::black_box(prov.sfnt_version());
            let mut tags = prov.table_tags().unwrap_or_default();
            tags.truncate(64);
            for t in STD_TAGS {
                if !tags.contains(t) {
                    tags.push(*t);
                }
            }
            for t in tags {
                let has = prov.has_table(t);
                match prov.table_data(t) {
                    Ok(Some(d)) => {
                        st.tables_ok += 1;
                        std::hint::black_box((has, d.len()));
                    }
                    Ok(None) => {}
                    Err(_) => {}
                }
                let _ = std::hint::black_box(prov.read_table_data(t).map(|d| d.len()));
            }
        });
        if first_provider.is_none() {
            first_provider = Some(prov);
        }
    }
    let prov = match first_provider {
        Some(p) => p,
        None => return,
    };

    let tuples = tables(&prov, args, run);
    font_stages(&prov, args, &tuples, run);
    subset_stages(&prov, args, run);
    variation_stages(&prov, args, run);
}

fn count<T, E>(st: &mut Stats, r: Result<T, E>) -> Option<T> {
    match r {
        Ok(v) => {
            st.parsers_ok += 1;
            Some(v)
        }
        Err(_) => {
            st.parsers_err += 1;
            None
        }
    }
}

/// Table parsers called directly, the way applications (and allsorts-tools) call them.
fn tables<P: FontTableProvider + SfntVersion>(prov: &P, args: &Args, run: &mut Run) -> Vec<OwnedTuple> {
    // head / maxp / hhea / hmtx / vhea / vmtx
    let basics = run.stage("tables:basic", |st| {
        let head = prov
            .table_data(tag::HEAD)
            .ok()
            .flatten()
            .and_then(|d| count(st, ReadScope::new(&d).read::<HeadTable>()));
        let maxp = prov
            .table_data(tag::MAXP)
            .ok()
            .flatten()
            .and_then(|d| count(st, ReadScope::new(&d).read::<MaxpTable>()));
        let hhea = prov
            .table_data(tag::HHEA)
            .ok()
            .flatten()
            .and_then(|d| count(st, ReadScope::new(&d).read::<HheaTable>()));
        if let (Some(maxp), Some(hhea)) = (&maxp, &hhea) {
            if let Ok(Some(d)) = prov.table_data(tag::HMTX) {
                let r = ReadScope::new(&d)
                    .read_dep::<HmtxTable<'_>>((usize::from(maxp.num_glyphs), usize::from(hhea.num_h_metrics)));
                if let Some(hmtx) = count(st, r) {
                    for g in probe_gids(maxp.num_glyphs, &args.gids, 8) {
                        let _ = std::hint::black_box(hmtx.horizontal_advance(g));
                        let _ = std::hint::black_box(hmtx.metric(g));
                        let _ = std::hint::black_box(allsorts::glyph_info::advance(maxp, hhea, &d, g));
                    }
                }
            }
        }
        if let Some(maxp) = &maxp {
            if let Ok(Some(d)) = prov.table_data(tag::VHEA) {
                if let Some(vhea) = count(st, ReadScope::new(&d).read::<HheaTable>()) {
                    if let Ok(Some(vd)) = prov.table_data(tag::VMTX) {
                        let r = ReadScope::new(&vd).read_dep::<HmtxTable<'_>>((
                            usize::from(maxp.num_glyphs),
                            usize::from(vhea.num_h_metrics),
                        ));
                        if let Some(vmtx) = count(st, r) {
                            for g in probe_gids(maxp.num_glyphs, &args.gids, 4) {
                                let _ = std::hint::black_box(vmtx.horizontal_advance(g));
                            }
                        }
                    }
                }
            }
        }
        (head, maxp)
    });
    let (head, maxp) = basics.unwrap_or((None, None));
    let num_glyphs = maxp.as_ref().map(|m| m.num_glyphs);

    // name / post / OS/2 / cvt
    run.stage("tables:name", |st| {
        if let Ok(Some(d)) = prov.table_data(tag::NAME) {
            if let Some(name) = count(st, ReadScope::new(&d).read::<NameTable<'_>>()) {
                for id in &args.name_ids {
                    std::hint::black_box(name.string_for_id(*id));
                }
            }
            for id in &args.name_ids {
                let _ = std::hint::black_box(allsorts::get_name::fontcode_get_name(&d, *id));
            }
        }
    });
    run.stage("tables:post", |st| {
        if let Ok(Some(d)) = prov.table_data(tag::POST) {
            if let Some(post) = count(st, ReadScope::new(&d).read::<PostTable<'_>>()) {
                for g in probe_gids(num_glyphs.unwrap_or(0), &args.gids, 48) {
                    let _ = std::hint::black_box(post.glyph_name(g));
                }
            }
        }
    });
    run.stage("tables:os2", |st| {
        if let Ok(Some(d)) = prov.table_data(tag::OS_2) {
            count(st, ReadScope::new(&d).read_dep::<Os2>(d.len()));
        }
        if let Ok(Some(d)) = prov.table_data(tag::CVT) {
            count(st, ReadScope::new(&d).read_dep::<CvtTable<'_>>(d.len() as u32));
        }
    });

    // cmap: every encoding record's subtable
    run.stage("tables:cmap", |st| {
        let d = match prov.table_data(tag::CMAP) {
            Ok(Some(d)) => d,
            _ => return,
        };
        let scope = ReadScope::new(&d);
        let cmap = match count(st, scope.read::<Cmap<'_>>()) {
            Some(c) => c,
            None => return,
        };
        std::hint::black_box(allsorts::font::find_good_cmap_subtable(&cmap).map(|(_, r)| r.offset));
        let _ = std::hint::black_box(allsorts::font::read_cmap_subtable(&cmap).map(|s| s.is_some()));
        for (i, recd) in cmap.encoding_records().enumerate() {
            if i >= 8 {
                break;
            }
            let off = match usize::try_from(recd.offset) {
                Ok(o) => o,
                Err(_) => continue,
            };
            let sub = match scope.offset(off).read::<CmapSubtable<'_>>() {
                Ok(s) => s,
                Err(_) => continue,
            };
            st.cmap_subtables_ok += 1;
            for ch in &args.chars {
                let _ = std::hint::black_box(sub.map_glyph(*ch as u32));
            }
            for ch in [0u32, 0x20, 0x41, 0xFF, 0x100, 0xFFFF, 0x10000, 0x10FFFF, 0xFFFF_FFFF] {
                let _ = std::hint::black_box(sub.map_glyph(ch));
            }
            let mut n = 0u64;
            let _ = std::hint::black_box(sub.mappings_fn(|c, g| {
                n = n.wrapping_add(c as u64 ^ g as u64);
            }));
            let _ = std::hint::black_box(sub.mappings().map(|m| m.len()));
            if let Some(owned) = sub.to_owned() {
                for ch in &args.chars {
                    let _ = std::hint::black_box(owned.map_glyph(*ch as u32));
                }
            }
        }
    });

    // glyf outlines
    if let (Some(head), Some(n)) = (&head, num_glyphs) {
        run.stage("outline:glyf", |st| {
            let loca_d = match prov.table_data(tag::LOCA) {
                Ok(Some(d)) => d,
                _ => return,
            };
            let glyf_d = match prov.table_data(tag::GLYF) {
                Ok(Some(d)) => d,
                _ => return,
            };
            let loca = match count(
                st,
                ReadScope::new(&loca_d).read_dep::<LocaTable<'_>>((usize::from(n), head.index_to_loc_format)),
            ) {
                Some(l) => l,
                None => return,
            };
            let mut glyf = match count(st, ReadScope::new(&glyf_d).read_dep::<GlyfTable<'_>>(&loca)) {
                Some(g) => g,
                None => return,
            };
            let mut sink = NullSink { ops: 0 };
            for g in probe_gids(n, &args.gids, 48) {
                match glyf.visit(g, &mut sink) {
                    Ok(()) => st.outlines_ok += 1,
                    Err(_) => st.outlines_err += 1,
                }
            }
            for g in probe_gids(n, &args.gids, 16) {
                if let Ok(gl) = glyf.get_parsed_glyph(g) {
                    std::hint::black_box(gl.number_of_contours());
                    std::hint::black_box(gl.bounding_box());
                }
            }
        });
    }

    // CFF outlines
    run.stage("outline:cff", |st| {
        let d = match prov.table_data(tag::CFF) {
            Ok(Some(d)) => d,
            _ => return,
        };
        let mut cff = match count(st, ReadScope::new(&d).read::<CFF<'_>>()) {
            Some(c) => c,
            None => return,
        };
        let n = cff.fonts.first().map(|f| f.char_strings_index.len()).unwrap_or(0).min(0xFFFF) as u16;
        for f in cff.fonts.iter().take(2) {
            for g in probe_gids(n, &args.gids, 8) {
                std::hint::black_box(f.charset.id_for_glyph(g));
                if let Some(sid) = f.charset.id_for_glyph(g) {
                    let _ = std::hint::black_box(cff.read_string(sid).map(|s| s.len()));
                }
            }
            std::hint::black_box(f.is_cid_keyed());
        }
        let mut sink = NullSink { ops: 0 };
        for g in probe_gids(n, &args.gids, 48) {
            match cff.visit(g, &mut sink) {
                Ok(()) => st.outlines_ok += 1,
                Err(_) => st.outlines_err += 1,
            }
        }
    });

    // fvar (needed for CFF2 variable outlines), avar, STAT, HVAR, MVAR, gvar, cvar
    let tuples: Vec<OwnedTuple> = run
        .stage("tables:variations", |st| {
            let fvar_d = match prov.table_data(tag::FVAR) {
                Ok(Some(d)) => d,
                _ => return None,
            };
            let fvar = count(st, ReadScope::new(&fvar_d).read::<FvarTable<'_>>())?;
            let axes: Vec<(i32, i32, i32)> = fvar
                .axes()
                .take(64)
                .map(|a| (a.min_value.raw_value(), a.default_value.raw_value(), a.max_value.raw_value()))
                .collect();
            for inst in fvar.instances().take(16) {
                if let Ok(i) = inst {
                    std::hint::black_box(i.coordinates.iter().count());
                }
            }
            let avar_d = prov.table_data(tag::AVAR).ok().flatten();
            let avar = avar_d
                .as_ref()
                .and_then(|d| count(st, ReadScope::new(d).read::<AvarTable<'_>>()));
            if let Some(avar) = &avar {
                for m in avar.segment_maps().take(16) {
                    std::hint::black_box(m.axis_value_mappings().count());
                    std::hint::black_box(m.normalize(Fixed::from_raw(0x8000)));
                }
            }
            let n_axes = usize::from(fvar.axis_count());
            let mut tuples: Vec<OwnedTuple> = Vec::new();
            for mode in [3u8, 0, 1, 2, 4, 5] {
                let user = user_tuple(&args.coords, n_axes.min(64), mode, &axes);
                if let Ok(t) = fvar.normalize(user.iter().copied(), avar.as_ref()) {
                    tuples.push(t);
                }
            }
            for extra in args.extra_tuples.iter().take(6) {
                let user: Vec<Fixed> = extra.iter().map(|v| Fixed::from_raw(*v)).collect();
                if let Ok(t) = fvar.normalize(user.iter().copied(), avar.as_ref()) {
                    tuples.push(t);
                }
            }
            // wrong tuple lengths
            let _ = std::hint::black_box(fvar.normalize([Fixed::from_raw(0)].iter().copied(), avar.as_ref()).is_ok());
            let _ = std::hint::black_box(fvar.normalize(std::iter::empty(), None).is_ok());
            if let Ok(Some(d)) = prov.table_data(tag::STAT) {
                if let Some(stat) = count(st, ReadScope::new(&d).read::<StatTable<'_>>()) {
                    for a in stat.design_axes().take(16) {
                        let _ = std::hint::black_box(a.map(|a| a.axis_tag));
                    }
                    for t in stat.axis_value_tables().take(32) {
                        if let Ok(t) = t {
                            std::hint::black_box((t.flags(), t.value_name_id(), t.is_elidable()));
                        }
                    }
                    for ax in 0..3u16 {
                        std::hint::black_box(stat.name_for_axis_value(ax, Fixed::from_raw(400 << 16), ElidableName::Include));
                    }
                }
            }
            if !tuples.is_empty() {
                if let Ok(Some(d)) = prov.table_data(tag::HVAR) {
                    if let Some(hvar) = count(st, ReadScope::new(&d).read::<HvarTable<'_>>()) {
                        for t in tuples.iter().take(5) {
                            for g in probe_gids(num_glyphs.unwrap_or(0), &args.gids, 8) {
                                let _ = std::hint::black_box(hvar.advance_delta(t, g));
                                let _ = std::hint::black_box(hvar.left_side_bearing_delta(t, g));
                                let _ = std::hint::black_box(hvar.right_side_bearing_delta(t, g));
                            }
                        }
                    }
                }
                if let Ok(Some(d)) = prov.table_data(tag::MVAR) {
                    if let Some(mvar) = count(st, ReadScope::new(&d).read::<MvarTable<'_>>()) {
                        for t in tuples.iter().take(5) {
                            for r in mvar.value_records().take(32) {
                                std::hint::black_box(mvar.lookup(r.value_tag, t));
                            }
                            std::hint::black_box(mvar.lookup(tag::HASC, t));
                        }
                    }
                }
            }
            if let Ok(Some(d)) = prov.table_data(tag::GVAR) {
                if let Some(gvar) = count(st, ReadScope::new(&d).read::<GvarTable<'_>>()) {
                    // the point count handed to gvar is that of the glyph itself, as the API
                    // documents; glyphs whose record cannot be read are skipped
                    let loca_d = prov.table_data(tag::LOCA).ok().flatten();
                    let glyf_d = prov.table_data(tag::GLYF).ok().flatten();
                    let loca = match (&loca_d, &head, num_glyphs) {
                        (Some(d), Some(h), Some(n)) => ReadScope::new(d).read_dep::<LocaTable<'_>>((usize::from(n), h.index_to_loc_format)).ok(),
                        _ => None,
                    };
                    let glyf = match (&glyf_d, &loca) {
                        (Some(d), Some(l)) => ReadScope::new(d).read_dep::<GlyfTable<'_>>(l).ok(),
                        _ => None,
                    };
                    if let Some(glyf) = &glyf {
                        for g in probe_gids(num_glyphs.unwrap_or(0), &args.gids, 8) {
                            let np = match glyf.records().get(usize::from(g)).map(|r| r.number_of_points()) {
                                Some(Ok(np)) => np,
                                _ => continue,
                            };
                            if let Ok(Some(store)) = gvar.glyph_variation_data(g, NumPoints::new(np)) {
                                std::hint::black_box(store.headers().count());
                                for h in store.headers().take(8) {
                                    if let Some(i) = h.tuple_index() {
                                        let _ = std::hint::black_box(gvar.shared_tuple(i).is_ok());
                                    }
                                    let _ = std::hint::black_box(h.peak_tuple(&gvar).is_ok());
                                    std::hint::black_box(h.intermediate_region().is_some());
                                    if let Ok(vd) = h.variation_data(NumPoints::new(np), store.shared_point_numbers()) {
                                        std::hint::black_box((vd.len(), vd.iter().take(70_000).count()));
                                    }
                                }
                            }
                        }
                    }
                    let _ = std::hint::black_box(gvar.shared_tuple(0).is_ok());
                }
            }
            if let (Ok(Some(cvt_d)), Ok(Some(cvar_d))) = (prov.table_data(tag::CVT), prov.table_data(tag::CVAR)) {
                if let Ok(cvt) = ReadScope::new(&cvt_d).read_dep::<CvtTable<'_>>(cvt_d.len() as u32) {
                    let r = ReadScope::new(&cvar_d)
                        .read_dep::<CvarTable<'_>>((fvar.axis_count(), cvt.values.len() as u32));
                    if let (Some(cvar), Some(t)) = (count(st, r), tuples.first()) {
                        let _ = std::hint::black_box(cvar.apply(t, &cvt).map(|c| c.values.len()));
                    }
                }
            }
            Some(tuples)
        })
        .flatten()
        .unwrap_or_default();

    // CFF2 outlines
    run.stage("outline:cff2", |st| {
        let d = match prov.table_data(tag::CFF2) {
            Ok(Some(d)) => d,
            _ => return,
        };
        let cff2 = match count(st, ReadScope::new(&d).read::<CFF2<'_>>()) {
            Some(c) => c,
            None => return,
        };
        let n = cff2.char_strings_index.len().min(0xFFFF) as u16;
        if let Some(vstore) = &cff2.vstore {
            use allsorts::tables::variable_fonts::DeltaSetIndexMapEntry;
            let _ = std::hint::black_box(vstore.try_to_owned().is_ok());
            for i in [0u16, 1] {
                if let Ok(regions) = vstore.regions(i) {
                    std::hint::black_box(regions.take(64).filter(|r| r.is_ok()).count());
                }
                for t in tuples.iter().take(3) {
                    for inner in [0u16, 1] {
                        let _ = std::hint::black_box(vstore.adjustment(DeltaSetIndexMapEntry { outer_index: i, inner_index: inner }, t));
                    }
                }
            }
        }
        let mut with: Vec<Option<&OwnedTuple>> = tuples.iter().take(5).map(Some).collect();
        with.push(None);
        for t in with {
            let mut outlines = CFF2Outlines { table: &cff2, tuple: t };
            let mut sink = NullSink { ops: 0 };
            for g in probe_gids(n, &args.gids, 48) {
                match outlines.visit(g, &mut sink) {
                    Ok(()) => st.outlines_ok += 1,
                    Err(_) => st.outlines_err += 1,
                }
            }
        }
    });

    // re-serialising what was parsed (the subsetter and instancer do this with every table
    // they keep), and the table checksum helper
    run.stage("rewrite", |st| {
        use allsorts::binary::write::{WriteBinary, WriteBuffer};
        if let Ok(Some(d)) = prov.table_data(tag::CFF) {
            if let Ok(cff) = ReadScope::new(&d).read::<CFF<'_>>() {
                let mut w = WriteBuffer::new();
                if CFF::write(&mut w, &cff).is_ok() {
                    st.parsers_ok += 1;
                    std::hint::black_box(w.bytes().len());
                }
            }
        }
        if let Ok(Some(d)) = prov.table_data(tag::CFF2) {
            if let Ok(cff2) = ReadScope::new(&d).read::<CFF2<'_>>() {
                let mut w = WriteBuffer::new();
                if CFF2::write(&mut w, cff2).is_ok() {
                    st.parsers_ok += 1;
                    std::hint::black_box(w.bytes().len());
                }
            }
        }
    });
    run.stage("checksum", |_| {
        let mut tags = prov.table_tags().unwrap_or_default();
        tags.truncate(24);
        for t in tags {
            if let Ok(Some(d)) = prov.table_data(t) {
                // contract of table_checksum: the data is padded to a multiple of four bytes
                let mut padded = d.to_vec();
                while padded.len() % 4 != 0 {
                    padded.push(0);
                }
                let _ = std::hint::black_box(allsorts::checksum::table_checksum(&padded));
            }
        }
    });

    // kern, layout tables, morx (loading only; applying them is C02/C04/C05)
    run.stage("tables:kern", |st| {
        if let Ok(Some(d)) = prov.table_data(tag::KERN) {
            if let Some(kern) = count(st, ReadScope::new(&d).read::<KernTable<'_>>()) {
                for s in kern.sub_tables().take(8) {
                    if let Ok(s) = s {
                        std::hint::black_box((s.is_horizontal(), s.is_minimum(), s.is_cross_stream(), s.is_override()));
                        for (l, r) in [(0u16, 0u16), (1, 2), (36, 57), (0xFFFF, 0xFFFF)] {
                            std::hint::black_box(s.data().lookup(l, r));
                        }
                    }
                }
                std::hint::black_box(kern.to_owned());
            }
        }
    });
    run.stage("tables:layout", |st| {
        if let Ok(Some(d)) = prov.table_data(tag::GDEF) {
            if let Some(gdef) = count(st, ReadScope::new(&d).read::<GDEFTable>()) {
                for g in probe_gids(num_glyphs.unwrap_or(0), &args.gids, 16) {
                    std::hint::black_box(allsorts::gdef::gdef_is_mark(Some(&gdef), g));
                    std::hint::black_box(allsorts::gdef::glyph_class(Some(&gdef), g));
                    std::hint::black_box(allsorts::gdef::mark_attach_class(Some(&gdef), g));
                    for set in [0usize, 1, 2] {
                        std::hint::black_box(allsorts::gdef::glyph_is_mark_in_set(Some(&gdef), g, set));
                    }
                }
            }
        }
        if let Ok(Some(d)) = prov.table_data(tag::GSUB) {
            count(st, ReadScope::new(&d).read::<LayoutTable<GSUB>>());
        }
        if let Ok(Some(d)) = prov.table_data(tag::GPOS) {
            count(st, ReadScope::new(&d).read::<LayoutTable<GPOS>>());
        }
        if let (Ok(Some(d)), Some(n)) = (prov.table_data(tag::MORX), num_glyphs) {
            count(st, ReadScope::new(&d).read_dep::<MorxTable<'_>>(n));
        }
    });

    // embedded images, directly
    run.stage("tables:images", |st| {
        if let Ok(Some(d)) = prov.table_data(tag::SVG) {
            if let Some(svg) = count(st, ReadScope::new(&d).read::<SvgTable<'_>>()) {
                for g in probe_gids(num_glyphs.unwrap_or(0), &args.gids, 8) {
                    if let Ok(Some(_)) = svg.lookup_glyph(g) {
                        st.images_ok += 1;
                    }
                }
            }
        }
        if let (Ok(Some(d)), Some(n)) = (prov.table_data(tag::SBIX), num_glyphs) {
            if let Some(sbix) = count(st, ReadScope::new(&d).read_dep::<Sbix<'_>>(usize::from(n))) {
                for g in probe_gids(n, &args.gids, 8) {
                    for ppem in [0u16, args.ppem, 0xFFFF] {
                        if let Some(strike) = sbix.find_strike(g, ppem, BitDepth::ThirtyTwo) {
                            if let Ok(Some(_)) = strike.read_glyph(g) {
                                st.images_ok += 1;
                            }
                        }
                    }
                }
            }
        }
        for (loc, dat) in [(tag::CBLC, tag::CBDT), (tag::EBLC, tag::EBDT)] {
            if let (Ok(Some(ld)), Ok(Some(dd))) = (prov.table_data(loc), prov.table_data(dat)) {
                let cblc = count(st, ReadScope::new(&ld).read::<CBLCTable<'_>>());
                let cbdt = count(st, ReadScope::new(&dd).read::<CBDTTable<'_>>());
                if let (Some(cblc), Some(cbdt)) = (cblc, cbdt) {
                    for g in probe_gids(num_glyphs.unwrap_or(0), &args.gids, 8) {
                        for depth in [BitDepth::One, BitDepth::ThirtyTwo] {
                            if let Some(strike) = cblc.find_strike(g, args.ppem.min(255) as u8, depth) {
                                if let Ok(Some(_)) = strike.bitmap(&cbdt) {
                                    st.images_ok += 1;
                                }
                            }
                        }
                    }
                }
            }
        }
    });
    tuples
}

/// `Font::new` and every accessor of `Font`.
fn font_stages<P: FontTableProvider + SfntVersion>(prov: &P, args: &Args, tuples: &[OwnedTuple], run: &mut Run) {
    macro_rules! new_font {
        ($name:expr) => {
            match run.stage($name, |_| Font::new(RefProvider(prov))) {
                Some(Ok(f)) => f,
                _ => return,
            }
        };
    }
    let mut font = new_font!("font:new");
    run.stats.font_ok = true;
    let n = font.num_glyphs();

    let ok = run.stage("font:lookup", |_| {
        let sels = [None, Some(VariationSelector::VS15), Some(VariationSelector::VS16), Some(VariationSelector::VS01)];
        for mp in [MatchingPresentation::NotRequired, MatchingPresentation::Required] {
            for (i, ch) in args.chars.iter().enumerate() {
                std::hint::black_box(font.lookup_glyph_index(*ch, mp, sels[i % sels.len()]));
            }
            for ch in ['\u{25CC}', 'A', 'z', '0', '~', ' '] {
                std::hint::black_box(font.lookup_glyph_index(ch, mp, None));
            }
        }
        std::hint::black_box(font.cmap_subtable_data().len());
        for mp in [MatchingPresentation::NotRequired, MatchingPresentation::Required] {
            std::hint::black_box(font.map_glyphs(&args.text, args.script, mp).len());
        }
        std::hint::black_box(font.map_glyphs("\u{915}\u{94D}\u{937}", tag::DEVA, MatchingPresentation::NotRequired).len());
    });
    if ok.is_none() {
        font = new_font!("font:new");
    }

    let ok = run.stage("font:names-metrics", |_| {
        let gids = probe_gids(n, &args.gids, 48);
        std::hint::black_box(font.glyph_names(&gids).len());
        for g in &gids {
            std::hint::black_box(font.horizontal_advance(*g));
        }
        for g in &gids {
            std::hint::black_box(font.vertical_advance(*g));
        }
        std::hint::black_box((font.is_variable(), font.has_glyph_outlines()));
        let _ = std::hint::black_box(font.os2_table().map(|o| o.is_some()));
        let _ = std::hint::black_box(font.variation_axes().map(|a| a.len()));
        let _ = std::hint::black_box(font.axis_names().map(|a| a.len()));
    });
    if ok.is_none() {
        font = new_font!("font:new");
    }

    let ok = run.stage("font:images", |st| {
        use allsorts::font::GlyphTableFlags;
        std::hint::black_box(font.has_embedded_images());
        let gids = probe_gids(n, &args.gids, 16);
        for g in &gids {
            for depth in [BitDepth::ThirtyTwo, BitDepth::One] {
                for ppem in [args.ppem, 0, 0xFFFF] {
                    if let Ok(Some(_)) = font.lookup_glyph_image(*g, ppem, depth) {
                        st.images_ok += 1;
                    }
                }
            }
        }
        // opt into B&W tables too (a fresh font, as the image cache is keyed on the first filter)
        if let Ok(mut f2) = Font::new(RefProvider(prov)) {
            f2.set_embedded_image_filter(GlyphTableFlags::all());
            std::hint::black_box(f2.has_embedded_images());
            let all_gids = probe_gids(n, &args.gids, 16);
            for g in all_gids.iter() {
                for (ppem, depth) in [(args.ppem, BitDepth::ThirtyTwo), (12, BitDepth::One), (20, BitDepth::Eight), (24, BitDepth::Four), (28, BitDepth::Two)] {
                    if let Ok(Some(_)) = f2.lookup_glyph_image(*g, ppem, depth) {
                        st.images_ok += 1;
                    }
                }
            }
            f2.set_embedded_image_filter(GlyphTableFlags::SBIX | GlyphTableFlags::EBDT);
            std::hint::black_box(f2.has_embedded_images());
        }
    });
    if ok.is_none() {
        font = new_font!("font:new");
    }

    let ok = run.stage("font:layout-tables", |_| {
        let _ = std::hint::black_box(font.gdef_table().map(|t| t.is_some()));
        let _ = std::hint::black_box(font.gsub_cache().map(|t| t.is_some()));
        let _ = std::hint::black_box(font.gpos_cache().map(|t| t.is_some()));
        let _ = std::hint::black_box(font.kern_table().map(|t| t.is_some()));
        let _ = std::hint::black_box(font.morx_table().map(|t| t.is_some()));
        let _ = std::hint::black_box(font.vhea_table().map(|t| t.is_some()));
    });
    if ok.is_none() {
        font = new_font!("font:new");
    }

    if args.shape {
        run.stage("font:shape", |st| {
            use allsorts::gsub::{GlyphOrigin, RawGlyph, RawGlyphFlags};
            use allsorts::tinyvec::tiny_vec;
            st.shaped = true;
            // the caller's text through the font's cmap, and the first glyph ids directly (so that
            // coverage tables of tiny generated fonts are hit whatever their cmap says)
            let mapped = font.map_glyphs(&args.text, args.script, MatchingPresentation::NotRequired);
            let direct: Vec<RawGlyph<()>> = [1u16, 2, 3, 1, 4, 5, 2, 6, 7, 3]
                .iter()
                .enumerate()
                .filter(|(_, g)| **g < n.max(1))
                .map(|(i, g)| {
                    let ch = (b'a' + i as u8) as char;
                    RawGlyph {
                        unicodes: tiny_vec![[char; 1] => ch],
                        glyph_index: *g,
                        liga_component_pos: 0,
                        glyph_origin: GlyphOrigin::Char(ch),
                        flags: RawGlyphFlags::empty(),
                        extra_data: (),
                        variation: None,
                    }
                })
                .collect();
            let features = Features::Mask(FeatureMask::default());
            // the caller's script, then the scripts with a shaper of their own (the direct glyph
            // run only: what matters here is which lookups of the font get applied and how)
            let mut runs = vec![(mapped, true, args.script), (direct.clone(), true, args.script), (direct.clone(), false, args.script)];
            for script in [tag::ARAB, tag::DEVA, tag::THAI, tag::KHMR, tag::SYRC, tag::MYM2] {
                if script != args.script {
                    runs.push((direct.clone(), true, script));
                }
            }
            for (glyphs, kerning, script) in runs {
                let tuple = if kerning { tuples.first().map(|t| t.as_tuple()) } else { tuples.get(1).map(|t| t.as_tuple()) };
                let infos = match font.shape(glyphs, script, None, &features, tuple, kerning) {
                    Ok(infos) => infos,
                    Err((_, infos)) => infos,
                };
                let mut layout = allsorts::glyph_position::GlyphLayout::new(&mut font, &infos, allsorts::glyph_position::TextDirection::LeftToRight, false);
                let _ = std::hint::black_box(layout.glyph_positions().map(|p| p.len()));
            }
        });
    }
}

fn subset_stages<P: FontTableProvider + SfntVersion>(prov: &P, args: &Args, run: &mut Run) {
    let n = match prov.table_data(tag::MAXP) {
        Ok(Some(d)) => match ReadScope::new(&d).read::<MaxpTable>() {
            Ok(m) => m.num_glyphs,
            Err(_) => 0,
        },
        _ => 0,
    };
    let mut lists: Vec<Vec<u16>> = Vec::new();
    // valid: 0 + a few in-range ids
    let mut valid: Vec<u16> = vec![0];
    for g in [1u16, 2, 3, 5, 8, n.wrapping_sub(1)] {
        if g < n && !valid.contains(&g) {
            valid.push(g);
        }
    }
    lists.push(valid);
    lists.push(vec![0]);
    if args.heavy {
        lists.push((0..n.min(48)).collect());
        lists.push(Vec::new());
        lists.push(vec![0, n]); // out of range
        lists.extend(args.glyph_lists.iter().cloned());
    }
    for (i, l) in lists.iter().enumerate() {
        run.stage("subset", |st| match allsorts::subset::subset(prov, l) {
            Ok(out) => {
                st.subset_ok += 1;
                std::hint::black_box(out.len());
            }
            Err(_) => st.subset_err += 1,
        });
        if !args.heavy && i >= 1 {
            break;
        }
    }
    // prince::subset: all four cmap targets, both CID switches
    let mut mac = Box::new([0u8; 256]);
    for (i, b) in mac.iter_mut().enumerate() {
        *b = (i % 7) as u8;
    }
    let targets = [
        PrinceCmapTarget::Unrestricted,
        PrinceCmapTarget::MacRoman,
        PrinceCmapTarget::Omit,
        PrinceCmapTarget::MacRomanCmap(mac),
    ];
    let plists = if args.heavy { &lists[..lists.len().min(3)] } else { &lists[..1] };
    for l in plists {
        for (ti, t) in targets.iter().enumerate() {
            for cid in [false, true] {
                if !args.heavy && (ti % 2 == 1) == cid {
                    continue;
                }
                run.stage("subset:prince", |st| match allsorts::subset::prince::subset(prov, l, t.clone(), cid) {
                    Ok(out) => {
                        st.subset_ok += 1;
                        std::hint::black_box(out.len());
                    }
                    Err(_) => st.subset_err += 1,
                });
            }
        }
    }
    if prov.has_table(tag::CFF2) {
        run.stage("subset:prince-cff2", |st| match allsorts::subset::prince::subset_cff2_table(prov, &lists[0]) {
            Ok(out) => {
                st.subset_ok += 1;
                std::hint::black_box(out.len());
            }
            Err(_) => st.subset_err += 1,
        });
    }
    // whole_font with the font's own tags, and with a fixed list
    run.stage("whole_font", |st| {
        let mut tags = prov.table_tags().unwrap_or_default();
        tags.truncate(64);
        if let Ok(out) = allsorts::subset::whole_font(prov, &tags) {
            st.whole_ok = true;
            std::hint::black_box(out.len());
        }
        let fixed = [tag::CMAP, tag::GLYF, tag::HHEA, tag::HMTX, tag::NAME, tag::POST, tag::CFF];
        let _ = std::hint::black_box(allsorts::subset::whole_font(prov, &fixed).map(|o| o.len()));
    });
}

fn variation_stages<P: FontTableProvider + SfntVersion>(prov: &P, args: &Args, run: &mut Run) {
    if !prov.has_table(tag::FVAR) {
        return;
    }
    let axes: Vec<(i32, i32, i32)> = match prov.table_data(tag::FVAR) {
        Ok(Some(d)) => match run.stage("fvar:read", |_| {
            ReadScope::new(&d)
                .read::<FvarTable<'_>>()
                .map(|f| {
                    f.axes()
                        .take(64)
                        .map(|a| (a.min_value.raw_value(), a.default_value.raw_value(), a.max_value.raw_value()))
                        .collect::<Vec<_>>()
                })
                .unwrap_or_default()
        }) {
            Some(a) => a,
            None => return,
        },
        _ => Vec::new(),
    };
    run.stage("axis_names", |_| {
        let _ = std::hint::black_box(allsorts::variations::axis_names(prov).map(|a| a.len()));
    });
    let n = axes.len();
    let modes: &[u8] = if args.heavy { &[3, 0, 1, 2, 4, 5] } else { &[3] };
    let mut users: Vec<Vec<Fixed>> = modes.iter().map(|m| user_tuple(&args.coords, n, *m, &axes)).collect();
    let extra = if args.heavy { 6 } else { 2 };
    users.extend(args.extra_tuples.iter().take(extra).map(|t| t.iter().map(|v| Fixed::from_raw(*v)).collect::<Vec<_>>()));
    for user in &users {
        run.stage("instance", |st| match allsorts::variations::instance(prov, user) {
            Ok((out, t)) => {
                st.instance_ok += 1;
                std::hint::black_box((out.len(), t.len()));
            }
            Err(_) => st.instance_err += 1,
        });
    }
    // wrong tuple lengths
    for len in [0usize, n + 1] {
        let user = user_tuple(&args.coords, len, 3, &axes);
        run.stage("instance", |st| match allsorts::variations::instance(prov, &user) {
            Ok(_) => st.instance_ok += 1,
            Err(_) => st.instance_err += 1,
        });
    }
}
