//! C01 — untrusted font data is rejected with an error, never a crash (fault enumeration).
//!
//! Three generators feed one driver (`driver::exercise`, every public operation that consumes
//! font bytes, stage by stage):
//!   * `intact`     every seed unmodified (sanity + baseline);
//!   * `fields`     deterministic field-directed enumeration: every 16-bit aligned u16 in the
//!                  first N bytes of every table of a set of tiny seeds set to every boundary
//!                  value, one at a time; plus every directory offset/length boundary;
//!   * `faults`     proptest: seed × 1–4 structured faults × random driver arguments;
//!   * `containers` proptest: WOFF / WOFF2 / TTC seeds (fixtures and my own re-wraps of sfnt
//!                  seeds) with faults confined to container headers and directories.
//! Oracle: the driver returns — no panic, abort, stack overflow, refused size-field allocation
//! or hang — and the verif-hooks bounds assertion of the binary reader never fires.

use crate::engine::util::pick;
use crate::engine::{CaseResult, Ctx, Property, Rec};
use proptest::prelude::*;

#[path = "c01_driver.rs"]
pub mod driver;
#[path = "c01_faults.rs"]
pub mod faults;
#[path = "c01_gen.rs"]
pub mod gen;

pub use driver::{exercise, Args, Stats};
use faults::{analyse, apply, seeds, Fault, Kind, RClass, Seed};

pub struct C01;

// ------------------------------------------------------------------------------------------
// classification shared by all sections

fn classify(stats: &Stats, rec: &mut Rec) {
    rec.class(if stats.read_ok { "load:ok" } else { "load:rejected" });
    if stats.read_ok {
        rec.class(&format!("container:{}", stats.kind));
    }
    rec.class_if(stats.provider_ok > 0, "provider:ok");
    rec.class_if(stats.read_ok && stats.provider_ok == 0, "provider:rejected");
    rec.class_if(stats.font_ok, "font:ok");
    rec.class_if(stats.provider_ok > 0 && !stats.font_ok, "font:rejected");
    rec.class_if(stats.cmap_subtables_ok > 0, "cmap-subtable:ok");
    rec.class_if(stats.outlines_ok > 0, "outline:visited");
    rec.class_if(stats.outlines_err > 0, "outline:error");
    rec.class_if(stats.images_ok > 0, "image:found");
    rec.class_if(stats.subset_ok > 0, "subset:ok");
    rec.class_if(stats.subset_err > 0, "subset:error");
    rec.class_if(stats.whole_ok, "whole_font:ok");
    rec.class_if(stats.instance_ok > 0, "instance:ok");
    rec.class_if(stats.instance_err > 0, "instance:error");
    rec.class_if(stats.parsers_err > 0, "table-parser:error");
    rec.class_if(stats.shaped, "shaped");
    rec.class_if(stats.stages_panicked > 0, "stage-panicked(known)");
    // N: FontData::read succeeded and at least one table parser beyond the directory ran
    rec.set_nontrivial(stats.read_ok && stats.tables_ok >= 1 && stats.parsers_ok + stats.parsers_err >= 1);
}

/// driver arguments adapted to the seed a case was derived from
fn args_for(seed: &Seed, base: &Args) -> Args {
    let mut a = base.clone();
    if !seed.tuples.is_empty() {
        a.extra_tuples = seed.tuples.clone();
    }
    a.shape |= seed.shape;
    a
}

fn run_bytes(bytes: &[u8], args: &Args, rec: &mut Rec) -> CaseResult {
    rec.artefact("font", bytes);
    rec.hash_bytes(bytes);
    rec.hash_u64(args.hash());
    let (stats, res) = exercise(bytes, args, rec);
    classify(&stats, rec);
    res
}

/// Entry point of the `c01_bytes` libFuzzer target and of `vcheck replay-bytes c01_bytes`.
pub fn check_bytes(data: &[u8], rec: &mut Rec) -> CaseResult {
    if data.len() > 1 << 20 {
        return Ok(());
    }
    let mut args = Args::fixed();
    // layout tables present: shape lightly (kerning on)
    args.shape = analyse(data).regions.iter().any(|r| r.class == RClass::Table && ["GSUB", "GPOS", "kern", "morx"].contains(&r.name.as_str()));
    let (_, res) = exercise(data, &args, rec);
    res
}

fn seed_group(s: &Seed) -> &'static str {
    if s.name.starts_with("gen:") {
        "seed:generated"
    } else if s.name.starts_with("aots/") {
        "seed:aots"
    } else {
        match s.kind {
            Kind::Woff => "seed:woff",
            Kind::Woff2 => "seed:woff2",
            Kind::Ttc => "seed:ttc",
            _ => "seed:fixture-sfnt",
        }
    }
}

// ------------------------------------------------------------------------------------------
// field-directed enumeration

#[derive(Clone, Debug)]
struct FieldItem {
    seed: usize,
    /// absolute byte position and width of the field
    at: usize,
    width: u8,
    value: u32,
    what: String,
}

const TINY_QUICK: &[&str] = &[
    "fonts/opentype/test-font.ttf",
    "fonts/opentype/SFNT-TTF-Composite.ttf",
    "aots/base.otf",
    "fonts/opentype/cff2/SourceSansVariable-Roman.abc.otf",
    "fonts/variable/Inter[slnt,wght].abc.ttf",
    "fonts/variable/UnderlineTest-VF.ttf",
    "fonts/sbix/sbix-dupe.ttf",
    "fonts/svg/gzipped.ttf",
    "fonts/opentype/SymbolTest-Regular.ttf",
    "gen:basic-astral-longloca",
    "gen:basic-vertical-kern",
    "gen:stored:fonts/woff2/test-font.woff2",
    "gen:stored:fonts/woff2/roundtrip-hmtx-lsb-001.woff2",
    // one generated font per table kind / format (the remaining ones: thorough tier)
    "gen:cmap-f2-big5",
    "gen:cmap-f6-unicode",
    "gen:cmap-f10-ucs4",
    "gen:cmap-f12-ucs4",
    "gen:cmap-f4-f12-f14-f0",
    "gen:glyf-composites0",
    "gen:glyf-chain",
    "gen:var-0",
    "gen:var-3",
    "gen:cff-name",
    "gen:cff-cid-a",
    "gen:cff-cid-b",
    "gen:cff2-static",
    "gen:cff2-var2",
    "gen:gsub-0",
    "gen:gpos-0",
    "gen:gpos-2-kern",
    "gen:c02:synthetic/kern-only",
    "gen:c02:synthetic/morx",
    "gen:c02:synthetic/multi-script:arab",
    "gen:stored:gen:woff2-coll0",
    "gen:stored:gen:woff2-xf0",
    "gen:bitmap-ebdt",
    "gen:bitmap-cbdt",
    // reference cycles
    "gen:sbix-dupe-cycles",
    "gen:composite-cycles-var",
    "gen:cff-seac-mutual",
    "gen:cff-local-global-cycle",
    "gen:cff2-local-global-cycle",
];

const TINY_THOROUGH: &[&str] = &[
    "fonts/opentype/cff2/SourceSans3.abc.otf",
    "fonts/opentype/NotoSans-VF.abc.ttf",
    "gen:basic",
    "gen:basic-fvar-avar",
    "gen:stored:fonts/woff2/SFNT-TTF-Composite.woff2",
    "gen:stored:fonts/woff2/roundtrip-offset-tables-001.woff2",
    "gen:stored:fonts/woff2/test_glyf_loca_null_transforms.woff2",
];

/// seeds of which only the cmap table is enumerated (one per cmap format)
const CMAP_SEEDS: &[&str] = &[
    "aots/cmap0_font1.otf",
    "aots/cmap2_font1.otf",
    "aots/cmap4_font1.otf",
    "aots/cmap4_font4.otf",
    "aots/cmap6_font1.otf",
    "aots/cmap8_font1.otf",
    "aots/cmap10_font1.otf",
    "aots/cmap12_font1.otf",
    "aots/cmap14_font1.otf",
];

const STRUCTURAL: &[&str] = &[
    "GSUB", "GPOS", "GDEF", "morx", "cvt ", "EBLC", "EBDT", "CBLC", "CBDT",
    "cmap", "CFF ", "CFF2", "fvar", "gvar", "HVAR", "MVAR", "STAT", "avar", "loca", "post", "sbix", "SVG ", "kern",
    "glyf", "name", "cvar",
];

fn field_plan(thorough: bool) -> Vec<FieldItem> {
    let all = seeds();
    let find = |n: &str| all.iter().position(|s| s.name == n);
    let mut plan = Vec::new();
    let mut full: Vec<usize> = TINY_QUICK.iter().filter_map(|n| find(n)).collect();
    if thorough {
        full.extend(TINY_THOROUGH.iter().filter_map(|n| find(n)));
        // every generated per-format seed
        for (i, s) in all.iter().enumerate() {
            let generated = ["gen:cmap-", "gen:glyf-", "gen:var-", "gen:cff", "gen:gsub-", "gen:gpos-", "gen:c02:", "gen:stored:gen:", "gen:bitmap-", "gen:sbix-", "gen:composite-cycles", "gen:lookup-"].iter().any(|p| s.name.starts_with(p));
            if generated && !full.contains(&i) {
                full.push(i);
            }
        }
    }
    let cmap_only: Vec<usize> = CMAP_SEEDS.iter().filter_map(|n| find(n)).collect();
    for (si, only_cmap) in full.iter().map(|s| (*s, false)).chain(cmap_only.iter().map(|s| (*s, true))) {
        let s = &all[si];
        let l = analyse(&s.bytes);
        if l.kind != Kind::Sfnt && l.kind != Kind::Woff2 {
            continue;
        }
        let flen = s.bytes.len() as u32;
        for r in l.regions.iter().filter(|r| r.class == RClass::Table) {
            if only_cmap && r.name != "cmap" {
                continue;
            }
            let structural = STRUCTURAL.contains(&r.name.as_str());
            let n = match (thorough, structural || only_cmap) {
                (true, _) => 1024,
                (false, true) => 384,
                (false, false) => 96,
            };
            let len = r.len as u32;
            let mut pos = 0usize;
            while pos + 2 <= r.len && pos < n {
                let at = r.off + pos;
                let orig = u16::from_be_bytes([s.bytes[at], s.bytes[at + 1]]) as u32;
                let mut vals: Vec<u32> = vec![0, 1, 0x7FFF, 0x8000, 0xFFFE, 0xFFFF, len & 0xFFFF, (len + 1) & 0xFFFF, len.wrapping_sub(1) & 0xFFFF];
                // distance to the end of the table from this field: the value that makes an
                // offset/length read from here end exactly at / one past the end
                let rest = len - pos as u32;
                vals.push(rest & 0xFFFF);
                vals.push((rest + 1) & 0xFFFF);
                vals.push(orig.wrapping_add(1) & 0xFFFF);
                let mut seen = Vec::new();
                for v in vals {
                    if v == orig || seen.contains(&v) {
                        continue;
                    }
                    seen.push(v);
                    plan.push(FieldItem {
                        seed: si,
                        at,
                        width: 2,
                        value: v,
                        what: format!("{} {}+{} u16 {:#x}->{:#x}", s.name, r.name, pos, orig, v),
                    });
                }
                pos += 2;
            }
        }
        // byte-granular sweep of the tables whose fields are not 16-bit aligned (CFF INDEX
        // offSize/offsets, DICT operands, charstrings, packed gvar data, glyph flags)
        for r in l.regions.iter().filter(|r| r.class == RClass::Table) {
            let bytewise = ["CFF ", "CFF2", "gvar", "glyf", "cmap", "post", "SVG ", "sbix", "cvar", "HVAR", "MVAR", "kern", "morx", "EBLC", "EBDT", "CBLC", "CBDT"];
            let in_woff2 = l.kind == Kind::Woff2 && ["glyf", "loca", "hmtx", "head", "maxp", "hhea"].contains(&r.name.as_str());
            if !(bytewise.contains(&r.name.as_str()) || in_woff2) || (only_cmap && r.name != "cmap") {
                continue;
            }
            let n = if thorough { 4096 } else { 768 };
            for pos in 0..r.len.min(n) {
                let at = r.off + pos;
                let orig = s.bytes[at] as u32;
                let mut seen = Vec::new();
                for v in [0u32, 1, 0x7F, 0x80, 0xFE, 0xFF, (orig + 1) & 0xFF, orig.wrapping_sub(1) & 0xFF, orig ^ 0x80, orig ^ 0x01] {
                    // values the 16-bit sweep already produces at this byte are not repeated
                    let dup16 = pos % 2 == 1 && (v == 0 || v == 0xFF || v == 1 || v == 0xFE);
                    if v == orig || seen.contains(&v) || dup16 {
                        continue;
                    }
                    seen.push(v);
                    plan.push(FieldItem {
                        seed: si,
                        at,
                        width: 1,
                        value: v,
                        what: format!("{} {}+{} u8 {:#x}->{:#x}", s.name, r.name, pos, orig, v),
                    });
                }
            }
        }
        // anchors (sub-table, glyph, INDEX, strike ... headers found by my own readers): every
        // byte and every 16-bit field aligned to the structure start
        for r in l.regions.iter().filter(|r| r.class == RClass::Anchor) {
            if only_cmap && !r.name.starts_with("cmap@") {
                continue;
            }
            let tab = l.regions.iter().find(|t| t.class == RClass::Table && t.off <= r.off && r.off < t.off + t.len);
            let (tlen, rest) = match tab {
                Some(t) => (t.len as u32, (t.off + t.len - r.off) as u32),
                None => (r.len as u32, r.len as u32),
            };
            for pos in 0..r.len {
                let at = r.off + pos;
                let orig = s.bytes[at] as u32;
                let mut seen = Vec::new();
                for v in [0u32, 1, 0x7F, 0x80, 0xFE, 0xFF, (orig + 1) & 0xFF, orig.wrapping_sub(1) & 0xFF, orig ^ 0x80] {
                    if v == orig || seen.contains(&v) {
                        continue;
                    }
                    seen.push(v);
                    plan.push(FieldItem { seed: si, at, width: 1, value: v, what: format!("{} {}+{} u8 {:#x}->{:#x}", s.name, r.name, pos, orig, v) });
                }
                if pos % 2 == 0 && pos + 2 <= r.len {
                    let orig = u16::from_be_bytes([s.bytes[at], s.bytes[at + 1]]) as u32;
                    let mut seen = Vec::new();
                    for v in [0x7FFFu32, 0x8000, 0xFFFE, 0xFFFF, tlen & 0xFFFF, (tlen + 1) & 0xFFFF, tlen.wrapping_sub(1) & 0xFFFF, rest.wrapping_sub(pos as u32) & 0xFFFF, (rest + 1).wrapping_sub(pos as u32) & 0xFFFF, orig.wrapping_add(1) & 0xFFFF, orig.wrapping_mul(2) & 0xFFFF] {
                        if v == orig || seen.contains(&v) {
                            continue;
                        }
                        seen.push(v);
                        plan.push(FieldItem { seed: si, at, width: 2, value: v, what: format!("{} {}+{} u16 {:#x}->{:#x}", s.name, r.name, pos, orig, v) });
                    }
                }
            }
        }
        if l.kind == Kind::Woff2 {
            // WOFF2 header and directory, byte by byte
            for r in l.regions.iter().filter(|r| matches!(r.class, RClass::Header | RClass::Directory)) {
                for pos in 0..r.len {
                    let at = r.off + pos;
                    let orig = s.bytes[at] as u32;
                    let mut seen = Vec::new();
                    for v in [0u32, 1, 0x3F, 0x7F, 0x80, 0xFE, 0xFF, (orig + 1) & 0xFF, orig.wrapping_sub(1) & 0xFF, orig ^ 0x40, orig ^ 0x80, orig ^ 0xC0] {
                        if v == orig || seen.contains(&v) {
                            continue;
                        }
                        seen.push(v);
                        plan.push(FieldItem { seed: si, at, width: 1, value: v, what: format!("{} {}+{} u8 {:#x}->{:#x}", s.name, r.name, pos, orig, v) });
                    }
                }
            }
            continue;
        }
        if only_cmap {
            continue;
        }
        // directory: offset and length of every record
        for rc in &l.records {
            for (rel, fname) in [(8usize, "offset"), (12, "length")] {
                let at = rc.at + rel;
                if at + 4 > s.bytes.len() {
                    continue;
                }
                let orig = u32::from_be_bytes([s.bytes[at], s.bytes[at + 1], s.bytes[at + 2], s.bytes[at + 3]]);
                let other = u32::from_be_bytes([s.bytes[rc.at + 20 - rel], s.bytes[rc.at + 21 - rel], s.bytes[rc.at + 22 - rel], s.bytes[rc.at + 23 - rel]]);
                let vals = [
                    0u32,
                    1,
                    flen,
                    flen - 1,
                    flen + 1,
                    flen.wrapping_sub(other),
                    flen.wrapping_sub(other).wrapping_add(1),
                    0xFFFF_FFFF,
                    0xFFFF_FFFF - other,
                    0xFFFF_FFFF - other + 1,
                    0x8000_0000,
                    0x7FFF_FFFF,
                    orig.wrapping_add(1),
                    orig.wrapping_sub(1),
                    orig.wrapping_add(2),
                    12,
                ];
                let mut seen = Vec::new();
                for v in vals {
                    if v == orig || seen.contains(&v) {
                        continue;
                    }
                    seen.push(v);
                    plan.push(FieldItem {
                        seed: si,
                        at,
                        width: 4,
                        value: v,
                        what: format!("{} dir[{}].{} {:#x}->{:#x}", s.name, String::from_utf8_lossy(&rc.tag), fname, orig, v),
                    });
                }
            }
        }
        // sfnt header: numTables
        for v in [0u32, 1, 0xFFFF, 0x8000, l.records.len() as u32 + 1, (l.records.len() as u32).saturating_sub(1)] {
            plan.push(FieldItem { seed: si, at: 4, width: 2, value: v, what: format!("{} numTables->{}", s.name, v) });
        }
    }
    plan
}

fn field_case(item: &FieldItem, args: &Args, rec: &mut Rec) -> CaseResult {
    let s = &seeds()[item.seed];
    let mut bytes = s.bytes.clone();
    let be = item.value.to_be_bytes();
    let w = item.width as usize;
    if item.at + w <= bytes.len() {
        bytes[item.at..item.at + w].copy_from_slice(&be[4 - w..]);
    }
    rec.sample(|| item.what.clone());
    rec.class(&format!("fields:{}", s.name.rsplit('/').next().unwrap_or("?")));
    run_bytes(&bytes, &args_for(s, args), rec)
}

// ------------------------------------------------------------------------------------------
// random structured faults

#[derive(Clone, Debug)]
struct FaultCase {
    group_r: u32,
    seed_r: u32,
    faults: Vec<Fault>,
    args: ArgSpec,
}

#[derive(Clone, Debug)]
struct ArgSpec {
    index: u32,
    chars: Vec<u32>,
    text: Vec<u32>,
    script: u8,
    gids: Vec<u16>,
    lists: Vec<Vec<u16>>,
    ppem: u16,
    coords: Vec<i32>,
    name_ids: Vec<u16>,
    shape: bool,
    heavy: bool,
}

const CHAR_POOL: &[u32] = &[
    0x00, 0x09, 0x1F, 0x20, 0x41, 0x42, 0x61, 0x66, 0x69, 0x7E, 0xA0, 0xE9, 0x301, 0x627, 0x644, 0x915, 0x94D, 0xE33, 0x200D, 0x25CC,
    0x4E00, 0xF020, 0xF041, 0xFE0E, 0xFE0F, 0xFFFF, 0x10000, 0x1F600, 0xE0100, 0x10FFFF,
];

impl ArgSpec {
    fn resolve(&self) -> Args {
        let ch = |r: &u32| char::from_u32(CHAR_POOL[pick(CHAR_POOL.len(), *r)]).unwrap_or('A');
        Args {
            index: match self.index % 8 {
                0 => 0,
                1 => 1,
                2 => 2,
                3 => 3,
                4 => 0xFFFF,
                5 => usize::MAX,
                6 => 4,
                _ => (self.index >> 8) as usize,
            },
            chars: self.chars.iter().map(ch).collect(),
            text: self.text.iter().map(ch).collect(),
            script: [allsorts::tag::LATN, allsorts::tag::ARAB, allsorts::tag::DEVA, allsorts::tag::THAI, 0][self.script as usize % 5],
            gids: self.gids.clone(),
            glyph_lists: self.lists.clone(),
            ppem: self.ppem,
            coords: self.coords.clone(),
            name_ids: self.name_ids.clone(),
            extra_tuples: Vec::new(),
            shape: self.shape,
            heavy: self.heavy,
        }
    }
}

fn gid_strategy() -> impl Strategy<Value = u16> {
    prop_oneof![
        6 => 0u16..64,
        2 => 64u16..1024,
        1 => prop::sample::select(vec![0x7FFFu16, 0x8000, 0xFFFE, 0xFFFF, 255, 256, 257]),
        1 => any::<u16>(),
    ]
}

fn arg_strategy() -> impl Strategy<Value = ArgSpec> {
    (
        (any::<u32>(), prop::collection::vec(any::<u32>(), 0..6), prop::collection::vec(any::<u32>(), 0..8), any::<u8>()),
        (
            prop::collection::vec(gid_strategy(), 0..5),
            prop::collection::vec(prop::collection::vec(gid_strategy(), 0..8), 0..3),
            prop_oneof![Just(0u16), Just(16), Just(32), Just(255), Just(256), any::<u16>()],
        ),
        (
            prop::collection::vec(
                prop_oneof![
                    3 => (0i32..1000).prop_map(|v| v << 16),
                    1 => any::<i32>(),
                    1 => prop::sample::select(vec![i32::MIN, i32::MAX, 0, -1, 1, 1 << 16, -(1 << 16)]),
                ],
                0..4,
            ),
            prop::collection::vec(prop_oneof![0u16..26, 255u16..300, any::<u16>()], 0..4),
            prop::bool::weighted(0.15),
            prop::bool::weighted(0.35),
        ),
    )
        .prop_map(|((index, chars, text, script), (gids, lists, ppem), (coords, name_ids, shape, heavy))| ArgSpec {
            index,
            chars,
            text,
            script,
            gids,
            lists,
            ppem,
            coords,
            name_ids,
            shape,
            heavy,
        })
}

fn fault_strategy(container_only: bool) -> BoxedStrategy<Fault> {
    let overwrite = (any::<u32>(), 0u8..10, 0u8..10, any::<u32>(), prop_oneof![Just(1u8), Just(2), Just(2), Just(2), Just(4)], 0u8..16, any::<u32>());
    if container_only {
        prop_oneof![
            40 => overwrite.prop_map(|(region, _, pos_kind, pos, width, val_kind, val)| Fault::Overwrite {
                region, class_bias: if region & 1 == 0 { 6 } else { 8 }, pos_kind: if pos_kind < 6 { 9 } else { pos_kind }, pos, width, val_kind, val
            }),
            20 => (any::<u32>(), any::<u8>(), 0u8..12, any::<u32>()).prop_map(|(rec, field, val_kind, val)| Fault::DirField { rec, field, val_kind, val }),
            8 => (0u8..6, any::<u32>()).prop_map(|(val_kind, val)| Fault::NumTables { val_kind, val }),
            10 => (any::<u32>(), prop::sample::select(vec![0x40u8, 0x80, 0xC0, 0x01, 0x3F, 0x0A, 0x0B])).prop_map(|(rec, xor)| Fault::Woff2Flags { rec, xor }),
            6 => (0u8..4, any::<u32>()).prop_map(|(kind, r)| Fault::Truncate { kind, r }),
            5 => any::<u32>().prop_map(|rec| Fault::DeleteTable { rec }),
            4 => (any::<u32>(), any::<u32>()).prop_map(|(a, b)| Fault::SwapRecords { a, b }),
            3 => (any::<u32>(), any::<u32>()).prop_map(|(rec, other)| Fault::DuplicateTag { rec, other }),
            4 => (any::<u32>(), any::<u32>(), any::<bool>(), any::<u8>()).prop_map(|(region, pos, remove, n)| Fault::Splice { region, pos, remove, n }),
            4 => rewire_strategy(),
        ]
        .boxed()
    } else {
        prop_oneof![
            52 => overwrite.prop_map(|(region, class_bias, pos_kind, pos, width, val_kind, val)| Fault::Overwrite { region, class_bias, pos_kind, pos, width, val_kind, val }),
            8 => (0u8..4, any::<u32>()).prop_map(|(kind, r)| Fault::Truncate { kind, r }),
            6 => any::<u32>().prop_map(|rec| Fault::DeleteTable { rec }),
            4 => (any::<u32>(), any::<u32>()).prop_map(|(a, b)| Fault::SwapRecords { a, b }),
            10 => (any::<u32>(), any::<u8>(), 0u8..12, any::<u32>()).prop_map(|(rec, field, val_kind, val)| Fault::DirField { rec, field, val_kind, val }),
            3 => (any::<u32>(), any::<u32>()).prop_map(|(rec, other)| Fault::DuplicateTag { rec, other }),
            3 => (0u8..6, any::<u32>()).prop_map(|(val_kind, val)| Fault::NumTables { val_kind, val }),
            2 => (any::<u32>(), prop::sample::select(vec![0x40u8, 0x80, 0xC0, 0x01])).prop_map(|(rec, xor)| Fault::Woff2Flags { rec, xor }),
            4 => (any::<u32>(), any::<u32>(), any::<bool>(), any::<u8>()).prop_map(|(region, pos, remove, n)| Fault::Splice { region, pos, remove, n }),
            8 => rewire_strategy(),
        ]
        .boxed()
    }
}

/// 1-3 references of one kind rewired into a cycle (or a chain ending at a boundary index)
fn rewire_strategy() -> impl Strategy<Value = Fault> {
    (
        any::<u32>(),
        prop_oneof![2 => prop::collection::vec(any::<u32>(), 1..=1), 5 => prop::collection::vec(any::<u32>(), 2..=2), 3 => prop::collection::vec(any::<u32>(), 3..=3)],
        prop::option::weighted(0.2, prop::sample::select(vec![0u32, 0xFFFF, 0xFFF0, 0x7FFF, 1])),
    )
        .prop_map(|(kind, picks, tail)| Fault::Rewire { kind, picks, tail })
}

fn fault_case_strategy() -> impl Strategy<Value = FaultCase> {
    // 1–4 faults, weighted towards few (so that most fonts still load)
    let n = prop_oneof![5 => Just(1usize), 3 => Just(2usize), 1 => Just(3usize), 1 => Just(4usize)];
    (any::<u32>(), any::<u32>(), n.prop_flat_map(|n| prop::collection::vec(fault_strategy(false), n..=n)), arg_strategy())
        .prop_map(|(group_r, seed_r, faults, args)| FaultCase { group_r, seed_r, faults, args })
}

fn fault_case(c: &FaultCase, rec: &mut Rec) -> CaseResult {
    let si = faults::choose_seed(c.group_r, c.seed_r);
    let s = &seeds()[si];
    let mut bytes = s.bytes.clone();
    let mut descs = Vec::new();
    for f in &c.faults {
        let d = apply(&mut bytes, f);
        if let Some(rest) = d.strip_prefix("rewire ") {
            if d.contains("->") {
                rec.class(&format!("rewired:{}", rest.split(':').next().unwrap_or("?")));
            }
        }
        descs.push(d);
        rec.class(&format!("fault:{}", f.kind_name()));
    }
    rec.class(seed_group(s));
    rec.class(&format!("nfaults:{}", c.faults.len()));
    rec.sample(|| format!("{} [{} B] {}", s.name, bytes.len(), descs.join("; ")));
    run_bytes(&bytes, &args_for(s, &c.args.resolve()), rec)
}

#[derive(Clone, Debug)]
struct ContainerCase {
    seed_r: u32,
    /// Some: wrap an sfnt seed first
    wrap: Option<(u8, u32)>,
    pre: Option<Fault>,
    faults: Vec<Fault>,
    args: ArgSpec,
}

fn container_case_strategy() -> impl Strategy<Value = ContainerCase> {
    (
        any::<u32>(),
        prop::option::weighted(0.6, (0u8..6, any::<u32>())),
        prop::option::weighted(0.2, fault_strategy(false)),
        prop::collection::vec(fault_strategy(true), 0..=3),
        arg_strategy(),
    )
        .prop_map(|(seed_r, wrap, pre, faults, args)| ContainerCase { seed_r, wrap, pre, faults, args })
}

fn container_case(c: &ContainerCase, rec: &mut Rec) -> CaseResult {
    let g = faults::groups();
    let all = seeds();
    let mut descs = Vec::new();
    let (s, mut bytes) = match c.wrap {
        Some((kind, r)) => {
            // a small bare sfnt seed, optionally damaged, then wrapped by my encoders
            let pool: Vec<usize> = g.small.iter().chain(g.generated.iter()).chain(g.aots.iter().take(12)).copied().filter(|i| all[*i].kind == Kind::Sfnt).collect();
            if pool.is_empty() {
                return Ok(());
            }
            let s = &all[pool[pick(pool.len(), c.seed_r)]];
            let mut b = s.bytes.clone();
            if let Some(p) = &c.pre {
                descs.push(apply(&mut b, p));
            }
            let w = Fault::Wrap { kind, r };
            descs.push(apply(&mut b, &w));
            rec.class(&format!("wrap:{}", kind % 6));
            (s, b)
        }
        None => {
            let pool: Vec<usize> = g.webfonts.iter().chain(g.generated.iter()).copied().filter(|i| all[*i].kind != Kind::Sfnt).collect();
            if pool.is_empty() {
                return Ok(());
            }
            let s = &all[pool[pick(pool.len(), c.seed_r)]];
            (s, s.bytes.clone())
        }
    };
    for f in &c.faults {
        descs.push(apply(&mut bytes, f));
        rec.class(&format!("cfault:{}", f.kind_name()));
    }
    rec.class(&format!("ckind:{}", analyse(&bytes).kind.as_str()));
    rec.sample(|| format!("{} [{} B] {}", s.name, bytes.len(), descs.join("; ")));
    run_bytes(&bytes, &args_for(s, &c.args.resolve()), rec)
}

impl Property for C01 {
    fn id(&self) -> &'static str {
        "C01"
    }
    fn level(&self) -> &'static str {
        "fault_enumeration"
    }
    fn rule(&self) -> String {
        "driver = every public byte-consuming operation (load, table access, Font accessors, cmap, names, metrics, \
         glyf/CFF/CFF2 outlines, images, subset/whole_font/prince::subset, instance/axis_names/normalize) run stage by \
         stage on: (intact) every fixture <= 64 KiB and generated seeds; (fields) exhaustive single-field enumeration \
         of every aligned u16 in the first N bytes of every table of tiny seeds x boundary values, plus every \
         directory offset/length; (faults) seed x 1-4 structured faults x random arguments; (containers) WOFF/WOFF2/TTC \
         fixtures and my own re-wraps with header/directory faults. A case is non-trivial when FontData::read \
         succeeded, table_data returned data for >= 1 tag and >= 1 table parser ran; distinct by hash of the mutated \
         bytes and the arguments."
            .to_string()
    }
    fn assumptions(&self) -> Vec<String> {
        vec![
            "panics are observed in a build with debug assertions and overflow checks (what `cargo build` gives a user)".into(),
            "allocation guard: a fresh allocation > max(64 MiB, 1024 x input) is a size-field allocation; amortised growth (decompression) is not flagged".into(),
            "shaping is only touched lightly (C02 owns it); GSUB/GPOS/GDEF/kern/morx are loaded, not applied".into(),
            "a case in which a stage hits a known finding continues with the remaining stages (fresh Font), so later stages are still searched".into(),
        ]
    }
    fn run(&self, ctx: &mut Ctx) {
        let all = seeds();
        if all.len() < 20 {
            ctx.note(format!("only {} seeds found under $VERIF_REPO/tests", all.len()));
        }
        if let Some(path) = std::env::var_os("C01_LIST_SEEDS") {
            // debugging aid: seed inventory (index, kind, size, name)
            let lines: Vec<String> = all
                .iter()
                .enumerate()
                .map(|(i, s)| {
                    let mut line = format!("{} {} {} {}", i, s.kind.as_str(), s.bytes.len(), s.name);
                    if s.name.starts_with("gen:") && std::env::var_os("C01_SEED_STATS").is_some() {
                        let mut rec = Rec::for_fuzz();
                        let (st, r) = exercise(&s.bytes, &args_for(s, &Args::fixed()), &mut rec);
                        line.push_str(&format!(
                            " | font_ok={} parsers={}/{} cmap={} outl={}/{} img={} subset={}/{} whole={} inst={}/{} shaped={} res={:?}",
                            st.font_ok, st.parsers_ok, st.parsers_err, st.cmap_subtables_ok, st.outlines_ok, st.outlines_err, st.images_ok, st.subset_ok, st.subset_err, st.whole_ok, st.instance_ok, st.instance_err, st.shaped, r.err().map(|f| f.sig)
                        ));
                    }
                    line
                })
                .collect();
            let _ = std::fs::write(&path, lines.join("\n"));
            if let Some(dir) = std::env::var_os("C01_DUMP_SEEDS") {
                let _ = std::fs::create_dir_all(&dir);
                for (i, s) in all.iter().enumerate().filter(|(_, s)| s.name.starts_with("gen:")) {
                    let _ = std::fs::write(std::path::Path::new(&dir).join(format!("{:03}.bin", i)), &s.bytes);
                }
            }
        }
        let fixed = Args::fixed();
        // 1. intact seeds
        ctx.enumerate("intact", all.len() as u64, true, |i, rec| {
            let s = &all[i as usize];
            rec.class(seed_group(s));
            rec.sample(|| format!("{} intact", s.name));
            run_bytes(&s.bytes, &args_for(s, &fixed), rec)
        });
        // 2. field-directed enumeration (seed independent; exhaustive over its finite space)
        let plan = field_plan(ctx.thorough());
        let total = ctx.cases(plan.len() as u64, plan.len() as u64).min(plan.len() as u64);
        let stride_ok = total == plan.len() as u64;
        let mut light = Args::fixed();
        light.heavy = false;
        ctx.enumerate("fields", total, stride_ok, |i, rec| {
            // with VERIF_SCALE < 1 the plan is sampled at a fixed stride
            let idx = if stride_ok { i as usize } else { (i as u128 * plan.len() as u128 / total.max(1) as u128) as usize };
            let item = &plan[idx.min(plan.len() - 1)];
            // heavy arguments on every 4th item keep the sweep fast
            field_case(item, if idx % 4 == 0 { &fixed } else { &light }, rec)
        });
        // debugging aid: C01_FIELDS_ONLY=1 runs the enumerations without the random sections
        let fields_only = std::env::var_os("C01_FIELDS_ONLY").is_some();
        // 3. random structured faults
        let n = if fields_only { 0 } else { 1 } * ctx.cases(200_000, 3_000_000);
        ctx.section("faults", n, fault_case_strategy(), fault_case);
        // 4. container headers and directories
        let n = if fields_only { 0 } else { 1 } * ctx.cases(60_000, 1_000_000);
        ctx.section("containers", n, container_case_strategy(), container_case);
    }
}
