//! C01 — not built yet.
use crate::engine::{Ctx, Property};

pub struct C01;

impl Property for C01 {
    fn id(&self) -> &'static str {
        "C01"
    }
    fn rule(&self) -> String {
        "not implemented".to_string()
    }
    fn run(&self, _ctx: &mut Ctx) {}
}
