//! C06 — character-to-glyph mapping conforms to the cmap encodings.
//!
//! Forward construction: a cmap *model* (1–4 encoding records, each a code→glyph map) is
//! encoded by `fontgen::cmap` under freely chosen byte layouts, embedded in a complete font and
//! read back through allsorts (`Font::lookup_glyph_index`, `Font::map_glyphs`,
//! `CmapSubtable::map_glyph`, `owned::CmapSubtable::map_glyph`, `mappings_fn`, `mappings`).
//! The expected glyph is the model entry of the record the documented preference order
//! selects, under the code derivation of that record's encoding (`refmodel::cmap`).
//! Plus exhaustive sweeps (all 16-bit codes per 16-bit subtable, all scalar values through a
//! font) and exhaustive Mac OS Roman / Big5 conversion checks.

use crate::engine::util::pick;
use crate::engine::{CaseResult, Ctx, Fail, Property, Rec};
use crate::fontgen::basic::{os2_v4, BasicFont};
use crate::fontgen::cmap::{self as enc, Chooser, Encoded};
use crate::fontgen::sfnt::{build_sfnt, TTF};
use crate::refmodel::cmap::{self as rm, Enc};
use allsorts::binary::read::ReadScope;
use allsorts::font::{Encoding, Font, MatchingPresentation};
use allsorts::font_data::FontData;
use allsorts::tables::cmap::{Cmap, CmapSubtable};
use proptest::prelude::*;
use std::collections::{BTreeMap, BTreeSet};

pub struct C06;

fn fail(kind: &str, msg: String) -> Fail {
    Fail::new(format!("C06:{}", kind), msg)
}

// ---------------------------------------------------------------------------------------------
// model

#[derive(Clone, Debug)]
pub struct RecModel {
    pub platform: u16,
    pub encoding: u16,
    /// 0, 2, 4, 6, 10, 12, or 14 (empty variation-sequence stub)
    pub format: u16,
    pub map: BTreeMap<u32, u16>,
    /// format 2: lead bytes declared without characters
    pub extra_leads: BTreeSet<u8>,
}

#[derive(Clone, Debug)]
pub struct Case {
    pub recs: Vec<RecModel>,
    /// OS/2.usFirstCharIndex; None = the font has no OS/2 table
    pub first_char: Option<u16>,
    pub layout: Vec<u32>,
    pub probes: Vec<u32>,
}

/// one run of codes of a model
#[derive(Clone, Debug)]
pub(crate) struct Run {
    sel: u8,
    rnd: u32,
    len: u8,
    gid0: u16,
    kind: u8,
    holes: u32,
}

fn run_strategy() -> impl Strategy<Value = Run> {
    // first glyph id: any; or at / just below the wrap to glyph 0 (a consecutive run then passes through 0, 1, 2, ...)
    let gid0 = prop_oneof![10 => any::<u16>(), 1 => Just(0u16), 1 => 0xFFF8u16..=0xFFFF, 1 => 1u16..4];
    (any::<u8>(), any::<u32>(), prop_oneof![3 => 1u8..6, 2 => 1u8..40, 1 => 40u8..120], gid0, 0u8..8, any::<u32>())
        .prop_map(|(sel, rnd, len, gid0, kind, holes)| Run { sel, rnd, len, gid0, kind, holes })
}

const STARTS16: [u32; 20] = [
    0, 1, 0x20, 0x41, 0x7E, 0xFF, 0x100, 0x7FFF, 0x8000, 0xD7FF, 0xE000, 0xF000, 0xF020, 0xF041, 0xF0FF, 0xFFF0, 0xFFFC,
    0xFFFD, 0xFFFE, 0xFFFF,
];
const STARTS32: [u32; 10] = [0xFFFE, 0xFFFF, 0x10000, 0x1F600, 0x2F800, 0xE0100, 0xFFFFE, 0x10FFF0, 0x10FFFE, 0x10FFFF];

#[derive(Clone, Copy, Debug, PartialEq)]
pub(crate) enum Domain {
    Bmp,
    Full,
    Byte,
}

pub(crate) fn build_map(runs: &[Run], dom: Domain, max_gid: u16, dense: bool) -> BTreeMap<u32, u16> {
    let max_code: u32 = match dom {
        Domain::Bmp => 0xFFFF,
        Domain::Full => 0x10FFFF,
        Domain::Byte => 0xFF,
    };
    let mut m = BTreeMap::new();
    let mut dense_base: Option<u32> = None;
    let mut prev: Option<Run> = None;
    for r in runs {
        // kinds 6, 7: the glyph pattern of the previous run again at another place (identical
        // value arrays that layouts may share)
        let r = &match (&prev, r.kind >= 6) {
            (Some(p), true) => Run { sel: r.sel, rnd: r.rnd, ..p.clone() },
            _ => Run { kind: r.kind % 6, ..r.clone() },
        };
        prev = Some(r.clone());
        let mut start = match dom {
            Domain::Byte => r.rnd % 256,
            Domain::Bmp => {
                if r.sel < 140 {
                    STARTS16[pick(STARTS16.len(), r.rnd)]
                } else {
                    r.rnd & 0xFFFF
                }
            }
            Domain::Full => {
                if r.sel < 70 {
                    STARTS16[pick(STARTS16.len(), r.rnd)]
                } else if r.sel < 150 {
                    STARTS32[pick(STARTS32.len(), r.rnd)]
                } else if r.sel < 200 {
                    r.rnd % 0x110000
                } else {
                    r.rnd & 0xFFFF
                }
            }
        };
        if dense {
            // trimmed-array formats: keep all runs within one window of a few hundred codes
            match dense_base {
                None => dense_base = Some(start),
                Some(b) => start = (b + (r.rnd >> 8) % 300).min(max_code),
            }
        }
        for j in 0..r.len as u32 {
            let code = match start.checked_add(j) {
                Some(c) if c <= max_code => c,
                _ => break,
            };
            if r.kind >= 3 && (r.holes >> (j % 32)) & 1 == 1 {
                continue;
            }
            let g = match r.kind % 3 {
                0 => r.gid0.wrapping_add(j as u16),
                1 => (r.gid0 as u32).wrapping_mul(31).wrapping_add(j.wrapping_mul(7919)) as u16,
                _ => r.gid0,
            };
            let g = if max_gid == 0xFFFF { g } else { g % (max_gid + 1) };
            if g != 0 {
                m.insert(code, g);
            }
        }
    }
    m
}

/// characters for a Big5 model
pub(crate) fn big5_map(items: &[(u8, u32, u16)]) -> BTreeMap<u32, u16> {
    let mut m = BTreeMap::new();
    for (sel, rnd, gid) in items {
        let ch = match sel % 8 {
            0 => char::from_u32(rnd % 0x80),
            1 | 2 => char::from_u32(0x4E00 + rnd % 0x51A6),
            3 => char::from_u32(0x0391 + rnd % 57),
            4 => char::from_u32(0xFF01 + rnd % 0x5E),
            5 => char::from_u32(0x2550 + rnd % 0x30),
            6 => char::from_u32(0x3041 + rnd % 0x56),
            _ => None,
        };
        let code = match ch {
            Some(c) => rm::big5_encode(c).map(u32::from),
            None if (rnd >> 20) & 3 != 0 => {
                // a code whose trail byte is the lead byte itself (0xA4A4), so that the lead
                // byte's own value lies inside its sub-header's low-byte range
                let lead = 0xA1 + (rnd >> 8) % 0x5E;
                if (rnd >> 22) & 1 == 1 && *gid != 0 {
                    m.insert(lead << 8 | (lead - 1).max(0xA1), gid.wrapping_add(7) | 1);
                    m.insert(lead << 8 | (lead + 1).min(0xFE), gid.wrapping_add(9) | 1);
                }
                Some(lead << 8 | lead)
            }
            None => {
                // a raw two-byte code (possibly outside the encoder's image)
                let lead = 0x81 + (rnd >> 8) % 0x7E;
                let t = rnd % 157;
                let trail = if t < 63 { 0x40 + t } else { 0xA1 + (t - 63) };
                Some(lead << 8 | trail)
            }
        };
        if let (Some(code), true) = (code, *gid != 0) {
            m.insert(code, *gid);
        }
    }
    m
}

fn rec_strategy() -> impl Strategy<Value = RecModel> {
    let runs = || proptest::collection::vec(run_strategy(), 0..7);
    let mk = |p: u16, e: u16, f: u16, map: BTreeMap<u32, u16>| RecModel { platform: p, encoding: e, format: f, map, extra_leads: BTreeSet::new() };
    let uni_enc = || prop_oneof![Just(0u16), Just(1), Just(2), Just(3), Just(6)];
    prop_oneof![
        3 => runs().prop_map(move |r| mk(3, 10, 12, build_map(&r, Domain::Full, 0xFFFF, false))),
        4 => runs().prop_map(move |r| mk(3, 1, 4, build_map(&r, Domain::Bmp, 0xFFFF, false))),
        2 => runs().prop_map(move |r| mk(0, 4, 12, build_map(&r, Domain::Full, 0xFFFF, false))),
        1 => runs().prop_map(move |r| mk(0, 4, 4, build_map(&r, Domain::Bmp, 0xFFFF, false))),
        2 => (uni_enc(), runs()).prop_map(move |(e, r)| mk(0, e, 4, build_map(&r, Domain::Bmp, 0xFFFF, false))),
        2 => (uni_enc(), runs()).prop_map(move |(e, r)| mk(0, e, 6, build_map(&r, Domain::Bmp, 0xFFFF, true))),
        2 => (uni_enc(), runs()).prop_map(move |(e, r)| mk(0, e, 10, build_map(&r, Domain::Full, 0xFFFF, true))),
        1 => (uni_enc(), runs()).prop_map(move |(e, r)| mk(0, e, 12, build_map(&r, Domain::Full, 0xFFFF, false))),
        4 => runs().prop_map(move |r| mk(3, 0, 4, build_map(&r, Domain::Bmp, 0xFFFF, false))),
        3 => runs().prop_map(move |r| mk(1, 0, 0, build_map(&r, Domain::Byte, 0xFF, false))),
        2 => runs().prop_map(move |r| mk(1, 0, 6, build_map(&r, Domain::Byte, 0xFFFF, true))),
        3 => (proptest::collection::vec((any::<u8>(), any::<u32>(), any::<u16>()), 0..40), any::<u8>()).prop_map(move |(items, l)| {
            let mut m = mk(3, 4, 2, big5_map(&items));
            // real Big5 fonts declare every lead byte; sometimes only some / only the used ones
            match l % 4 {
                0 | 1 => m.extra_leads = (0x81u8..=0xFE).collect(),
                2 => m.extra_leads = (0xA1u8..=0xC6).collect(),
                _ => {}
            }
            // a single byte code that is also a lead byte cannot be represented
            let leads = enc::format2_leads(&m.map, &m.extra_leads);
            m.map.retain(|c, _| *c >= 0x100 || !leads.contains(&(*c as u8)));
            m
        }),
        2 => proptest::collection::vec((any::<u8>(), any::<u32>(), any::<u16>()), 0..40).prop_map(move |items| mk(3, 4, 4, big5_map(&items))),
        // a generic (non Big5) mixed 8/16-bit model in a record allsorts does not use
        1 => runs().prop_map(move |r| {
            let mut m = build_map(&r, Domain::Bmp, 0xFFFF, false);
            let leads: BTreeSet<u32> = m.keys().filter(|c| **c >= 0x100).map(|c| *c >> 8).collect();
            // every other lead byte also has the code whose low byte is the lead byte itself
            for l in leads.iter().filter(|l| **l % 2 == 0) {
                m.entry(*l << 8 | *l).or_insert((*l as u16).wrapping_mul(257) | 1);
            }
            m.retain(|c, _| *c >= 0x100 || !leads.contains(c));
            mk(3, 2, 2, m)
        }),
        // records allsorts ignores
        1 => runs().prop_map(move |r| mk(3, 2, 4, build_map(&r, Domain::Bmp, 0xFFFF, false))),
        1 => runs().prop_map(move |r| mk(1, 1, 0, build_map(&r, Domain::Byte, 0xFF, false))),
        1 => runs().prop_map(move |r| mk(3, 5, 4, build_map(&r, Domain::Bmp, 0xFFFF, false))),
        1 => runs().prop_map(move |r| mk(4, 0, 0, build_map(&r, Domain::Byte, 0xFF, false))),
        1 => Just(mk(0, 5, 14, BTreeMap::new())),
    ]
}

fn first_char_strategy() -> impl Strategy<Value = Option<u16>> {
    prop_oneof![
        3 => Just(None),
        5 => Just(Some(0x20u16)),
        7 => Just(Some(0xF020u16)),
        2 => prop_oneof![Just(0x21u16), Just(0x41), Just(0x100), Just(0xF000), Just(0xF021), Just(0xFFFF)].prop_map(Some),
        2 => (0x20u16..=0xFFFF).prop_map(Some),
        // below 0x20 the formula `ch - 0x20 + usFirstCharIndex` is negative for small codes: those characters have no
        // equivalent in the symbol encoding (documented in font.rs) and map to glyph 0 (after seeded miss C06-14)
        1 => prop_oneof![Just(0u16), Just(1), Just(0x10), Just(0x1F)].prop_map(Some),
    ]
}

/// `force`: restrict the records to kinds that make the given encoding the selected one
fn case_strategy(force: Option<Enc>) -> impl Strategy<Value = Case> {
    (
        proptest::collection::vec(rec_strategy(), 1..5),
        first_char_strategy(),
        proptest::collection::vec(any::<u32>(), 0..80),
        proptest::collection::vec(any::<u32>(), 0..24),
    )
        .prop_map(move |(mut recs, first_char, layout, probes)| {
            // one record per (platform, encoding)
            let mut seen = BTreeSet::new();
            recs.retain(|r| seen.insert((r.platform, r.encoding)));
            if let Some(want) = force {
                // drop records that would be preferred over the wanted encoding
                recs.retain(|r| {
                    let e = class_of(r);
                    match (want, e) {
                        (_, None) => true,
                        (Enc::Unicode, Some(_)) => true,
                        (w, Some(e)) => rank(e) >= rank(w),
                    }
                });
            }
            Case { recs, first_char, layout, probes }
        })
}

fn rank(e: Enc) -> u8 {
    match e {
        Enc::Unicode => 0,
        Enc::Symbol => 1,
        Enc::MacRoman => 2,
        Enc::Big5 => 3,
    }
}

/// the encoding a record would be used with, None if allsorts never selects it
fn class_of(r: &RecModel) -> Option<Enc> {
    match (r.platform, r.encoding) {
        (3, 10) | (3, 1) | (0, _) => Some(Enc::Unicode),
        (3, 0) => Some(Enc::Symbol),
        (1, 0) => Some(Enc::MacRoman),
        (3, 4) => Some(Enc::Big5),
        _ => None,
    }
}

// ---------------------------------------------------------------------------------------------
// libFuzzer decoder
//
// `case_from_bytes` maps fuzz bytes onto the `Case` domain of `case_strategy(None)` (section
// `tables`). Record models are built from raw runs / Big5 items by the strategy's own functions
// (`build_map`, `big5_map`) with raw values in the strategy's ranges, and go through the same
// post-processing (lead-byte clean-up of the format 2 models, one record per (platform,
// encoding)), so every decoded case is one the strategy can produce. Selectors keep roughly the
// strategy's weights. Tape: usFirstCharIndex, record count, the records, the probes, then the
// layout words (two bytes each: the 16-bit value in both halves of the word, because
// `Chooser::pick` reads the high bits and the idDelta candidates read the low ones). An exhausted
// input yields zeros and collections stop at their minimum size, so every byte string is a case.

use arbitrary::Unstructured;

type UResult<T> = arbitrary::Result<T>;

/// `run_strategy()`. `has_prev`: a run of kind 6/7 then repeats the previous run's glyph pattern,
/// and only `sel` / `rnd` of this one are read by `build_map`.
fn u_run(u: &mut Unstructured<'_>, has_prev: bool) -> UResult<Run> {
    // head: bits 0-2 kind, bits 3-4 length class (3 : 2 : 1 ~ 2 : 1 : 1), bits 5-7 first-glyph class
    let h: u8 = u.arbitrary()?;
    let kind = h & 7;
    let sel: u8 = u.arbitrary()?;
    let rnd: u32 = u.arbitrary()?;
    if has_prev && kind >= 6 {
        return Ok(Run { sel, rnd, len: 1, gid0: 0, kind, holes: 0 });
    }
    let len = match (h >> 3) & 3 {
        0 | 1 => u.int_in_range(1u8..=5)?,
        2 => u.int_in_range(1u8..=39)?,
        _ => u.int_in_range(40u8..=119)?,
    };
    let gid0 = match h >> 5 {
        5 => 0u16,
        6 => 0xFFF8 + (u.arbitrary::<u8>()? & 7) as u16,
        7 => 1 + (u.arbitrary::<u8>()? % 3) as u16,
        _ => u.arbitrary::<u16>()?,
    };
    // `holes` is read only by the kinds (mod 6) 3..=5
    let holes = if kind % 6 >= 3 { u.arbitrary::<u32>()? } else { 0 };
    Ok(Run { sel, rnd, len, gid0, kind, holes })
}

/// `proptest::collection::vec(run_strategy(), 0..7)`
fn u_runs(u: &mut Unstructured<'_>) -> UResult<Vec<Run>> {
    let n = u.int_in_range(0usize..=6)?;
    let mut v = Vec::with_capacity(n);
    for _ in 0..n {
        if u.is_empty() {
            break;
        }
        let has_prev = !v.is_empty();
        v.push(u_run(u, has_prev)?);
    }
    Ok(v)
}

/// `vec((any::<u8>(), any::<u32>(), any::<u16>()), 0..40)`
fn u_big5_items(u: &mut Unstructured<'_>) -> UResult<Vec<(u8, u32, u16)>> {
    let n = u.int_in_range(0usize..=39)?;
    let mut v = Vec::with_capacity(n);
    for _ in 0..n {
        if u.is_empty() {
            break;
        }
        v.push((u.arbitrary::<u8>()?, u.arbitrary::<u32>()?, u.arbitrary::<u16>()?));
    }
    Ok(v)
}

/// the arms of `rec_strategy()`, each repeated by its weight (37 in all)
const REC_KIND: [u8; 37] = [
    0, 0, 0, 1, 1, 1, 1, 2, 2, 3, 4, 4, 5, 5, 6, 6, 7, 8, 8, 8, 8, 9, 9, 9, 10, 10, 11, 11, 11, 12, 12, 13, 14, 15, 16, 17, 18,
];
const UNI_ENC: [u16; 5] = [0, 1, 2, 3, 6];

/// `rec_strategy()`
fn u_rec(u: &mut Unstructured<'_>) -> UResult<RecModel> {
    let mk = |p: u16, e: u16, f: u16, map: BTreeMap<u32, u16>| RecModel { platform: p, encoding: e, format: f, map, extra_leads: BTreeSet::new() };
    let kind = REC_KIND[u.int_in_range(0usize..=36)?];
    Ok(match kind {
        0 => mk(3, 10, 12, build_map(&u_runs(u)?, Domain::Full, 0xFFFF, false)),
        1 => mk(3, 1, 4, build_map(&u_runs(u)?, Domain::Bmp, 0xFFFF, false)),
        2 => mk(0, 4, 12, build_map(&u_runs(u)?, Domain::Full, 0xFFFF, false)),
        3 => mk(0, 4, 4, build_map(&u_runs(u)?, Domain::Bmp, 0xFFFF, false)),
        4..=7 => {
            let e = *u.choose(&UNI_ENC)?;
            let r = u_runs(u)?;
            match kind {
                4 => mk(0, e, 4, build_map(&r, Domain::Bmp, 0xFFFF, false)),
                5 => mk(0, e, 6, build_map(&r, Domain::Bmp, 0xFFFF, true)),
                6 => mk(0, e, 10, build_map(&r, Domain::Full, 0xFFFF, true)),
                _ => mk(0, e, 12, build_map(&r, Domain::Full, 0xFFFF, false)),
            }
        }
        8 => mk(3, 0, 4, build_map(&u_runs(u)?, Domain::Bmp, 0xFFFF, false)),
        9 => mk(1, 0, 0, build_map(&u_runs(u)?, Domain::Byte, 0xFF, false)),
        10 => mk(1, 0, 6, build_map(&u_runs(u)?, Domain::Byte, 0xFFFF, true)),
        11 => {
            let l: u8 = u.arbitrary()?;
            let items = u_big5_items(u)?;
            let mut m = mk(3, 4, 2, big5_map(&items));
            match l % 4 {
                0 | 1 => m.extra_leads = (0x81u8..=0xFE).collect(),
                2 => m.extra_leads = (0xA1u8..=0xC6).collect(),
                _ => {}
            }
            let leads = enc::format2_leads(&m.map, &m.extra_leads);
            m.map.retain(|c, _| *c >= 0x100 || !leads.contains(&(*c as u8)));
            m
        }
        12 => mk(3, 4, 4, big5_map(&u_big5_items(u)?)),
        13 => {
            let mut m = build_map(&u_runs(u)?, Domain::Bmp, 0xFFFF, false);
            let leads: BTreeSet<u32> = m.keys().filter(|c| **c >= 0x100).map(|c| *c >> 8).collect();
            for l in leads.iter().filter(|l| **l % 2 == 0) {
                m.entry(*l << 8 | *l).or_insert((*l as u16).wrapping_mul(257) | 1);
            }
            m.retain(|c, _| *c >= 0x100 || !leads.contains(c));
            mk(3, 2, 2, m)
        }
        14 => mk(3, 2, 4, build_map(&u_runs(u)?, Domain::Bmp, 0xFFFF, false)),
        15 => mk(1, 1, 0, build_map(&u_runs(u)?, Domain::Byte, 0xFF, false)),
        16 => mk(3, 5, 4, build_map(&u_runs(u)?, Domain::Bmp, 0xFFFF, false)),
        17 => mk(4, 0, 0, build_map(&u_runs(u)?, Domain::Byte, 0xFF, false)),
        _ => mk(0, 5, 14, BTreeMap::new()),
    })
}

/// `first_char_strategy()`
fn u_first_char(u: &mut Unstructured<'_>) -> UResult<Option<u16>> {
    const OTHER: [u16; 6] = [0x21, 0x41, 0x100, 0xF000, 0xF021, 0xFFFF];
    Ok(match u.int_in_range(0u8..=18)? {
        0..=2 => None,
        3..=7 => Some(0x20),
        8..=14 => Some(0xF020),
        15 | 16 => Some(*u.choose(&OTHER)?),
        _ => Some(u.int_in_range(0x20u16..=0xFFFF)?),
    })
}

/// Decode libFuzzer bytes into a case of the `tables` section (structure-aware, total).
pub fn case_from_bytes(data: &[u8]) -> arbitrary::Result<Case> {
    let mut u = Unstructured::new(data);
    let u = &mut u;
    let first_char = u_first_char(u)?;
    let nrecs = u.int_in_range(1usize..=4)?;
    let mut recs = Vec::with_capacity(nrecs);
    for k in 0..nrecs {
        if k >= 1 && u.is_empty() {
            break; // 1..=4 records
        }
        recs.push(u_rec(u)?);
    }
    // probes: any u32; the head byte chooses how many bytes are read
    let nprobes = u.int_in_range(0usize..=23)?;
    let mut probes = Vec::with_capacity(nprobes);
    for _ in 0..nprobes {
        if u.is_empty() {
            break;
        }
        probes.push(match u.arbitrary::<u8>()? & 3 {
            0 | 1 => u.arbitrary::<u16>()? as u32,
            2 => u.int_in_range(0u32..=0xFF_FFFF)?,
            _ => u.arbitrary::<u32>()?,
        });
    }
    // layout: the rest of the input, at most 79 words
    let mut layout = Vec::new();
    while layout.len() < 79 && !u.is_empty() {
        let v = u.arbitrary::<u16>()? as u32;
        layout.push(v << 16 | v);
    }
    // the strategy's post-processing: one record per (platform, encoding)
    let mut seen = BTreeSet::new();
    recs.retain(|r| seen.insert((r.platform, r.encoding)));
    let case = Case { recs, first_char, layout, probes };
    if let Some(what) = domain_violation(&case) {
        panic!("C06 case_from_bytes left the domain of case_strategy: {}", what);
    }
    Ok(case)
}

/// The invariants of `case_strategy(None)` that can be stated on the finished case.
fn domain_violation(c: &Case) -> Option<&'static str> {
    if !(1..=4).contains(&c.recs.len()) {
        return Some("record count");
    }
    let mut seen = BTreeSet::new();
    for r in &c.recs {
        if !seen.insert((r.platform, r.encoding)) {
            return Some("duplicate (platform, encoding)");
        }
        let max_code = match r.format {
            0 => 0xFF,
            2 | 4 | 6 => 0xFFFF,
            10 | 12 => 0x10FFFF,
            14 => 0,
            _ => return Some("format"),
        };
        if r.map.keys().any(|c| *c > max_code) || r.map.values().any(|g| *g == 0) {
            return Some("map entry");
        }
        if r.format == 14 && !r.map.is_empty() {
            return Some("format 14 with a map");
        }
        if r.format == 0 && r.map.values().any(|g| *g > 0xFF) {
            return Some("format 0 glyph");
        }
        if r.format == 2 {
            let leads = enc::format2_leads(&r.map, &r.extra_leads);
            if r.map.keys().any(|c| *c < 0x100 && leads.contains(&(*c as u8))) {
                return Some("format 2 single byte code that is a lead byte");
            }
        } else if !r.extra_leads.is_empty() {
            return Some("extra_leads");
        }
        if matches!(r.format, 6 | 10) {
            if let (Some(lo), Some(hi)) = (r.map.keys().next(), r.map.keys().last()) {
                if hi - lo > 300 + 119 {
                    return Some("trimmed-array window");
                }
            }
        }
    }
    if c.layout.len() > 79 || c.probes.len() > 23 {
        return Some("first_char / layout / probes");
    }
    None
}

// ---------------------------------------------------------------------------------------------
// encoding the case

pub struct Built {
    pub cmap: Vec<u8>,
    pub font: Vec<u8>,
    pub subs: Vec<Encoded>,
    /// records in file order (sorted), each with the index of its model
    pub order: Vec<usize>,
}

pub fn encode_record(r: &RecModel, ch: &mut Chooser) -> Encoded {
    let lang = if r.platform == 1 { (ch.pick(3)) as u16 } else { 0 };
    match r.format {
        0 => enc::format0(&r.map, lang),
        2 => enc::format2(&r.map, &r.extra_leads, lang, ch),
        4 => enc::format4(&r.map, lang, ch),
        6 => enc::format6(&r.map, lang, ch),
        10 => enc::format10(&r.map, lang as u32, ch),
        12 => enc::format12(&r.map, lang as u32, ch),
        _ => Encoded { bytes: enc::format14_empty(), ..Default::default() },
    }
}

pub fn build(case: &Case) -> Built {
    let mut ch = Chooser::new(&case.layout);
    let subs: Vec<Encoded> = case.recs.iter().map(|r| encode_record(r, &mut ch)).collect();
    let mut order: Vec<usize> = (0..case.recs.len()).collect();
    order.sort_by_key(|i| (case.recs[*i].platform, case.recs[*i].encoding));
    let records: Vec<(u16, u16, usize)> = case.recs.iter().enumerate().map(|(i, r)| (r.platform, r.encoding, i)).collect();
    let bodies: Vec<Vec<u8>> = subs.iter().map(|s| s.bytes.clone()).collect();
    let cmap = enc::cmap_table(&records, &bodies, &mut ch);
    let mut bf = BasicFont::with_glyphs(3);
    bf.extra.push((*b"cmap", cmap.clone()));
    if let Some(fc) = case.first_char {
        bf.extra.push((*b"OS/2", os2_v4(fc, 0xFFFF, 400)));
    }
    let mut tables = bf.tables();
    if case.first_char.is_none() {
        tables.retain(|t| &t.0 != b"OS/2");
    }
    let font = build_sfnt(TTF, &tables);
    Built { cmap, font, subs, order }
}

fn enc_of(e: Encoding) -> Enc {
    match e {
        Encoding::Unicode => Enc::Unicode,
        Encoding::Symbol => Enc::Symbol,
        Encoding::AppleRoman => Enc::MacRoman,
        Encoding::Big5 => Enc::Big5,
    }
}

/// The record the documented preference order selects, from the *model* (file order = sorted
/// by platform, encoding). Format 14 records are not character maps: a conforming reader
/// passes over them.
fn model_selection(case: &Case, order: &[usize], skip_f14: bool) -> Option<(usize, Enc)> {
    let recs: Vec<rm::Record> = order
        .iter()
        .filter(|i| !(skip_f14 && case.recs[**i].format == 14))
        .map(|i| rm::Record { platform: case.recs[*i].platform, encoding: case.recs[*i].encoding, offset: *i as u32 })
        .collect();
    rm::select(&recs).map(|(k, e)| (recs[k].offset as usize, e))
}

/// Expected glyph of `ch` through the font; None = the case is outside what the check asserts.
fn expected_font(r: &RecModel, e: Enc, first_char: u16, ch: char) -> Option<u16> {
    if e == Enc::MacRoman && rm::mac_roman_disputed_char(ch as u32) {
        return None;
    }
    let code = match rm::char_code(e, ch, first_char) {
        Some(c) => c,
        None => return Some(0),
    };
    if r.format == 2 {
        let leads = enc::format2_leads(&r.map, &r.extra_leads);
        if !enc::format2_unambiguous(&leads, code) {
            return None;
        }
    }
    Some(r.map.get(&code).copied().unwrap_or(0))
}

fn code_limit(format: u16) -> u32 {
    match format {
        0 | 2 | 4 | 6 => 0xFFFF,
        _ => u32::MAX,
    }
}

// ---------------------------------------------------------------------------------------------
// checks on one subtable (direct API)

fn norm(r: Result<Option<u16>, allsorts::error::ParseError>, code: u32, format: u16, what: &str) -> Result<u16, Fail> {
    match r {
        Ok(Some(g)) => Ok(g),
        Ok(None) => Ok(0),
        // a code wider than the format's code space has no mapping; an error is as good as None
        Err(_) if code > code_limit(format) => Ok(0),
        Err(e) => Err(fail("map_glyph-error", format!("{}: format {} code {:#X}: {:?}", what, format, code, e))),
    }
}

fn check_subtable(r: &RecModel, e: &Encoded, cmap_bytes: &[u8], offset: u32, extra_probes: &[u32], rec: &mut Rec, stats: &mut Stats) -> CaseResult {
    let scope = ReadScope::new(cmap_bytes);
    let st = scope
        .offset(offset as usize)
        .read::<CmapSubtable<'_>>()
        .map_err(|err| fail("subtable-rejected", format!("format {} subtable not read: {:?}", r.format, err)))?;
    let owned = st.to_owned();
    if owned.is_none() && r.format != 2 {
        return Err(fail("to_owned-none", format!("to_owned() is None for format {}", r.format)));
    }
    // self-check of the harness: the independent reader must see the model in the encoder's bytes
    let mine = rm::subtable(cmap_bytes, offset).expect("refmodel: subtable not recognised");
    let leads = enc::format2_leads(&r.map, &r.extra_leads);

    // probe set
    let mut probes: BTreeSet<u32> = BTreeSet::new();
    for c in r.map.keys() {
        probes.insert(*c);
    }
    for edge in &e.edges {
        probes.insert(edge.wrapping_sub(1));
        probes.insert(*edge);
        probes.insert(edge.wrapping_add(1));
    }
    for c in [0u32, 1, 0xFF, 0x100, 0xFFFE, 0xFFFF, 0x10000, 0x10001, 0x1FFFF, 0x10FFFF, 0x110000, 0xFFFF_FFFF] {
        probes.insert(c);
    }
    for p in extra_probes {
        probes.insert(*p);
        probes.insert(*p & 0xFFFF);
        probes.insert(*p % 0x110000);
    }
    // format 2 is always swept: the lookup/enumeration relation below is asserted on every code
    let sweep16 = r.format == 2 || (matches!(r.format, 4 | 6) && e.segments <= 96);
    let sweep: Box<dyn Iterator<Item = u32>> = if r.format == 0 {
        Box::new(0..256u32)
    } else if sweep16 {
        Box::new(0..=0xFFFFu32)
    } else {
        Box::new(std::iter::empty())
    };
    if sweep16 {
        rec.class("sweep:all-65536-codes");
    }
    // the subtable's own enumeration (first glyph listed per code, glyph != 0): "enumerating a
    // subtable's mappings lists exactly the (code, glyph) pairs that single lookups return" needs
    // no expected value, so it is asserted on every probed code, ambiguous or not
    let mut listed: Vec<(u32, u16)> = Vec::new();
    st.mappings_fn(|c, g| listed.push((c, g)))
        .map_err(|err| fail("mappings_fn-error", format!("format {}: {:?}", r.format, err)))?;
    // dense for the 16-bit code space, a map above it
    let mut listed_bmp: Vec<u16> = vec![0; 0x10000];
    let mut listed_high: std::collections::HashMap<u32, u16> = std::collections::HashMap::new();
    for (c, g) in &listed {
        if *g != 0 {
            if *c <= 0xFFFF {
                if listed_bmp[*c as usize] == 0 {
                    listed_bmp[*c as usize] = *g;
                }
            } else {
                listed_high.entry(*c).or_insert(*g);
            }
        }
    }
    let mut n = 0u64;
    for code in probes.iter().copied().chain(sweep) {
        let exp = r.map.get(&code).copied().unwrap_or(0);
        if !(r.format == 2 && code > 0xFFFF) {
            let got = norm(st.map_glyph(code), code, r.format, "map_glyph")?;
            let le = if code <= 0xFFFF { listed_bmp[code as usize] } else { listed_high.get(&code).copied().unwrap_or(0) };
            if got != le {
                let hi = (code >> 8) as u8;
                let lo = code & 0xFF;
                if r.format == 2 && (0x100..=0xFFFF).contains(&code) && !leads.contains(&hi) && !leads.contains(&(lo as u8)) && le == 0 && Some(&got) == r.map.get(&lo) {
                    // defect model: a two-byte code whose high byte is a single-byte character
                    // (subHeaderKeys[high] == 0) is answered with the glyph of its low byte
                    stats.f2_single_alias.get_or_insert_with(|| {
                        format!(
                            "format 2: map_glyph({:#06X}) = {} = glyph of the single-byte character {:#04X}; subHeaderKeys[{:#04X}] is 0, so {:#06X} is not a character code and mappings_fn does not list it",
                            code, got, lo, hi, code
                        )
                    });
                } else if e.zero_entry_with_delta.contains_key(&code) {
                    // reported below with the model comparison
                } else {
                    return Err(fail(
                        &format!("lookup-vs-enumeration-f{}", r.format),
                        format!(
                            "({},{}) format {}: map_glyph({:#X}) = {} but mappings_fn lists {} for that code (model {})",
                            r.platform, r.encoding, r.format, code, got, le, exp
                        ),
                    ));
                }
            }
            if let Some(o) = &owned {
                let og = norm(o.map_glyph(code), code, r.format, "owned map_glyph")?;
                if og != got {
                    return Err(fail(
                        "owned-differs",
                        format!("format {} code {:#X}: owned::CmapSubtable::map_glyph = {}, borrowed = {}", r.format, code, og, got),
                    ));
                }
            }
            stats.relation += 1;
        }
        if r.format == 2 {
            if code > 0xFFFF {
                // a 32-bit code is not a character of a 16-bit subtable
                let got = norm(st.map_glyph(code), code, 2, "map_glyph")?;
                if got != 0 {
                    stats.f2_alias = Some(format!(
                        "format 2 map_glyph({:#X}) = {} (the code is wider than 16 bits; {:#X} maps to {})",
                        code,
                        got,
                        code & 0xFFFF,
                        r.map.get(&(code & 0xFFFF)).copied().unwrap_or(0)
                    ));
                }
                continue;
            }
            if !enc::format2_unambiguous(&leads, code) {
                stats.excluded_f2 += 1;
                continue;
            }
        }
        let my = mine.lookup(code).expect("refmodel: lookup failed on own encoding");
        assert_eq!(my, exp, "refmodel/fontgen disagree: format {} code {:#X}", r.format, code);
        let got = norm(st.map_glyph(code), code, r.format, "map_glyph")?;
        if got != exp {
            if let Some(d) = e.zero_entry_with_delta.get(&code) {
                if got == *d && exp == 0 {
                    stats.zero_entry = Some(format!(
                        "format 4 code {:#X} lands on glyphIdArray entry 0 in a segment with idDelta {}: got glyph {}, the specification says missing glyph (0)",
                        code, d, got
                    ));
                    continue;
                }
            }
            return Err(fail(
                &format!("map_glyph-f{}", r.format),
                format!("({},{}) format {}: map_glyph({:#X}) = {}, model says {}", r.platform, r.encoding, r.format, code, got, exp),
            ));
        }
        if exp != 0 {
            stats.hits += 1;
        }
        n += 1;
    }
    stats.probes += n;

    // enumeration: exactly the model's pairs (glyph != 0), each code once
    let mut set: BTreeMap<u32, u16> = BTreeMap::new();
    for (c, g) in &listed {
        if *g == 0 {
            continue;
        }
        if let Some(d) = e.zero_entry_with_delta.get(c) {
            if *g == *d {
                stats.zero_entry.get_or_insert_with(|| format!("format 4 mappings_fn lists ({:#X}, {}) for a glyphIdArray entry 0", c, g));
                continue;
            }
        }
        if let Some(prev) = set.insert(*c, *g) {
            if prev != *g {
                return Err(fail("mappings_fn-duplicate", format!("format {}: code {:#X} listed with glyphs {} and {}", r.format, c, prev, g)));
            }
        }
    }
    if set != r.map {
        let missing: Vec<_> = r.map.iter().filter(|(c, g)| set.get(c) != Some(g)).take(4).collect();
        let invented: Vec<_> = set.iter().filter(|(c, g)| r.map.get(c) != Some(g)).take(4).collect();
        return Err(fail(
            &format!("mappings_fn-f{}", r.format),
            format!("format {}: enumeration differs from the model; missing/wrong {:X?}, invented {:X?}", r.format, missing, invented),
        ));
    }
    // mappings(): glyph -> first code in enumeration order
    let mp = st.mappings().map_err(|err| fail("mappings-error", format!("format {}: {:?}", r.format, err)))?;
    let mut first: BTreeMap<u16, u32> = BTreeMap::new();
    for (c, g) in &listed {
        first.entry(*g).or_insert(*c);
    }
    if mp.len() != first.len() {
        return Err(fail("mappings-size", format!("format {}: mappings() has {} glyphs, enumeration {}", r.format, mp.len(), first.len())));
    }
    for (g, c) in &first {
        if mp.get(g) != Some(c) {
            return Err(fail(
                "mappings-first",
                format!("format {}: mappings()[{}] = {:X?}, first code enumerated for that glyph is {:#X}", r.format, g, mp.get(g), c),
            ));
        }
    }
    Ok(())
}

#[derive(Default)]
struct Stats {
    probes: u64,
    hits: u64,
    excluded_f2: u64,
    excluded_mac: u64,
    zero_entry: Option<String>,
    f2_alias: Option<String>,
    f2_single_alias: Option<String>,
    relation: u64,
    f14_selected: Option<String>,
}

// ---------------------------------------------------------------------------------------------
// the case

fn load_font(bytes: &[u8]) -> Result<Font<allsorts::font_data::DynamicFontTableProvider<'_>>, String> {
    let fd = ReadScope::new(bytes).read::<FontData<'_>>().map_err(|e| format!("{:?}", e))?;
    let prov = fd.table_provider(0).map_err(|e| format!("{:?}", e))?;
    Font::new(prov).map_err(|e| format!("{:?}", e))
}

/// chars that reach `code` under encoding `e` (candidates; the expectation is always computed
/// forwards, so a wrong candidate is merely an uninteresting probe)
fn chars_for_code(e: Enc, code: u32, first_char: u16, out: &mut BTreeSet<char>) {
    let mut push = |v: u32| {
        if let Some(c) = char::from_u32(v) {
            out.insert(c);
        }
    };
    match e {
        Enc::Unicode => push(code),
        Enc::Symbol | Enc::MacRoman => {
            if e == Enc::MacRoman && code < 256 {
                push(rm::mac_roman_decode(code as u8));
            }
            if let Some(c0) = code.checked_add(0x20).and_then(|v| v.checked_sub(first_char as u32)) {
                push(c0);
                if c0 <= 0xFF {
                    push(c0 + 0xF000);
                }
            }
        }
        Enc::Big5 => {
            if code <= 0xFFFF {
                if let Some(v) = rm::big5_decode(code as u16) {
                    for c in v {
                        out.insert(c);
                    }
                }
            }
        }
    }
}

const VS: [u32; 5] = [0xFE00, 0xFE01, 0xFE02, 0xFE0E, 0xFE0F];

pub fn check_case(case: &Case, rec: &mut Rec) -> CaseResult {
    check_case_inner(case, rec, false)
}

fn check_case_inner(case: &Case, rec: &mut Rec, full_sweep: bool) -> CaseResult {
    let built = build(case);
    rec.artefact("font", &built.font);
    rec.hash_bytes(&built.cmap);
    if let Some(fc) = case.first_char {
        rec.hash_u64(fc as u64);
    }
    let mut stats = Stats::default();

    // 1. table header as allsorts sees it
    let cmap = ReadScope::new(&built.cmap)
        .read::<Cmap<'_>>()
        .map_err(|e| fail("cmap-rejected", format!("cmap header not read: {:?}", e)))?;
    let seen: Vec<(u16, u16, u32)> = cmap.encoding_records().map(|r| (r.platform_id.0, r.encoding_id.0, r.offset)).collect();
    let mine = rm::records(&built.cmap).expect("refmodel: header");
    let want: Vec<(u16, u16, u32)> = mine.iter().map(|r| (r.platform, r.encoding, r.offset)).collect();
    if seen != want {
        return Err(fail("encoding-records", format!("encoding records {:?}, written {:?}", seen, want)));
    }
    assert_eq!(mine.len(), built.order.len());

    // 2. every subtable through the direct API
    for (k, &i) in built.order.iter().enumerate() {
        let r = &case.recs[i];
        if r.format == 14 {
            continue;
        }
        for c in &built.subs[i].classes {
            rec.class(c);
        }
        rec.class(&format!("record:({},{}) f{}", r.platform, r.encoding, r.format));
        check_subtable(r, &built.subs[i], &built.cmap, mine[k].offset, &case.probes, rec, &mut stats)?;
    }

    // 3. through the font
    let sel_spec = model_selection(case, &built.order, true);
    let sel_literal = model_selection(case, &built.order, false);
    let first_char = case.first_char.unwrap_or(0x20);
    match load_font(&built.font) {
        Err(e) => {
            // no character map at all; a cmap holding only a variation-sequence record may be
            // accepted or rejected
            if sel_spec.is_some() {
                return Err(fail("font-rejected", format!("Font::new failed ({}) although the cmap has a supported record", e)));
            }
            rec.class("font:no-suitable-record");
        }
        Ok(mut font) => {
            let (idx, e) = match (sel_spec, sel_literal) {
                (Some(s), Some(l)) if s == l => s,
                (s, Some((li, _))) if case.recs[li].format == 14 => {
                    // the literal "first platform 0 record" rule lands on a variation-sequence
                    // subtable, which is not a character map
                    rec.class("font:first-unicode-record-is-format-14");
                    let (si, se) = match s {
                        Some(s) => s,
                        None => return finish(case, rec, stats),
                    };
                    let probe = case.recs[si].map.keys().find_map(|c| {
                        let mut set = BTreeSet::new();
                        chars_for_code(se, *c, first_char, &mut set);
                        set.into_iter().find(|ch| expected_font(&case.recs[si], se, first_char, *ch).map_or(false, |g| g != 0))
                    });
                    let ch = match probe {
                        Some(ch) => ch,
                        // nothing is mapped: both readings answer 0 everywhere
                        None => return finish(case, rec, stats),
                    };
                    let got = font.lookup_glyph_index(ch, MatchingPresentation::NotRequired, None).0;
                    if got == 0 && font.cmap_subtable_encoding == Encoding::Unicode {
                        stats.f14_selected = Some(format!(
                            "cmap whose first platform 0 record is (0,5) format 14: U+{:04X} maps to 0 although the ({},{}) record maps it",
                            ch as u32, case.recs[si].platform, case.recs[si].encoding
                        ));
                        return finish(case, rec, stats);
                    }
                    (si, se)
                }
                (None, None) => {
                    return Err(fail("font-accepted", "Font::new succeeded although no record is supported".to_string()));
                }
                (s, l) => {
                    panic!("selection models disagree: {:?} {:?}", s, l);
                }
            };
            let r = &case.recs[idx];
            if enc_of(font.cmap_subtable_encoding) != e {
                return Err(fail(
                    "selection-encoding",
                    format!("cmap_subtable_encoding = {:?}, the preference order selects ({},{}) = {:?}", font.cmap_subtable_encoding, r.platform, r.encoding, e),
                ));
            }
            rec.class(&format!("selected:({},{}) f{}", r.platform, r.encoding, r.format));
            rec.class(&format!("selected-of-{}", case.recs.len()));
            if e == Enc::Symbol || e == Enc::MacRoman {
                rec.class(match case.first_char {
                    None => "usFirstCharIndex:no-OS/2",
                    Some(0x20) => "usFirstCharIndex:0x20",
                    Some(0xF020) => "usFirstCharIndex:0xF020",
                    Some(_) => "usFirstCharIndex:other",
                });
            }
            // probe characters
            let mut chars: BTreeSet<char> = BTreeSet::new();
            for c in r.map.keys() {
                chars_for_code(e, *c, first_char, &mut chars);
            }
            for edge in &built.subs[idx].edges {
                for d in [edge.wrapping_sub(1), edge.wrapping_add(1)] {
                    chars_for_code(e, d, first_char, &mut chars);
                }
            }
            for v in [0u32, 0x20, 0x41, 0x7F, 0xA0, 0xFF, 0x100, 0x25CC, 0xF020, 0xF041, 0xF0FF, 0xF100, 0xFFFD, 0xFFFE, 0xFFFF, 0x10000, 0x1F600, 0x10FFFF] {
                if let Some(c) = char::from_u32(v) {
                    chars.insert(c);
                }
            }
            for p in &case.probes {
                if let Some(c) = char::from_u32(*p % 0x110000) {
                    chars.insert(c);
                }
                if let Some(c) = char::from_u32(*p & 0xFFFF) {
                    chars.insert(c);
                }
            }
            let mut text = String::new();
            let mut text_exp: Vec<u16> = Vec::new();
            let all: Box<dyn Iterator<Item = char>> = if full_sweep {
                rec.class("sweep:all-scalar-values");
                Box::new((0..0x110000u32).filter_map(char::from_u32))
            } else {
                Box::new(chars.iter().copied())
            };
            for ch in all {
                let exp = match expected_font(r, e, first_char, ch) {
                    Some(g) => g,
                    None => {
                        if r.format == 2 {
                            stats.excluded_f2 += 1;
                        } else {
                            stats.excluded_mac += 1;
                        }
                        continue;
                    }
                };
                let (got, _) = font.lookup_glyph_index(ch, MatchingPresentation::NotRequired, None);
                if got != exp {
                    if r.format == 4 {
                        if let Some(code) = rm::char_code(e, ch, first_char) {
                            if let Some(d) = built.subs[idx].zero_entry_with_delta.get(&code) {
                                if got == *d && exp == 0 {
                                    stats.zero_entry.get_or_insert_with(|| format!("lookup_glyph_index(U+{:04X}) = {} for a glyphIdArray entry 0", ch as u32, got));
                                    continue;
                                }
                            }
                        }
                    }
                    return Err(fail(
                        &format!("lookup-{:?}", e).to_lowercase(),
                        format!(
                            "lookup_glyph_index(U+{:04X}) = {}, expected {} (selected ({},{}) format {}, code {:X?}, usFirstCharIndex {:?})",
                            ch as u32,
                            got,
                            exp,
                            r.platform,
                            r.encoding,
                            r.format,
                            rm::char_code(e, ch, first_char),
                            case.first_char
                        ),
                    ));
                }
                stats.probes += 1;
                if exp != 0 {
                    stats.hits += 1;
                }
                if !full_sweep && !VS.contains(&(ch as u32)) && text_exp.len() < 400 {
                    text.push(ch);
                    text_exp.push(exp);
                }
            }
            // map_glyphs over the same characters (Myanmar script tag: no text preprocessing)
            let glyphs = font.map_glyphs(&text, allsorts::tag::MYM2, MatchingPresentation::NotRequired);
            let got: Vec<u16> = glyphs.iter().map(|g| g.glyph_index).collect();
            if got != text_exp {
                let at = got.iter().zip(text_exp.iter()).position(|(a, b)| a != b);
                return Err(fail(
                    "map_glyphs",
                    format!("map_glyphs differs from per-character expectation at {:?} (lengths {} / {})", at, got.len(), text_exp.len()),
                ));
            }
            for (g, ch) in glyphs.iter().zip(text.chars()) {
                if g.unicodes.as_slice() != [ch] {
                    return Err(fail("map_glyphs-unicodes", format!("glyph for U+{:04X} carries unicodes {:?}", ch as u32, g.unicodes)));
                }
            }
        }
    }
    finish(case, rec, stats)
}

fn finish(case: &Case, rec: &mut Rec, stats: Stats) -> CaseResult {
    rec.evaluations(stats.probes);
    rec.set_nontrivial(stats.hits > 0);
    rec.class_if(stats.excluded_f2 > 0, "excluded:format-2-ambiguous-code(value only; lookup/enumeration relation still asserted)");
    rec.class_if(stats.excluded_mac > 0, "excluded:mac-roman-disputed-char");
    rec.sample(|| {
        format!(
            "records {:?} usFirstCharIndex {:?}: {} probes, {} on mapped codes",
            case.recs.iter().map(|r| (r.platform, r.encoding, r.format, r.map.len())).collect::<Vec<_>>(),
            case.first_char,
            stats.probes,
            stats.hits
        )
    });
    // attributed deviations are reported last so that everything else about the case was checked
    if let Some(m) = stats.zero_entry {
        return Err(fail("f4-zero-array-entry-gets-idDelta", m));
    }
    if let Some(m) = stats.f2_alias {
        return Err(fail("f2-code-above-16-bits-aliased", m));
    }
    if let Some(m) = stats.f2_single_alias {
        return Err(fail("f2-two-byte-code-with-single-byte-high-aliased", m));
    }
    if let Some(m) = stats.f14_selected {
        return Err(fail("format-14-record-selected-as-character-map", m));
    }
    Ok(())
}

// ---------------------------------------------------------------------------------------------
// exhaustive conversions

fn macroman_byte(b: u8, rec: &mut Rec) -> CaseResult {
    use allsorts::macroman::{char_to_macroman, macroman_to_char};
    let mine = rm::mac_roman_decode(b);
    match macroman_to_char(b) {
        // the documented exclusion list (PDF MacRomanEncoding subset) is not a violation
        None if rm::mac_roman_pdf_excluded(b) => {
            rec.class("excluded:mac-roman-code-undefined-by-design");
            Ok(())
        }
        None => Err(fail(
            "macroman-code-undefined",
            format!("macroman_to_char({:#04X}) = None; Mac OS Roman defines it as U+{:04X}", b, mine),
        )),
        Some(c) => {
            let ok = c as u32 == mine || (b == 0xDB && c as u32 == rm::MAC_ROMAN_DB_OLD);
            if !ok {
                return Err(fail(
                    "macroman-wrong-char",
                    format!("macroman_to_char({:#04X}) = U+{:04X}; Mac OS Roman defines it as U+{:04X}", b, c as u32, mine),
                ));
            }
            if char_to_macroman(c) != Some(b) {
                return Err(fail(
                    "macroman-not-inverse",
                    format!("macroman_to_char({:#04X}) = U+{:04X} but char_to_macroman(U+{:04X}) = {:?}", b, c as u32, c as u32, char_to_macroman(c)),
                ));
            }
            Ok(())
        }
    }
}

fn macroman_plane(plane: u32) -> CaseResult {
    use allsorts::macroman::{char_to_macroman, is_macroman, macroman_to_char};
    for v in plane << 16..(plane + 1) << 16 {
        let c = match char::from_u32(v) {
            Some(c) => c,
            None => continue,
        };
        let a = char_to_macroman(c);
        if is_macroman(c) != a.is_some() {
            return Err(fail("macroman-is_macroman", format!("is_macroman(U+{:04X}) disagrees with char_to_macroman", v)));
        }
        if let Some(b) = a {
            if macroman_to_char(b) != Some(c) {
                return Err(fail(
                    "macroman-not-inverse",
                    format!("char_to_macroman(U+{:04X}) = {:#04X} but macroman_to_char({:#04X}) = {:?}", v, b, b, macroman_to_char(b)),
                ));
            }
            let ok = rm::mac_roman_encode(v) == Some(b) || (b == 0xDB && v == rm::MAC_ROMAN_DB_OLD);
            if !ok {
                return Err(fail(
                    "macroman-wrong-code",
                    format!("char_to_macroman(U+{:04X}) = {:#04X}; Mac OS Roman says {:X?}", v, b, rm::mac_roman_encode(v)),
                ));
            }
        }
    }
    Ok(())
}

fn big5_plane(plane: u32, rec: &mut Rec) -> CaseResult {
    use allsorts::big5::{big5_to_unicode, unicode_to_big5};
    let mut image = 0u64;
    for v in plane << 16..(plane + 1) << 16 {
        let c = match char::from_u32(v) {
            Some(c) => c,
            None => continue,
        };
        let a = unicode_to_big5(c);
        if a != rm::big5_encode(c) {
            return Err(fail("big5-encode", format!("unicode_to_big5(U+{:04X}) = {:X?}, WHATWG encoder says {:X?}", v, a, rm::big5_encode(c))));
        }
        if let Some(code) = a {
            image += 1;
            let back = big5_to_unicode(code);
            if back != Some(c) {
                return Err(fail(
                    "big5-not-inverse",
                    format!("unicode_to_big5(U+{:04X}) = {:#06X} but big5_to_unicode({:#06X}) = {:X?}", v, code, code, back.map(|c| c as u32)),
                ));
            }
            // the converse on the encoder's image
            if back.and_then(unicode_to_big5) != Some(code) {
                return Err(fail("big5-not-inverse", format!("code {:#06X} of the encoder's image does not survive decode/encode", code)));
            }
        }
    }
    rec.class_if(image > 0, "big5:plane-with-encodable-chars");
    rec.evaluations(image);
    Ok(())
}

/// Differential on real fonts: the independent reader's view of the selected subtable against
/// allsorts' enumeration and lookups (also the sanity check of the reader itself).
fn check_fixture(i: u64, rec: &mut Rec) -> CaseResult {
    use crate::props::c08;
    let names = c08::fixture_names();
    let name = match names.get(i as usize) {
        Some(n) => n,
        None => return Ok(()),
    };
    let f = match c08::fixture(name) {
        Some(f) => f,
        None => return Ok(()),
    };
    let src = match &*f {
        Ok(s) => s,
        Err(_) => {
            rec.class("fixture:no-usable-cmap");
            return Ok(());
        }
    };
    rec.hash_bytes(name.as_bytes());
    let mut font = match load_font(&src.bytes) {
        Ok(f) => f,
        Err(e) => return Err(fail("fixture-rejected", format!("{}: Font::new: {} (the reference reader selects ({},{}) format {})", name, e, src.platform_encoding.0, src.platform_encoding.1, src.format))),
    };
    if enc_of(font.cmap_subtable_encoding) != src.enc {
        return Err(fail("selection-encoding", format!("{}: cmap_subtable_encoding {:?}, reference {:?}", name, font.cmap_subtable_encoding, src.enc)));
    }
    rec.class(&format!("fixture:{:?} f{}", src.enc, src.format));
    // enumeration of the selected subtable
    let st = ReadScope::new(font.cmap_subtable_data())
        .read::<CmapSubtable<'_>>()
        .map_err(|e| fail("subtable-rejected", format!("{}: {:?}", name, e)))?;
    let mut listed: BTreeMap<u32, u16> = BTreeMap::new();
    st.mappings_fn(|c, g| {
        if g != 0 {
            listed.entry(c).or_insert(g);
        }
    })
    .map_err(|e| fail("mappings_fn-error", format!("{}: {:?}", name, e)))?;
    if src.format == 2 {
        // only the codes format 2 defines unambiguously are compared: the reference reader
        // answers 0 for the others, so restrict both sides to the reference's domain
        listed.retain(|c, _| src.table.contains_key(c));
    }
    if listed != src.table {
        let a: Vec<_> = src.table.iter().filter(|(c, g)| listed.get(c) != Some(g)).take(3).collect();
        let b: Vec<_> = listed.iter().filter(|(c, g)| src.table.get(c) != Some(g)).take(3).collect();
        return Err(fail("fixture-enumeration", format!("{}: format {}: reference has {:X?}, mappings_fn has {:X?}", name, src.format, a, b)));
    }
    // lookups through the font
    let first_char = src.first_char.unwrap_or(0x20);
    if (src.enc == Enc::Symbol || src.enc == Enc::MacRoman) && first_char < 0x20 {
        rec.class("excluded:usFirstCharIndex<0x20");
        return Ok(());
    }
    let step = (src.table.len() / 4000).max(1);
    let mut n = 0u64;
    for (k, (code, _)) in src.table.iter().enumerate() {
        if k % step != 0 {
            continue;
        }
        let mut chars = BTreeSet::new();
        for d in [code.wrapping_sub(1), *code, code.wrapping_add(1)] {
            chars_for_code(src.enc, d, first_char, &mut chars);
        }
        for ch in chars {
            if src.enc == Enc::MacRoman && rm::mac_roman_disputed_char(ch as u32) {
                continue;
            }
            let exp = match rm::char_code(src.enc, ch, first_char) {
                Some(c) => src.table.get(&c).copied().unwrap_or(0),
                None => 0,
            };
            let got = font.lookup_glyph_index(ch, MatchingPresentation::NotRequired, None).0;
            if got != exp {
                return Err(fail("fixture-lookup", format!("{}: lookup_glyph_index(U+{:04X}) = {}, reference reader says {}", name, ch as u32, got, exp)));
            }
            n += 1;
        }
    }
    rec.evaluations(n);
    rec.set_nontrivial(!src.table.is_empty());
    Ok(())
}

// ---------------------------------------------------------------------------------------------
// count / width boundaries: a small deterministic set of large or edge-sized subtables

const BOUNDARY_ITEMS: u64 = 23;

/// >= 200 000 codes: everything below 0x20000, every 16th code up to 0x110000, every code of
/// [lo-3, hi+3] (at most 80 000 from each end), entry indices 65 533..65 540 and the extremes
fn boundary_sample(lo: u32, hi: u32) -> Vec<u32> {
    let mut v: Vec<u32> = (0..0x20000u32).collect();
    v.extend((0x20000..0x110000u32).step_by(16));
    let a = lo.saturating_sub(3);
    let b = hi.saturating_add(3);
    if b - a <= 160_000 {
        v.extend(a..=b);
    } else {
        v.extend(a..a + 80_000);
        v.extend(b - 80_000..=b);
    }
    for i in 65_533u32..=65_540 {
        if let Some(c) = lo.checked_add(i) {
            v.push(c);
        }
    }
    v.extend([0x10FFFE, 0x10FFFF, 0x110000, 0x7FFF_FFFF, 0x8000_0000, 0xFFFF_FFFE, 0xFFFF_FFFF]);
    v
}

fn cyc(i: u32, modulo: u32, hole_every: u32) -> u16 {
    if hole_every != 0 && i % hole_every == hole_every - 1 {
        0
    } else {
        (1 + (i.wrapping_mul(7)) % modulo) as u16
    }
}

enum Boundary {
    Model(RecModel),
    Raw(u16, Vec<u8>, u32, u32),
}

fn boundary_item(i: u64) -> (&'static str, Boundary) {
    let mk = |p: u16, e: u16, f: u16, map: BTreeMap<u32, u16>| {
        Boundary::Model(RecModel { platform: p, encoding: e, format: f, map, extra_leads: BTreeSet::new() })
    };
    let dense = |first: u32, n: u32, modulo: u32, holes: u32| -> BTreeMap<u32, u16> {
        let mut m: BTreeMap<u32, u16> = (0..n).map(|k| (first + k, cyc(k, modulo, holes))).filter(|(_, g)| *g != 0).collect();
        // first and last entry mapped, so that the array has exactly n entries
        m.insert(first, 1);
        m.insert(first + n - 1, 2);
        m
    };
    match i {
        0 => ("f10:numChars=65535", mk(0, 4, 10, dense(0x20, 65_535, 65_535, 0))),
        1 => ("f10:numChars=65536", mk(0, 4, 10, dense(0x20, 65_536, 65_535, 0))),
        2 => ("f10:numChars=65537", mk(0, 4, 10, dense(0x20, 65_537, 65_535, 0))),
        3 => ("f10:numChars=70001,astral", mk(0, 4, 10, dense(0x10000, 70_001, 65_535, 0))),
        4 => ("f10:numChars=65537,first=0", mk(0, 4, 10, dense(0, 65_537, 600, 5))),
        5 => ("f10:numChars=65537,astral,holes", mk(3, 10, 10, dense(0x1F000, 65_537, 65_535, 3))),
        6 => ("f6:entryCount=255", mk(0, 3, 6, dense(0, 255, 65_535, 0))),
        7 => ("f6:entryCount=256", mk(0, 3, 6, dense(0, 256, 65_535, 0))),
        8 => ("f6:entryCount=65535,first=0", mk(0, 3, 6, dense(0, 65_535, 65_535, 0))),
        9 => ("f6:entryCount=65535,ends-at-FFFF", mk(0, 3, 6, dense(1, 65_535, 65_535, 7))),
        10 => ("f6:first+count=0x10000", mk(0, 3, 6, dense(0xFF00, 256, 65_535, 0))),
        11 => {
            let gids: Vec<u16> = (0..300u32).map(|k| cyc(k, 65_535, 0)).collect();
            ("f6:first+count>0x10000", Boundary::Raw(6, enc::format6_raw(0xFF00, &gids), 0xFF00, 0xFF00 + 300))
        }
        12 => ("f6:first=FFFF,count=2", Boundary::Raw(6, enc::format6_raw(0xFFFF, &[5, 6]), 0xFFFF, 0x10001)),
        13 => {
            // 5000 groups: singletons and pairs with non-consecutive glyphs, BMP and beyond
            let mut m = BTreeMap::new();
            for k in 0..5000u32 {
                let c = 0x100 + k * 41;
                m.insert(c, cyc(k, 60_000, 0));
                if k % 3 == 0 {
                    m.insert(c + 1, cyc(k, 60_000, 0).wrapping_add(1).max(1));
                }
            }
            ("f12:5000-groups", mk(3, 10, 12, m))
        }
        14 => {
            // one group of 65 535 codes (glyphs 1..=65535) and a group ending at U+10FFFF
            let mut m: BTreeMap<u32, u16> = (0..65_535u32).map(|k| (0x20000 + k, (k + 1) as u16)).collect();
            for k in 0..256u32 {
                m.insert(0x10FF00 + k, (300 + k) as u16);
            }
            ("f12:group-of-65535,end=10FFFF", mk(3, 10, 12, m))
        }
        15 => (
            "f12:group>65536-codes,end=FFFFFFFF,glyph-crosses-65535",
            Boundary::Raw(12, enc::format12_raw(&[(0x10FF00, 0x10FFFF, 500), (0xFFFF_0000, 0xFFFF_FFFF, 1)]), 0xFFFF_0000, 0xFFFF_FFFF),
        ),
        16 => (
            "f12:startGlyphID+length-crosses-65535",
            Boundary::Raw(12, enc::format12_raw(&[(0x100, 0x1FF, 1), (0x3000, 0x3010, 65_530)]), 0x3000, 0x3010),
        ),
        17 => ("f4:segCount=1", mk(3, 1, 4, BTreeMap::new())),
        18 => ("f4:segCount=2", mk(3, 1, 4, dense(0x41, 26, 65_535, 0).into_iter().enumerate().map(|(k, (c, _))| (c, 10 + k as u16)).collect())),
        19 => ("f4:segCount=8189", mk(3, 1, 4, (0..8188u32).map(|k| (0x10 + 2 * k, cyc(k, 65_535, 0))).collect())),
        20 => ("f4:glyphIdArray=65500-bytes", mk(3, 1, 4, (0..32_750u32).map(|k| (0x1000 + k, cyc(k, 65_000, 0))).collect())),
        21 => {
            // every byte but 0 is a lead byte
            let mut m = BTreeMap::new();
            m.insert(0u32, 9u16);
            for l in 1..=255u32 {
                m.insert(l << 8 | l, (l * 3) as u16);
                m.insert(l << 8 | 0x40, (l * 3 + 1) as u16);
            }
            ("f2:255-lead-bytes", mk(3, 4, 2, m))
        }
        _ => ("f0:all-256-mapped", mk(1, 0, 0, (0..256u32).map(|c| (c, (1 + c % 255) as u16)).collect())),
    }
}

fn check_boundary(i: u64, rec: &mut Rec) -> CaseResult {
    let (name, item) = boundary_item(i);
    rec.class(&format!("boundary:{}", name));
    rec.hash_u64(i);
    let dry = [0u32; 0];
    match item {
        Boundary::Model(r) => {
            let mut ch = Chooser::new(&dry);
            let e = encode_record(&r, &mut ch);
            let cmap = enc::cmap_table(&[(r.platform, r.encoding, 0)], &[e.bytes.clone()], &mut ch);
            let off = rm::records(&cmap).expect("refmodel: header")[0].offset;
            let lo = r.map.keys().next().copied().unwrap_or(0);
            let hi = r.map.keys().last().copied().unwrap_or(0);
            // the 200k sample only where a lookup is O(1) or the table has few segments
            let sample = if matches!(r.format, 10 | 6 | 0) || e.segments <= 64 { boundary_sample(lo, hi) } else { Vec::new() };
            let mut stats = Stats::default();
            check_subtable(&r, &e, &cmap, off, &sample, rec, &mut stats)?;
            rec.evaluations(stats.probes + stats.relation);
            rec.set_nontrivial(true);
            if let Some(m) = stats.zero_entry.or(stats.f2_alias).or(stats.f2_single_alias) {
                return Err(fail("boundary-deviation", m));
            }
            Ok(())
        }
        Boundary::Raw(format, bytes, lo, hi) => {
            let mut ch = Chooser::new(&dry);
            let cmap = enc::cmap_table(&[(0, 4, 0)], &[bytes], &mut ch);
            let off = rm::records(&cmap).expect("refmodel: header")[0].offset;
            let st = ReadScope::new(&cmap)
                .offset(off as usize)
                .read::<CmapSubtable<'_>>()
                .map_err(|err| fail("subtable-rejected", format!("{}: {:?}", name, err)))?;
            let owned = st.to_owned();
            let mine = rm::subtable(&cmap, off).expect("refmodel: subtable");
            let mut listed: Vec<(u32, u16)> = Vec::new();
            let complete = st.mappings_fn(|c, g| listed.push((c, g))).is_ok();
            rec.class(if complete { "boundary:enumeration-complete" } else { "boundary:enumeration-reports-an-error" });
            let mut lmap: std::collections::HashMap<u32, u16> = std::collections::HashMap::with_capacity(listed.len());
            for (c, g) in &listed {
                if *g != 0 {
                    lmap.entry(*c).or_insert(*g);
                }
            }
            let flat = |r: Result<Option<u16>, allsorts::error::ParseError>| -> u16 { r.ok().flatten().unwrap_or(0) };
            let mut n = 0u64;
            let sample = boundary_sample(lo, hi);
            for code in sample.iter().copied().chain(listed.iter().map(|(c, _)| *c)) {
                let got = flat(st.map_glyph(code));
                let le = lmap.get(&code).copied().unwrap_or(0);
                // an enumeration that ended with an error is not claimed to be complete: then
                // only "what was listed is what lookups return"
                if (complete && got != le) || (le != 0 && got != le) {
                    return Err(fail(
                        &format!("lookup-vs-enumeration-f{}", format),
                        format!("{}: map_glyph({:#X}) = {} but mappings_fn lists {}", name, code, got, le),
                    ));
                }
                if let Some(o) = &owned {
                    let og = flat(o.map_glyph(code));
                    if og != got {
                        return Err(fail("owned-differs", format!("{}: code {:#X}: owned {} borrowed {}", name, code, og, got)));
                    }
                }
                // the reference reader (a glyph id beyond 65535 is no glyph)
                if mine.lookup(code) != Some(got) {
                    return Err(fail(
                        &format!("map_glyph-f{}", format),
                        format!("{}: map_glyph({:#X}) = {}, reference reader {:?}", name, code, got, mine.lookup(code)),
                    ));
                }
                n += 1;
            }
            rec.evaluations(n);
            rec.set_nontrivial(true);
            Ok(())
        }
    }
}

impl Property for C06 {
    fn id(&self) -> &'static str {
        "C06"
    }
    fn rule(&self) -> String {
        "cmap model (1-4 encoding records; formats 0/2/4/6/10/12; Unicode, Symbol, Mac Roman, Big5 and ignored \
         records) -> fontgen::cmap under random layouts -> allsorts; expected = model entry of the record the \
         documented preference order selects. Non-trivial = at least one probe on a mapped code (all probes lie on \
         model codes, within 1 of a segment/group edge, on fixed boundary codes, or belong to an exhaustive sweep); \
         distinct = hash of the cmap table bytes + usFirstCharIndex"
            .into()
    }
    fn assumptions(&self) -> Vec<String> {
        vec![
            "encoding_rs is the reference for Big5 (WHATWG index); the converse direction is asserted on the encoder's image only".into(),
            "Mac OS Roman reference = Apple ROMAN.TXT minus the fifteen codes allsorts leaves undefined by design (PDF MacRomanEncoding subset; lead decision); 0xDB may be U+20AC or U+00A4; font-level probes skip those characters (counted)".into(),
            "format 2: only codes the format defines unambiguously are compared".into(),
            "OS/2.usFirstCharIndex >= 0x20 (smaller values make the documented symbol formula underflow: C01)".into(),
            "Mac Roman lookups of characters outside Mac Roman follow the symbol rule, as font.rs documents".into(),
        ]
    }
    fn run(&self, ctx: &mut Ctx) {
        let n = ctx.cases(6_000, 150_000);
        ctx.section("tables", n, case_strategy(None), |c, rec| check_case(c, rec));
        let n = ctx.cases(16, 300);
        for (name, e) in [
            ("sweep-unicode", Enc::Unicode),
            ("sweep-symbol", Enc::Symbol),
            ("sweep-macroman", Enc::MacRoman),
            ("sweep-big5", Enc::Big5),
        ] {
            ctx.section(name, n, case_strategy(Some(e)), |c, rec| check_case_inner(c, rec, true));
        }
        ctx.enumerate("boundaries", BOUNDARY_ITEMS, false, |i, rec| check_boundary(i, rec));
        let nfix = crate::props::c08::fixture_names().len() as u64;
        ctx.enumerate("fixtures", nfix, false, |i, rec| check_fixture(i, rec));
        ctx.enumerate("macroman-bytes", 256, true, |b, rec| {
            rec.nontrivial();
            rec.hash_u64(b);
            macroman_byte(b as u8, rec)
        });
        ctx.enumerate("macroman-chars", 17, true, |p, rec| {
            rec.set_nontrivial(p == 0);
            rec.hash_u64(p);
            rec.evaluations(65535);
            macroman_plane(p as u32)
        });
        ctx.enumerate("big5-chars", 17, true, |p, rec| {
            rec.set_nontrivial(p <= 2);
            rec.hash_u64(p);
            big5_plane(p as u32, rec)
        });
    }
}
