//! C06 — not built yet.
use crate::engine::{Ctx, Property};

pub struct C06;

impl Property for C06 {
    fn id(&self) -> &'static str {
        "C06"
    }
    fn rule(&self) -> String {
        "not implemented".to_string()
    }
    fn run(&self, _ctx: &mut Ctx) {}
}
